#!/usr/bin/env python3-vt
import json, sys, glob, jsonschema
ms = json.load(open('/root/.vp/MANIFEST.schema.json')); es = json.load(open('/root/.vp/EVIDENCE.schema.json'))
m = json.load(open('/verif/MANIFEST.json')); jsonschema.validate(m, ms)
ids = [c['property_id'] for c in m['checks']] + [n['property_id'] for n in m.get('not_applicable', [])]
assert sorted(ids) == sorted(set(ids)), "duplicate ids"
for f in sorted(glob.glob('/verif/evidence/*.json')):
    try:
        jsonschema.validate(json.load(open(f)), es); print('ok', f)
    except Exception as e:
        print('INVALID', f, str(e)[:300]); sys.exit(1)
print('manifest ok; claimed:', [c['property_id'] for c in m['checks']])
