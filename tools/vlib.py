"""Shared machinery for ./check: translate, prove, audit, build harness, correspond, report."""
import fcntl, hashlib, json, os, re, shutil, subprocess, sys, time

VERIF = os.path.dirname(os.path.dirname(os.path.abspath(__file__)))
REPO = os.environ.get("VERIF_REPO", "/repo")
CACHE = os.path.join(VERIF, ".cache")
COQ = os.path.join(VERIF, "coq")
GUARD = "vbxq_aelys_lang_verif"
NCPU = min(16, os.cpu_count() or 4)

sys.path.insert(0, os.path.join(VERIF, "tools"))
import extract  # noqa: E402

FORBIDDEN = re.compile(
    r"\b(Admitted|admit|Axiom|Axioms|Parameter|Parameters|Conjecture|Conjectures|Hypothesis|Hypotheses|Variable|Variables|Abort)\b"
    r"|Unset\s+Guard|bypass_check|type-in-type|impredicative-set|Admit\s+Obligations|Unset\s+Positivity|Unset\s+Universe")

# axioms a theorem may depend on (standard-library declared); anything else fails the audit
AXIOM_ALLOW = [
    r"^Coq\.Floats\.", r"^Coq\.Numbers\.Cyclic\.Int63\.", r"PrimFloat\.", r"PrimInt63\.", r"Uint63\.",
    r"FloatAxioms\.", r"Classical_Prop\.classic", r"FunctionalExtensionality\.functional_extensionality_dep",
    r"ProofIrrelevance\.proof_irrelevance", r"Eqdep\.Eq_rect_eq\.eq_rect_eq", r"JMeq\.JMeq_eq",
    r"ClassicalEpsilon\.", r"Rdefinitions\.", r"Raxioms\.", r"ClassicalDedekindReals\.",
]


def repo_tag():
    return "repo" if REPO == "/repo" else "r" + hashlib.sha1(REPO.encode()).hexdigest()[:10]


def _private_coq():
    """A run against another tree (VERIF_REPO) gets its own copy of coq/: the generated tables under
    Extracted/ and everything compiled against them belong to ONE source tree, and two runs against
    different trees at the same time would otherwise feed each other's tables to the proofs."""
    global COQ
    if REPO == "/repo":
        return
    dst = os.path.join(CACHE, "coq-" + repo_tag())
    os.makedirs(CACHE, exist_ok=True)
    lock = open(os.path.join(CACHE, "coq.lock"), "w")      # the lock coq_make holds while it builds
    fcntl.flock(lock, fcntl.LOCK_EX)
    try:
        src = os.path.join(VERIF, "coq") + "/"
        quiet = dict(check=False, stdout=subprocess.DEVNULL, stderr=subprocess.DEVNULL)
        if not os.path.exists(os.path.join(dst, ".copied")):
            # first use: one consistent copy (sources, generated tables, compiled files)
            subprocess.run(["rsync", "-a", "--delete", src, dst + "/"], **quiet)
            open(os.path.join(dst, ".copied"), "w").close()
        else:
            # later: only hand-written sources follow /verif/coq; the tables are this tree's own and
            # make rebuilds what depends on either
            subprocess.run(["rsync", "-a", "--update", "--exclude", "Extracted/", "--include", "*/", "--include", "*.v",
                            "--include", "_CoqProject", "--exclude", "*", src, dst + "/"], **quiet)
    finally:
        fcntl.flock(lock, fcntl.LOCK_UN)
        lock.close()
    COQ = dst
    extract.OUT = os.path.join(dst, "Extracted")


_private_coq()


class Lock:
    def __init__(self, name):
        os.makedirs(CACHE, exist_ok=True)
        self.p = os.path.join(CACHE, name + ".lock")

    def __enter__(self):
        self.f = open(self.p, "w")
        fcntl.flock(self.f, fcntl.LOCK_EX)

    def __exit__(self, *a):
        fcntl.flock(self.f, fcntl.LOCK_UN)
        self.f.close()


def sh(cmd, timeout=None, cwd=None, env=None, input=None):
    e = dict(os.environ)
    if env:
        e.update(env)
    try:
        p = subprocess.run(cmd, shell=isinstance(cmd, str), cwd=cwd, env=e, input=input,
                           stdout=subprocess.PIPE, stderr=subprocess.STDOUT, timeout=timeout, text=True,
                           errors="replace")
        return p.returncode, p.stdout
    except subprocess.TimeoutExpired as ex:
        out = ex.stdout or ""
        if isinstance(out, bytes):
            out = out.decode("utf-8", "replace")
        return 124, out + "\n[timeout]"


# ---------------------------------------------------------------------------------- Coq side
def coq_sources():
    out = []
    for d in ("Base", "Extracted", "Model", "Proofs", "Props"):
        for root, _, files in os.walk(os.path.join(COQ, d)):
            for f in files:
                if f.endswith(".v"):
                    out.append(os.path.join(root, f))
    return sorted(out)


def strip_coq_comments(s):
    out, depth, i = [], 0, 0
    while i < len(s):
        if s.startswith("(*", i):
            depth += 1
            i += 2
        elif s.startswith("*)", i) and depth:
            depth -= 1
            i += 2
        else:
            if not depth:
                out.append(s[i])
            i += 1
    return "".join(out)


def forbidden_scan(files=None):
    """Admitted / Axiom / Parameter / unguarded Variable ... anywhere in the development."""
    hits = []
    for p in files or coq_sources():
        txt = strip_coq_comments(open(p, encoding="utf-8").read())
        # Variable/Hypothesis are allowed inside a Section only
        depth = 0
        for ln, line in enumerate(txt.split("\n"), 1):
            if re.match(r"\s*Section\b", line):
                depth += 1
            if re.match(r"\s*End\b", line) and depth:
                depth -= 1
            for m in FORBIDDEN.finditer(line):
                w = m.group(0)
                if w in ("Variable", "Variables", "Hypothesis", "Hypotheses") and depth > 0:
                    continue
                hits.append(f"{os.path.relpath(p, COQ)}:{ln}: {w}")
    return hits


def coq_closure(prop_mod):
    """Source files Props/<prop_mod>.v transitively depends on (via `From Aelys Require ...`)."""
    seen, todo = set(), [os.path.join(COQ, "Props", prop_mod + ".v")]
    pat = re.compile(r"(From\s+Aelys\s+)?Require\s+(?:Import\s+|Export\s+)?(.*?)\.(?=\s|$)", re.S)
    while todo:
        p = todo.pop()
        if p in seen or not os.path.exists(p):
            continue
        seen.add(p)
        txt = strip_coq_comments(open(p, encoding="utf-8").read())
        for m in pat.finditer(txt):
            for mod in m.group(2).split():
                if m.group(1):
                    todo.append(os.path.join(COQ, *mod.split(".")) + ".v")
                elif mod.startswith("Aelys."):
                    todo.append(os.path.join(COQ, *mod.split(".")[1:]) + ".v")
    return sorted(seen)


def coq_make(targets, timeout=1500):
    """Full .vo build of the given targets (relative to coq/).  The Makefile is regenerated
    under a short lock; if `make -q` says the targets are up to date nothing else is locked,
    otherwise the build runs under the coq lock (two makes must not compile one file at once)."""
    with Lock("coq-makefile"):
        gen = os.path.join(COQ, "_CoqProject.gen")
        want = open(os.path.join(COQ, "_CoqProject")).read() + "".join(
            os.path.relpath(p, COQ) + "\n" for p in coq_sources())
        have = open(gen).read() if os.path.exists(gen) else None
        if have != want or not os.path.exists(os.path.join(COQ, "Makefile.gen")):
            open(gen, "w").write(want)
            rc, out = sh("coq_makefile -f _CoqProject.gen -o Makefile.gen", cwd=COQ, timeout=120)
            if rc != 0:
                return False, out
    if targets:
        rc, out = sh(["make", "-f", "Makefile.gen", "-q"] + list(targets), cwd=COQ, timeout=300)
        if rc == 0:
            return True, "up to date"
    with Lock("coq"):
        # no single file may hold the lock for long: every coqc is capped (a proof that needs
        # more than this must be split or moved out of the quick path)
        rc, out = sh(["make", "-f", "Makefile.gen", f"-j{NCPU}", "COQC=timeout 420 coqc"] + list(targets), cwd=COQ, timeout=timeout)
        return rc == 0, out


def theorems_in(path):
    txt = strip_coq_comments(open(path, encoding="utf-8").read())
    return re.findall(r"^\s*(?:Theorem|Example)\s+([A-Za-z0-9_']+)", txt, flags=re.M)


def print_assumptions(prop_mod, names, timeout=600):
    """Returns (dict name -> list of axioms, log).  Runs coqc on a generated file each time so
    that the audit does not depend on make having recompiled the Props file."""
    d = os.path.join(CACHE, "audit")
    os.makedirs(d, exist_ok=True)
    f = os.path.join(d, f"Audit_{prop_mod}_{os.getpid()}.v")
    body = [f"From Aelys Require Import Props.{prop_mod}.\n"]
    for n in names:
        body.append(f'Goal True. idtac "@@BEGIN {n}". Abort.\nPrint Assumptions {n}.\nGoal True. idtac "@@END {n}". Abort.\n')
    open(f, "w").write("".join(body))
    rc, out = sh(["coqc", "-noglob", "-Q", COQ, "Aelys", "-w", "-all", f], timeout=timeout, cwd=d)
    for ext in (".v", ".vo", ".vok", ".vos", ".glob"):
        try:
            os.remove(f[:-2] + ext)
        except OSError:
            pass
    res = {}
    if rc != 0:
        return None, out
    for n in names:
        m = re.search(r"@@BEGIN %s\n(.*?)@@END %s" % (re.escape(n), re.escape(n)), out, flags=re.S)
        if not m:
            return None, out
        blk = m.group(1)
        if "Closed under the global context" in blk:
            res[n] = []
        else:
            ax = re.findall(r"^([A-Za-z_][A-Za-z0-9_.']*)\s*:", blk, flags=re.M)
            # "Axioms:" / "Opaque constants:" ... are section headers of the listing, not names
            res[n] = [a for a in ax if a not in ("Axioms", "Opaque", "Transparent", "Section", "Variables", "Fetching")]
    return res, out


def axioms_allowed(ax):
    return all(any(re.search(p, a) for p in AXIOM_ALLOW) for a in ax)


# ---------------------------------------------------------------------------------- Rust side
def harness_dir():
    d = os.path.join(CACHE, "hx", repo_tag())
    os.makedirs(d, exist_ok=True)
    tmpl = open(os.path.join(VERIF, "harness", "Cargo.toml.in")).read().replace("@REPO@", REPO)
    ct = os.path.join(d, "Cargo.toml")
    if not os.path.exists(ct) or open(ct).read() != tmpl:
        open(ct, "w").write(tmpl)
    src = os.path.join(d, "src")
    if not os.path.islink(src):
        if os.path.exists(src):
            shutil.rmtree(src)
        os.symlink(os.path.join(VERIF, "harness", "src"), src)
    lock = os.path.join(d, "Cargo.lock")
    rl = os.path.join(REPO, "Cargo.lock")
    if not os.path.exists(lock) and os.path.exists(rl):
        shutil.copy(rl, lock)
    return d


def harness_build(bins, profile="dev", hooks=True, timeout=2400):
    """cargo build of the named harness binaries against REPO's working tree.
    Returns (ok, {bin: path}, log)."""
    d = harness_dir()
    target = os.path.join(CACHE, "target", repo_tag() + ("-h" if hooks else "-n"))
    env = {"CARGO_NET_OFFLINE": "true", "CARGO_TARGET_DIR": target,
           "RUSTFLAGS": (f"--cfg {GUARD} " if hooks else "") + "-Awarnings"}
    cmd = ["cargo", "build", "--offline", "-q"]
    if profile == "release":
        cmd.append("--release")
    for b in bins:
        cmd += ["--bin", b]
    with Lock("cargo-" + repo_tag() + ("-h" if hooks else "-n")):
        rc, out = sh(cmd, cwd=d, env=env, timeout=timeout)
    sub = "release" if profile == "release" else "debug"
    paths = {b: os.path.join(target, sub, b) for b in bins}
    return rc == 0, paths, out


# ---------------------------------------------------------------------------------- cases in Coq
def coq_eval_cases(tag, imports, run_fn, eqb, cases, shard=600, timeout=900, extra_defs=""):
    """cases: list of (query_term, observation_term) strings.  Evaluates the model on every
    query inside Coq (vm_compute) and returns (failing indices, error log or None)."""
    d = os.path.join(CACHE, "cases", f"{tag}_{os.getpid()}")
    shutil.rmtree(d, ignore_errors=True)
    os.makedirs(d)
    shards = [cases[i:i + shard] for i in range(0, len(cases), shard)]
    procs = []
    fails, err = [], None
    def launch(k, sh_cases):
        f = os.path.join(d, f"cases{k}.v")
        with open(f, "w") as fh:
            fh.write("From Coq Require Import NArith ZArith List String.\nImport ListNotations.\n")
            fh.write("From Aelys Require Import Base.CaseCheck.\n")
            fh.write(imports + "\n" + extra_defs + "\n")
            fh.write("Definition cases := [\n")
            fh.write(";\n".join(f"({q}, {o})" for q, o in sh_cases))
            fh.write("\n].\n")
            fh.write(f"Definition bad := failing ({run_fn}) ({eqb}) cases.\n")
            fh.write('Goal True. idtac "@@RESULT". Abort.\nEval vm_compute in bad.\nGoal True. idtac "@@DONE". Abort.\n')
        return subprocess.Popen(["coqc", "-noglob", "-Q", COQ, "Aelys", "-w", "-all", f], cwd=d,
                                stdout=subprocess.PIPE, stderr=subprocess.STDOUT, text=True)
    pending = list(enumerate(shards))
    running = []
    t0 = time.time()
    while pending or running:
        while pending and len(running) < NCPU:
            k, sc = pending.pop(0)
            running.append((k, launch(k, sc)))
        k, p = running.pop(0)
        try:
            out, _ = p.communicate(timeout=max(10, timeout - (time.time() - t0)))
        except subprocess.TimeoutExpired:
            p.kill()
            err = (err or "") + f"\nshard {k}: timeout"
            continue
        m = re.search(r"@@RESULT\n(.*?)@@DONE", out, flags=re.S)
        if p.returncode != 0 or not m:
            err = (err or "") + f"\nshard {k}: coqc failed:\n{out[-3000:]}"
            continue
        body = m.group(1)
        body = body.split(":")[0] if ":" in body else body
        for num in re.findall(r"\d+", body.replace("%N", "")):
            fails.append(k * shard + int(num))
    shutil.rmtree(d, ignore_errors=True)
    return sorted(fails), err


def coq_str(s):
    """Python str -> Coq string term (printable ASCII literal, else sb [bytes])."""
    b = s.encode("utf-8")
    if all(0x20 <= c < 0x7F for c in b):
        return '"' + s.replace('"', '""') + '"'
    return "(sb [" + ";".join(str(c) for c in b) + "])"


SLOW_CASES = []     # (tag, case text prefix) of cases whose evaluation inside Coq exceeded its time limit


def coq_eval_codes(tag, imports, code_fn, cases, shard=300, timeout=1200, shard_timeout=420):
    """cases: list of argument strings; evaluates `code_fn <args>` : N for each inside Coq and
    returns (list of ints (None where evaluation failed), error log or None).  A shard that
    does not finish within shard_timeout is split in halves and retried; a single case that
    still does not finish is given up (None, recorded in SLOW_CASES) without an error: the
    model being slow on an input says nothing about the code."""
    d = os.path.join(CACHE, "cases", f"{tag}_c{os.getpid()}")
    shutil.rmtree(d, ignore_errors=True)
    os.makedirs(d)
    res = [None] * len(cases)
    err = None
    counter = [0]

    def launch(lo, hi):
        counter[0] += 1
        f = os.path.join(d, f"codes{counter[0]}.v")
        with open(f, "w") as fh:
            fh.write("From Coq Require Import NArith ZArith List String.\nImport ListNotations.\nOpen Scope string_scope.\n")
            fh.write(imports + "\n")
            fh.write("Definition codes : list N := [\n")
            fh.write(";\n".join(f"({code_fn} {c})" for c in cases[lo:hi]))
            fh.write("\n].\n")
            fh.write('Goal True. idtac "@@RESULT". Abort.\nEval vm_compute in codes.\nGoal True. idtac "@@DONE". Abort.\n')
        return subprocess.Popen(["coqc", "-noglob", "-Q", COQ, "Aelys", "-w", "-all", f], cwd=d,
                                stdout=subprocess.PIPE, stderr=subprocess.STDOUT, text=True)
    pending = [(i, min(i + shard, len(cases)), shard_timeout) for i in range(0, len(cases), shard)]
    running = []
    t0 = time.time()
    while pending or running:
        while pending and len(running) < NCPU:
            lo, hi, lim = pending.pop(0)
            running.append((lo, hi, lim, time.time(), launch(lo, hi)))
        progressed = False
        for item in list(running):
            lo, hi, lim, ts, p = item
            rc = p.poll()
            now = time.time()
            if rc is None and now - ts < lim and now - t0 < timeout:
                continue
            running.remove(item)
            progressed = True
            if rc is None:
                p.kill()
                p.communicate()
                if now - t0 >= timeout:
                    err = (err or "") + f"\ncases {lo}..{hi}: overall timeout"
                elif hi - lo > 1:
                    mid = (lo + hi) // 2
                    sub = max(40, lim // 2)
                    pending.insert(0, (mid, hi, sub))
                    pending.insert(0, (lo, mid, sub))
                else:
                    SLOW_CASES.append((tag, cases[lo][:400]))
                continue
            out, _ = p.communicate()
            m = re.search(r"@@RESULT\n(.*?)@@DONE", out, flags=re.S)
            if rc != 0 or not m:
                err = (err or "") + f"\ncases {lo}..{hi}: coqc failed:\n{out[-3000:]}"
                continue
            body = m.group(1)
            body = body[:body.rfind(":")]
            nums = [int(x) for x in re.findall(r"\d+", body.replace("%N", ""))]
            if len(nums) != hi - lo:
                err = (err or "") + f"\ncases {lo}..{hi}: expected {hi - lo} codes, got {len(nums)}"
                continue
            for i, n in enumerate(nums):
                res[lo + i] = n
        if not progressed:
            time.sleep(0.2)
    if not os.environ.get("VERIF_KEEP_CASES"):
        shutil.rmtree(d, ignore_errors=True)
    return res, err


def coq_eval_terms(tag, imports, terms, timeout=600):
    """Evaluate each term with vm_compute and return the raw printed results (for replays)."""
    d = os.path.join(CACHE, "cases", f"{tag}_t{os.getpid()}")
    shutil.rmtree(d, ignore_errors=True)
    os.makedirs(d)
    f = os.path.join(d, "terms.v")
    with open(f, "w") as fh:
        fh.write("From Coq Require Import NArith ZArith List String.\nImport ListNotations.\n" + imports + "\n")
        for i, t in enumerate(terms):
            fh.write(f'Goal True. idtac "@@T{i}". Abort.\nEval vm_compute in ({t}).\n')
        fh.write('Goal True. idtac "@@END". Abort.\n')
    rc, out = sh(["coqc", "-noglob", "-Q", COQ, "Aelys", "-w", "-all", f], cwd=d, timeout=timeout)
    shutil.rmtree(d, ignore_errors=True)
    res = []
    for i in range(len(terms)):
        m = re.search(r"@@T%d\n(.*?)@@(?:T%d|END)" % (i, i + 1), out, flags=re.S)
        res.append(" ".join(m.group(1).split()) if m else None)
    return res, (None if rc == 0 else out)


# ---------------------------------------------------------------------------------- context
def load_known():
    p = os.path.join(VERIF, "known_findings.jsonl")
    out = []
    if os.path.exists(p):
        for line in open(p):
            line = line.strip()
            if line and not line.startswith("#"):
                out.append(json.loads(line))
    return out


class Ctx:
    def __init__(self, pid, tier, seed):
        self.pid, self.tier, self.seed = pid, tier, seed
        self.t0 = time.time()
        self.violations = []       # dicts: {signature, what, replay{...}, no_input}
        self.known_hits = []
        self.cov = {"obligations": 0, "discharged": 0, "checker_cmd": "", "trusted_base": [],
                    "evaluations": 0, "distinct_nontrivial": 0, "rule": "", "samples": []}
        self.assumptions = []
        self.level = "proof"
        self.notes = []
        self.known = [k for k in load_known() if k.get("property") == pid]
        self.broken = []           # names of proof obligations / ties that broke

    def log(self, *a):
        print(f"[{self.pid} {time.time() - self.t0:6.1f}s]", *a, flush=True)

    # -- generic "prove" step used by every property
    def prove(self, prop_mod, extracted=None, timeout=1500):
        """translate -> make Props/<mod>.vo -> forbidden scan -> Print Assumptions.
        Returns True when every obligation is discharged."""
        ok_all = True
        tr = extract.run(extracted) if extracted else {}
        for n, e in tr.items():
            if e:
                ok_all = False
                self.broken.append(f"translator:{n}: {e}")
                self.log("translator failed:", n, e)
        ppath = os.path.join(COQ, "Props", prop_mod + ".v")
        names = theorems_in(ppath)
        self.cov["obligations"] += len(names)
        self.cov["checker_cmd"] = (f"make -f Makefile.gen Props/{prop_mod}.vo (coqc 8.16.1, full .vo) ; "
                                   f"coqc Print Assumptions on every Theorem/Example of Props/{prop_mod}.v ; "
                                   "forbidden-word scan over coq/")
        if not ok_all:
            return False
        ok, out = coq_make([f"Props/{prop_mod}.vo"], timeout=timeout)
        if not ok:
            self.broken.append(f"coq:Props/{prop_mod}.vo does not build")
            tail = "\n".join(out.strip().split("\n")[-25:])
            self.log("coq build failed:\n" + tail)
            self.coq_log = out
            # which file/lemma failed
            m = re.findall(r'File "\./([^"]+)", line (\d+)', out)
            if m:
                self.broken.append(f"coq:first error at {m[0][0]}:{m[0][1]}")
            return False
        hits = forbidden_scan(coq_closure(prop_mod))
        if hits:
            self.broken.append("audit:forbidden " + "; ".join(hits[:5]))
            self.log("forbidden constructs:", hits[:5])
            return False
        ax, log = print_assumptions(prop_mod, names)
        if ax is None:
            self.broken.append("audit:Print Assumptions failed")
            self.log(log[-2000:])
            return False
        used = set()
        good = 0
        for n in names:
            if axioms_allowed(ax[n]):
                good += 1
                used.update(ax[n])
            else:
                self.broken.append(f"audit:{n} depends on non-allow-listed axioms {ax[n]}")
        self.cov["discharged"] += good
        self.cov.setdefault("theorems", []).extend(names)
        self.cov["axioms_used"] = sorted(set(self.cov.get("axioms_used", [])) | used)
        self.log(f"proved {good}/{len(names)} obligations of Props/{prop_mod}.v; axioms: {sorted(used) or 'none'}")
        return good == len(names)

    def coqchk(self, prop_mod, timeout=1500):
        rc, out = sh(["coqchk", "-silent", "-o", "-Q", COQ, "Aelys", f"Aelys.Props.{prop_mod}"], timeout=timeout, cwd=COQ)
        self.cov["coqchk"] = "ok" if rc == 0 else "FAILED"
        if rc != 0:
            self.broken.append("coqchk failed")
            self.log(out[-1500:])
        else:
            m = re.search(r"\* Axioms:(.*?)(?:\n\s*\n|\Z)", out, flags=re.S)
            self.cov["coqchk_axioms"] = " ".join(m.group(1).split()) if m else ""
        return rc == 0

    # -- findings
    def violation(self, signature, what, replay, no_input=False):
        """signature: short stable string used to match known findings."""
        for k in self.known:
            if k.get("status") == "open" and re.search(k["match"], signature):
                if k not in self.known_hits:
                    self.known_hits.append(k)
                return "known"
        self.violations.append({"signature": signature, "what": what, "replay": replay, "no_input": no_input})
        return "new"

    def add_samples(self, xs, limit=6):
        for x in xs:
            if len(self.cov["samples"]) < limit:
                self.cov["samples"].append(x)

    def finish(self):
        # broken obligations/ties without any concrete failing input => no-failing-input-found
        if self.broken and not self.violations:
            self.violations.append({"signature": "broken:" + self.broken[0], "what": "; ".join(self.broken),
                                    "replay": {"broken": self.broken}, "no_input": True})
        wall = time.time() - self.t0
        ev = {"property_id": self.pid, "tier": self.tier, "seed": self.seed, "level": self.level,
              "coverage": self.cov, "assumptions": self.assumptions, "wall_s": round(wall, 2),
              "violations": len(self.violations)}
        if self.broken:
            ev["coverage"]["broken"] = self.broken
        ev["coverage"]["known_findings_matched"] = [k["id"] for k in self.known_hits]
        if self.notes:
            ev["coverage"]["notes"] = self.notes
        if not ev["coverage"]["samples"]:
            ev["coverage"]["samples"] = ["(no cases explored: proof obligations only)"]
        # evidence/ always describes /repo; runs against another tree (VERIF_REPO) write elsewhere
        # (a --replay run re-examines one stored input: it must not replace the evidence of a full run)
        evdir = (os.path.join(VERIF, "evidence") if REPO == "/repo" and not getattr(self, "replay_file", None)
                 else os.path.join(CACHE, "evidence-" + (repo_tag() if REPO != "/repo" else "replay")))
        os.makedirs(evdir, exist_ok=True)
        with open(os.path.join(evdir, self.pid + ".json"), "w") as f:
            json.dump(ev, f, indent=1, default=str)
        for k in self.known_hits:
            print(f"KNOWN-FINDING: property={self.pid} {k['what']}")
        if not self.violations:
            self.log(f"OK ({wall:.1f}s)")
            return 0
        rd = os.path.join(VERIF, "replays", self.pid if REPO == "/repo" else self.pid + "-" + repo_tag())
        if os.path.isdir(rd):       # replays of an earlier run with the same tier/seed are stale
            for old in os.listdir(rd):
                if old.startswith(f"{self.tier}-{self.seed}-"):
                    os.remove(os.path.join(rd, old))
        os.makedirs(rd, exist_ok=True)
        for i, v in enumerate(self.violations[:5]):
            p = os.path.join(rd, f"{self.tier}-{self.seed}-{i}.json")
            with open(p, "w") as f:
                json.dump({"property": self.pid, "tier": self.tier, "seed": self.seed, "signature": v["signature"],
                           "what": v["what"], "replay": v["replay"], "broken": self.broken,
                           "cmd": f"./check {self.pid} --replay {p}"}, f, indent=1, default=str)
            tail = " no-failing-input-found" if v["no_input"] else ""
            print(f"VIOLATION property={self.pid} replay={p}{tail}")
        return 1
