#!/bin/sh
# Regenerate coq/Makefile.gen from the .v files present (full .vo builds only).
set -e
cd "$(dirname "$0")/../coq"
{ cat _CoqProject; find Base Extracted Model Proofs Props -name '*.v' | sort; } > _CoqProject.gen
coq_makefile -f _CoqProject.gen -o Makefile.gen >/dev/null
