#!/bin/sh
# runall.sh [seed] [tier]  -- run every claimed check once, print one summary line each.
cd "$(dirname "$0")/.."
SEED=${1:-0}; TIER=${2:-quick}
for id in $(python3 -c "import json;print(' '.join(c['property_id'] for c in json.load(open('MANIFEST.json'))['checks']))"); do
  t0=$(date +%s)
  out=$(VERIF_SEED=$SEED ./check $id --tier $TIER 2>&1); rc=$?
  t1=$(date +%s)
  kf=$(echo "$out" | grep -c '^KNOWN-FINDING')
  vio=$(echo "$out" | grep -c '^VIOLATION')
  echo "$id seed=$SEED tier=$TIER exit=$rc known=$kf violations=$vio wall=$((t1-t0))s"
done
