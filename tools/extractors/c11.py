"""C11 translator: std module names, the gated arms of register_std_module, the
auto-registered modules, builtin natives, the natives each std module registers, which sys
natives spawn and which check allow_exec first, capability-name -> bit map, --ae-* keys, the
order of the checks in load_native_module / load_bundled_module, what manifest each run
route passes, and the two FNV-1a parameter sets  ->  coq/Extracted/StdModules.v"""
import re
import extract
from extract import ExtractError, rd, strip_comments, write_if_changed, HEADER


def fn_body(text, name, what=""):
    m = re.search(r"\bfn\s+" + re.escape(name) + r"\s*(?:<[^>]*>)?\s*\(", text)
    if not m:
        raise ExtractError(f"{what}: fn {name} not found")
    i = text.index("{", m.end())
    depth, j = 0, i
    while j < len(text):
        if text[j] == "{":
            depth += 1
        elif text[j] == "}":
            depth -= 1
            if depth == 0:
                return text[i + 1:j]
        j += 1
    raise ExtractError(f"{what}: fn {name}: unbalanced braces")


def match_arms(body):
    """arms `"lit" => expr,` / `"lit" => { block }` of `match module_name { ... }`"""
    m = re.search(r"match\s+module_name\s*\{", body)
    if not m:
        raise ExtractError("register_std_module: `match module_name` not found")
    i, n, out = m.end(), len(body), []

    def skip_balanced(j):
        depth = 0
        while j < n:
            if body[j] in "{([":
                depth += 1
            elif body[j] in "})]":
                depth -= 1
                if depth == 0:
                    return j + 1
            j += 1
        raise ExtractError("register_std_module: unbalanced arm")

    while i < n:
        while i < n and body[i] in " \t\r\n,":
            i += 1
        if i >= n or body[i] == "}":
            break
        k = body.find("=>", i)
        if k < 0:
            raise ExtractError("register_std_module: arm without =>")
        pat = body[i:k].strip()
        j = k + 2
        while j < n and body[j] in " \t\r\n":
            j += 1
        if body[j] == "{":
            e = skip_balanced(j)
            arm = body[j + 1:e - 1]
        else:
            e, depth = j, 0
            while e < n and not (body[e] == "," and depth == 0):
                if body[e] in "{([":
                    depth += 1
                elif body[e] in "})]":
                    if depth == 0:
                        break
                    depth -= 1
                e += 1
            arm = body[j:e]
        mm = re.fullmatch(r'"([a-z_0-9]+)"', pat)
        if mm:
            out.append((mm.group(1), arm.strip()))
        elif pat != "_":
            raise ExtractError(f"register_std_module: arm pattern of unexpected shape: {pat[:40]!r}")
        i = e
    return out


EFFECT = re.compile(r"std::fs::|\bfs::(read|write|remove|create|rename|copy|metadata|read_dir|OpenOptions|File)|\bFile::|OpenOptions|"
                    r"Command::|TcpStream::|TcpListener::|UdpSocket::|read_to_string\s*\(")


def module_natives(mod):
    """[(registered name, rust fn)] of runtime/src/stdlib/<mod>.rs::register"""
    t = strip_comments(rd(f"runtime/src/stdlib/{mod}.rs"))
    body = fn_body(t, "register", mod)
    regs = re.findall(r"\b[a-z_]+!\(\s*\"([A-Za-z_0-9]+)\"\s*,\s*\d+\s*,\s*([A-Za-z_0-9:<>]+)\s*\)", body)
    direct = re.findall(r"register_native\(\s*vm\s*,\s*\"" + mod + r"\"\s*,\s*\"([A-Za-z_0-9]+)\"\s*,\s*\d+\s*,\s*([A-Za-z_0-9:<>]+)\s*\)", body)
    regs = regs + direct
    if not regs:
        raise ExtractError(f"stdlib/{mod}.rs: no native registrations recognised")
    # every register_native call in the file must go through a recognised form
    n_calls = len(re.findall(r"register_native\s*\(", body))
    n_macro_defs = len(re.findall(r"register_native\(\s*vm\s*,\s*\"" + mod + r"\"\s*,\s*\$", body))
    if n_calls != n_macro_defs + len(direct):
        raise ExtractError(f"stdlib/{mod}.rs: register_native used in an unrecognised way")
    return t, regs


EFFECTS = {
    "fs": re.compile(r"std::fs::|\bfs::[a-z_]+\s*\(|\bFile::|OpenOptions|read_to_string\s*\(|read_dir\s*\(|\.canonicalize\s*\(|\.exists\s*\(\)|\.is_file\s*\(\)|\.is_dir\s*\(\)|\.metadata\s*\(|Resource::File|FileResource"),
    "net": re.compile(r"TcpStream|TcpListener|UdpSocket|to_socket_addrs|Resource::Tcp|Resource::Udp"),
    "process": re.compile(r"Command::"),
    "env": re.compile(r"env::set_var|env::remove_var|set_current_dir"),
    "exit": re.compile(r"process::exit"),
}
PROTECTED = {"fs": "fs", "net": "net", "process": "exec"}


def closure_body(text, func, depth=3, seen=None):
    """body of `func` plus the bodies of the same-file functions it calls (transitively, bounded)"""
    seen = seen if seen is not None else set()
    if func in seen or depth < 0:
        return ""
    seen.add(func)
    try:
        b = fn_body(text, func, "closure")
    except ExtractError:
        return ""
    out = b
    for callee in set(re.findall(r"\b([a-z_][a-z0-9_]*)\s*\(", b)):
        if callee != func and re.search(r"\bfn\s+" + callee + r"\s*[(<]", text):
            out += "\n" + closure_body(text, callee, depth - 1, seen)
    return out


def registration_sites():
    """every call of a primitive that puts a native into a VM: (file, enclosing fn, primitive)"""
    import os
    prims = [("alloc_native", r"\.alloc_native\s*\("), ("alloc_foreign", r"\.alloc_foreign\s*\("),
             ("module_register", r"\b(?:stdlib::)?[a-z_]+::register\s*\(\s*(?:&mut\s+)?vm\s*\)"),
             ("register_std_module", r"\bregister_std_module\s*\("), ("register_builtins", r"\bregister_builtins\s*\("),
             ("native_registry_insert", r"native_registry\s*\.\s*insert\s*\("), ("vm_api_register", r"register_function\s*:\s*Some")]
    sites = []
    for top in ("runtime/src", "driver/src", "cli/src", "modules/src"):
        base = os.path.join(extract.REPO, top)
        for r, _, fs in os.walk(base):
            if "/tests" in r:
                continue
            for f in sorted(fs):
                if not f.endswith(".rs") or f == "verif.rs":
                    continue
                path = os.path.join(r, f)
                t = strip_comments(open(path, encoding="utf-8").read())
                fns = [(m.start(), m.group(1)) for m in re.finditer(r"\bfn\s+([a-z_][a-z0-9_]*)", t)]
                for prim, rx in prims:
                    for m in re.finditer(rx, t):
                        # the definitions themselves are not call sites
                        line_start = t.rfind("\n", 0, m.start()) + 1
                        if re.match(r"\s*(pub(\([a-z]+\))?\s+)?fn\s", t[line_start:m.start() + 4]):
                            continue
                        fn = "<top>"
                        for pos, name in fns:
                            if pos <= m.start():
                                fn = name
                            else:
                                break
                        sites.append((os.path.relpath(path, extract.REPO), fn, prim))
    return sorted(sites)


def _block_after(txt, pos):
    """text of the balanced { } block that starts at or after pos"""
    i = txt.find("{", pos)
    if i < 0:
        return ""
    depth, j = 0, i
    while j < len(txt):
        if txt[j] == "{":
            depth += 1
        elif txt[j] == "}":
            depth -= 1
            if depth == 0:
                return txt[i + 1:j]
        j += 1
    return ""


def _refusal_test(txt):
    """if `txt` starts (after optional `let x = <caps>.allow_B;` / `let caps = vm.capabilities();`) with an `if` on a negated
    allow_B whose block returns an Err built from CapabilityDenied: B, else None"""
    m = re.match(r"\s*(?:let\s+([a-z_]+)\s*=\s*[a-z_.()]*?(?:allow_([a-z]+))?\s*(?:\.clone\(\))?\s*;\s*)?if\s*!\s*([a-z_.()]+?)\s*\{", txt)
    if not m:
        return None
    var, bit_in_let, cond = m.group(1), m.group(2), m.group(3)
    cm = re.search(r"allow_([a-z]+)$", cond)
    bit = cm.group(1) if cm else (bit_in_let if var and cond == var else None)
    if not bit:
        return None
    blk = _block_after(txt, m.end() - 1)
    if "CapabilityDenied" in blk and re.search(r"return\s+Err\s*\(", blk):
        return bit
    return None


def top_guard_bit(text, body):
    """capability bit tested by the FIRST statement of a native's body: the inline refusal test, or a call
    `helper(vm, ..)?;` of a same-file helper whose body starts with it; None otherwise"""
    bit = _refusal_test(body)
    if bit:
        return bit
    m = re.match(r"\s*([a-z_][a-z0-9_]*)\s*\(\s*vm\s*(?:,[^;]*)?\)\s*\?\s*;", body)
    if m:
        try:
            hb = fn_body(text, m.group(1), "guard helper")
        except ExtractError:
            return None
        return _refusal_test(hb)
    return None


def coq_list(xs):
    return "[" + "; ".join(xs) + "]"


def q(s):
    return '"' + s + '"'


@extract.register("StdModules")
def gen_std_modules():
    modrs = strip_comments(rd("runtime/src/stdlib/mod.rs"))
    m = re.search(r"pub\s+const\s+STD_MODULES\s*:\s*&\[&str\]\s*=\s*&\[(.*?)\]\s*;", modrs, flags=re.S)
    if not m:
        raise ExtractError("stdlib/mod.rs: STD_MODULES not found")
    std = re.findall(r'"std\.([a-z_0-9]+)"', m.group(1))
    if not std:
        raise ExtractError("stdlib/mod.rs: STD_MODULES empty")
    arms = match_arms(fn_body(modrs, "register_std_module", "stdlib/mod.rs"))
    gated, known = [], []
    for name, body in arms:
        known.append(name)
        caps = re.findall(r"\ballow_([a-z]+)\b", body)
        regpos = re.search(name + r"::register\s*\(\s*vm\s*\)", body)
        if not regpos:
            raise ExtractError(f"register_std_module arm {name}: does not call {name}::register(vm)")
        if caps:
            # a refusal (CapabilityDenied returned when the bit is off) must come before the registration call
            head = body[:regpos.start()]
            bit = _refusal_test(head)
            if len(set(caps)) != 1 or bit != caps[0]:
                raise ExtractError(f"register_std_module arm {name}: capability test of unexpected shape")
            gated.append((name, caps[0]))
        elif body.strip() != regpos.group(0) and not re.fullmatch(r"\{?\s*" + re.escape(regpos.group(0)) + r"\s*\}?", body.strip()):
            raise ExtractError(f"register_std_module arm {name}: unexpected body {body.strip()[:60]!r}")
    # auto-registered modules (vm/init.rs)
    init = strip_comments(rd("runtime/src/vm/init.rs"))
    auto = re.findall(r"crate::stdlib::([a-z_]+)::register", init)
    if not auto:
        raise ExtractError("vm/init.rs: no auto-registered modules found")
    if "register_builtins" not in init:
        raise ExtractError("vm/init.rs: register_builtins call not found")
    bi = strip_comments(rd("runtime/src/vm/builtins.rs"))
    builtins = re.findall(r'alloc_native\(\s*"([A-Za-z_0-9]+)"', fn_body(bi, "register_builtins", "builtins.rs"))
    if not builtins:
        raise ExtractError("vm/builtins.rs: no builtins found")
    # natives per module, exec guards, ungated effects
    table, guarded, spawning, ungated = [], [], [], []
    for mod in known:
        text, regs = module_natives(mod)
        table.append((mod, [n for n, _ in regs]))
        for name, func in regs:
            f = func.split("::")[-1]
            try:
                b = fn_body(text, f, mod)
            except ExtractError:
                b = ""          # generated by a macro (bytes.rs): no body to inspect
            spawns = bool(re.search(r"Command::", b))
            chk = top_guard_bit(text, b) == "exec"
            if chk:
                guarded.append(f"{mod}::{name}")
            if spawns:
                spawning.append(f"{mod}::{name}")
            if EFFECT.search(b) and not chk and (mod, mod) not in [(g, g) for g, _ in gated]:
                ungated.append(f"{mod}::{name}")
    # what every registered native (and builtin) can touch, through its own body and the same-file helpers it calls
    effects = []
    for mod in known:
        text, regs = module_natives(mod)
        for name, func in regs:
            cb = closure_body(text, func.split("::")[-1])
            effs = [e for e, rx in EFFECTS.items() if rx.search(cb)]
            if effs:
                effects.append((f"{mod}::{name}", effs))
    for name in builtins:
        fm = re.search(r'alloc_native\(\s*"' + re.escape(name) + r'"\s*,\s*\d+\s*,\s*([a-z_]+)', bi)
        cb = closure_body(bi, fm.group(1)) if fm else ""
        effs = [e for e, rx in EFFECTS.items() if rx.search(cb)]
        if effs:
            effects.append((f"::{name}", effs))
    reg_sites = registration_sites()
    # natives of gated modules that re-check the capability on every call:
    # body starts with `require_<bit>(vm, "..")?;` and that helper tests allow_<bit>
    percall = []
    for mod, bit in gated:
        text, regs = module_natives(mod)
        for name, func in regs:
            try:
                b = fn_body(text, func.split("::")[-1], mod)
            except ExtractError:
                continue
            if top_guard_bit(text, b) == bit:
                percall.append(f"{mod}::{name}")
    # capability names -> bits (args/parse.rs)
    parse = strip_comments(rd("runtime/src/vm/args/parse.rs"))
    ac = fn_body(parse, "apply_caps_to_capabilities", "args/parse.rs")
    capbits = re.findall(r'"([a-z]+)"\s*=>\s*capabilities\.allow_([a-z]+)\s*=\s*enable', ac)
    if not capbits:
        raise ExtractError("args/parse.rs: capability name map not found")
    av = fn_body(parse, "apply_vm_arg", "args/parse.rs")
    aekeys = re.findall(r'"(allow-[a-z]+)"\s*=>\s*\{[^}]*?config\.capabilities\.allow_([a-z]+)\s*=\s*enabled', av, flags=re.S)
    if not aekeys or '"trusted"' not in av:
        raise ExtractError("args/parse.rs: --ae-* keys not found")
    pv = fn_body(parse, "parse_vm_args", "args/parse.rs")
    prefixes = re.findall(r'strip_prefix\("([^"]+)"\)', pv)
    if sorted(prefixes) != sorted(["--allow-caps=", "--deny-caps=", "-ae.", "--ae-"]):
        raise ExtractError(f"args/parse.rs: flag prefixes changed: {prefixes}")
    if not re.search(r"if\s+trusted_enabled\s*\{\s*config\.capabilities\.set_all\(true\);\s*config\.allow_all_native_caps\(\);", pv):
        raise ExtractError("args/parse.rs: trusted handling changed")
    # check_native_capability: deny first
    cfg = strip_comments(rd("runtime/src/vm/config.rs"))
    cn = fn_body(cfg, "check_native_capability", "vm/config.rs")
    pos = [cn.find("self.denied_caps.contains"), cn.find("self.allowed_caps.is_empty()"), cn.find("self.allowed_caps.contains")]
    if -1 in pos:
        raise ExtractError("vm/config.rs: check_native_capability changed shape")
    order_cfg = [n for _, n in sorted(zip(pos, ["Denied", "AllowedEmpty", "Allowed"]))]
    # order of the checks when a native module is loaded
    def check_order(text, fn, load_call, what):
        b = fn_body(text, fn, what)
        helpers = {}
        for callee in set(re.findall(r"\b([a-z_][a-z0-9_]*)\s*\(", b)):
            if callee != fn and re.search(r"\bfn\s+" + callee + r"\s*[(<]", text):
                helpers[callee] = closure_body(text, callee)

        def pos(rx):
            cands = [m.start() for m in re.finditer(rx, b)]
            for h, hb in helpers.items():
                if re.search(rx, hb):
                    cands += [m.start() for m in re.finditer(r"\b" + h + r"\s*\(", b)]
            return min(cands) if cands else -1
        marks = {"Caps": pos(r"check_native_capabilit"), "Checksum": pos(r"compute_file_checksum|compute_simple_hash"),
                 "Load": pos(load_call), "Version": pos(r"required_version")}
        if -1 in marks.values():
            raise ExtractError(f"{what}::{fn}: a check disappeared: {marks}")
        return [k for k, _ in sorted(marks.items(), key=lambda kv: kv[1])], b
    nl = strip_comments(rd("driver/src/modules/loader/native_load.rs"))
    order_dyn, b_dyn = check_order(nl, "load_native_module", "load_dynamic", "native_load.rs")
    run = strip_comments(rd("cli/src/cli/commands/run.rs"))
    order_emb, _ = check_order(run, "load_bundled_module", "load_embedded", "cli run.rs")
    if not re.search(r"needs\s*\.\s*path\s*\.\s*last\(\)", b_dyn):
        raise ExtractError("native_load.rs: policy lookup no longer by last path segment")
    empty_caps_skip = bool(re.search(r"!\s*policy\.capabilities\.is_empty\(\)", b_dyn))
    # every policy component (capabilities, checksum, required_version) must be looked up under the SAME key
    def lookup_keys(body, what):
        keys = [re.sub(r"[&\s]", "", k) for k in re.findall(r"(?:\.\s*module|\bnative_policy)\s*\(\s*([^()]*?)\s*\)", body)]
        if not keys:
            raise ExtractError(f"{what}: no manifest policy lookup found")
        return keys
    keys_dyn = lookup_keys(b_dyn, "native_load.rs::load_native_module")
    keys_emb = lookup_keys(fn_body(run, "load_bundled_module", "cli run.rs"), "cli run.rs::load_bundled_module")
    # the key of the dynamic route must be the last path segment (how [module.NAME] entries are keyed)
    kd = keys_dyn[0].split(",")[-1]
    last_seg = bool(re.search(r"let\s+" + re.escape(kd) + r"\s*=\s*needs\s*\.\s*path\s*\.\s*last\(\)", b_dyn))
    # does the policy lookup try the dotted import path (the resolver's key) before the last segment?
    try:
        hp = fn_body(nl, "native_policy", "native_load.rs")
        dotted_first = bool(re.search(r"\.module\(\s*module_path_str\s*\)\s*\.or_else\(\s*\|\|\s*[a-z_]+\.module\(\s*module_name\s*\)\s*\)", re.sub(r"\s+", "", hp).replace(".module(", ".module(").replace("||", "||")) or
                            (".module(module_path_str)" in re.sub(r"\s+", "", hp) and ".or_else(" in hp and ".module(module_name)" in re.sub(r"\s+", "", hp)))
    except ExtractError:
        dotted_first = False
    # an existing manifest that cannot be read must stop native modules
    ini_all = strip_comments(rd("driver/src/modules/loader/init.rs"))
    unparsable_err = "find_for_source_file" in ini_all and "manifest_error" in b_dyn
    # the std capability bits govern native-module capabilities of the same name
    std_bits = all(re.search(r"\"" + n + r"\"\s*=>\s*Some\(\s*self\.capabilities\.allow_" + n + r"\s*\)", cn) for n in ("fs", "net", "exec")) \
        and bool(re.search(r"==\s*Some\(false\)\s*\{\s*return\s+Err", cn)) and cn.find("Some(false)") < cn.find("self.denied_caps.contains")
    # which manifest each route passes
    aasm = fn_body(run, "run_aasm_file", "cli run.rs")
    m_aasm = re.search(r"load_required_modules\(\s*&mut vm\s*,\s*path\s*,\s*src\s*,\s*&required_modules\s*,\s*([A-Za-z_.()]+)", aasm)
    avbc = fn_body(run, "run_avbc_file", "cli run.rs")
    m_avbc = re.search(r"load_required_modules\(\s*&mut vm\s*,\s*path\s*,\s*src\s*,\s*&required_modules\s*,\s*([A-Za-z_.()]+)", avbc)
    if not m_aasm or not m_avbc:
        raise ExtractError("cli run.rs: load_required_modules call not found in run_aasm_file/run_avbc_file")
    aasm_none = m_aasm.group(1) == "None"
    var = m_aasm.group(1).split(".")[0]
    aasm_project = (not aasm_none) and bool(re.search(r"let\s+" + re.escape(var) + r"\s*=\s*Manifest::(?:find_)?for_source_file\(\s*path\s*\)[^;]*;", aasm))
    if not aasm_none and not aasm_project:
        raise ExtractError("cli run.rs::run_aasm_file: manifest argument of unexpected shape")
    if "deserialize_with_manifest" not in avbc or m_avbc.group(1) == "None":
        raise ExtractError("cli run.rs::run_avbc_file: manifest argument of unexpected shape")
    avbc_fallback = bool(re.search(r"None\s*=>\s*Manifest::(?:find_)?for_source_file\(\s*path\s*\)|\.or_else\(\s*\|\|\s*Manifest::(?:find_)?for_source_file\(\s*path\s*\)\s*\)", avbc))
    # since the repair of KF-C11-8: the project manifest next to the file is looked up FIRST and wins; the embedded manifest
    # (parsed from manifest_bytes) is used only when there is none
    pf = re.search(r"match\s+Manifest::(?:find_)?for_source_file\(\s*path\s*\)[^{;]*\{\s*Some\(\s*(\w+)\s*\)\s*=>\s*Some\(\s*\1\s*\)\s*,\s*None\s*=>\s*(\w+)\s*,?\s*\}", avbc)
    avbc_project_wins = bool(pf) and bool(re.search(r"let\s+" + re.escape(pf.group(2)) + r"\s*=\s*match\s+manifest_bytes", avbc)) and not avbc_fallback
    if avbc_project_wins:
        avbc_fallback = True          # a file without a manifest of its own is (still) subject to the project manifest
    avbc_embedded = not avbc_fallback and "for_source_file" not in avbc
    ini = strip_comments(rd("driver/src/modules/loader/init.rs"))
    source_project = bool(re.search(r"Manifest::(?:find_)?for_source_file\(\s*entry_file\s*\)", fn_body(ini, "new", "loader/init.rs")))
    # `needs m.symbol` is rewritten into a selective import of `symbol` from m: the rewritten statement must carry the
    # MODULE path (actual_path), since the policy is looked up from needs.path
    ld = strip_comments(rd("driver/src/modules/loader/load.rs"))
    lm = fn_body(ld, "load_module", "loader/load.rs")
    en = re.search(r"let\s+effective_needs\s*=\s*if\s+let\s+Some\([a-z_]+\)\s*=\s*&?symbol\s*\{\s*NeedsStmt\s*\{(.*?)\}\s*\}\s*else", lm, flags=re.S)
    if not en:
        raise ExtractError("loader/load.rs::load_module: the rewrite of `needs m.symbol` is no longer recognisable")
    sym_path_ok = bool(re.search(r"\bpath\s*:\s*actual_path(\.clone\(\))?\s*,", en.group(1))) and ".." not in en.group(1).split("path")[0]
    # manifest discovery: the per-file manifest is `<file name>.toml` (whatever the extension of the entry file), then aelys.toml
    man = strip_comments(rd("modules/src/manifest.rs"))
    fsf = closure_body(man, "for_source_file")
    per_file_ok = bool(re.search(r"file_name\(\)", fsf) and re.search(r"format!\(\s*\"\{\}\.toml\"\s*,\s*[a-z_]+\s*\)", fsf)
                       and re.search(r"set_file_name\s*\(|with_file_name\s*\(", fsf) and "with_extension" not in fsf)
    dir_ok = bool(re.search(r"join\(\s*\"aelys\.toml\"\s*\)", fsf))
    # `compile` embeds the manifest whenever there is one (not only when natives are bundled)
    comp = strip_comments(rd("cli/src/cli/commands/compile.rs"))
    cb = fn_body(comp, "compile_to_avbc_with_output", "cli compile.rs")
    mb = re.search(r"let\s+manifest_bytes\s*=\s*([^;]*);", cb)
    if not mb:
        raise ExtractError("cli compile.rs: manifest_bytes binding not found")
    embed_always = bool(re.fullmatch(r"\s*loader\s*\.\s*manifest\(\)\s*\.\s*map\(\s*(?:Manifest::to_bytes|\|\s*m\s*\|\s*m\.to_bytes\(\))\s*\)\s*", mb.group(1)))
    # every serialize branch other than the plain one must pass manifest_bytes
    embed_used = len(re.findall(r"serialize_with_manifest\s*\(", cb)) >= 1 and bool(re.search(r"manifest_bytes\.is_some\(\)", cb))
    # fallthrough in load_required_modules: a std module that fails to register is looked up as a user/native module
    lr = fn_body(run, "load_required_modules", "cli run.rs")
    std_fallthrough = bool(re.search(r"if\s+try_load_std_module\([^)]*\)\.is_ok\(\)\s*\{\s*continue;\s*\}", lr))
    # FNV parameters, both implementations
    ck = strip_comments(rd("driver/src/modules/loader/checksum.rs"))
    f1 = re.search(r"let\s+mut\s+hash\s*=\s*(0x[0-9a-fA-F_]+)u64", ck), re.search(r"wrapping_mul\(\s*(0x[0-9a-fA-F_]+)\s*\)", ck)
    f2 = re.search(r"const\s+FNV_OFFSET\s*:\s*u64\s*=\s*(0x[0-9a-fA-F_]+)", fn_body(run, "compute_simple_hash", "cli run.rs")), \
        re.search(r"const\s+FNV_PRIME\s*:\s*u64\s*=\s*(0x[0-9a-fA-F_]+)", fn_body(run, "compute_simple_hash", "cli run.rs"))
    if not all(f1) or not all(f2):
        raise ExtractError("FNV-1a constants not found in checksum.rs / run.rs")
    if not re.search(r"hash\s*\^=\s*u64::from\(byte\);\s*hash\s*=\s*hash\.wrapping_mul", ck) or \
            not re.search(r"hash\s*\^=\s*u64::from\(byte\);\s*hash\s*=\s*hash\.wrapping_mul", run):
        raise ExtractError("FNV-1a step changed shape")
    fnv = [int(x.group(1).replace("_", ""), 16) for x in (f1[0], f1[1], f2[0], f2[1])]

    b = lambda x: "true" if x else "false"
    out = [HEADER.format(src="runtime/src/stdlib/*.rs, runtime/src/vm/{init,builtins,config}.rs, runtime/src/vm/args/parse.rs, "
                             "driver/src/modules/loader/{native_load,checksum,init}.rs, cli/src/cli/commands/run.rs"),
           "From Coq Require Import NArith List String.\nImport ListNotations.\nLocal Open Scope string_scope.\n"]
    out.append(f"Definition std_modules : list string := {coq_list(q(x) for x in std)}.\n")
    out.append(f"Definition register_arms : list string := {coq_list(q(x) for x in known)}.\n")
    out.append("(* arms of register_std_module that refuse without a capability bit: (module, bit) *)\n")
    out.append(f"Definition gated_arms : list (string * string) := {coq_list('(%s, %s)' % (q(a), q(c)) for a, c in gated)}.\n")
    out.append(f"Definition auto_registered : list string := {coq_list(q(x) for x in auto)}.\n")
    out.append(f"Definition builtin_natives : list string := {coq_list(q(x) for x in builtins)}.\n")
    out.append("Definition module_natives : list (string * list string) :=\n  [" +
               ";\n   ".join("(%s, %s)" % (q(mn), coq_list(q(x) for x in ns)) for mn, ns in table) + "].\n")
    pair = lambda x: "(%s, %s)" % (q(x.split("::")[0]), q(x.split("::")[1]))
    out.append(f"Definition exec_guarded : list (string * string) := {coq_list(pair(x) for x in guarded)}.\n")
    out.append(f"Definition spawning_natives : list (string * string) := {coq_list(pair(x) for x in spawning)}.\n")
    out.append("(* effects found in the body (and same-file helpers) of every registered native: fs / net / process are the protected ones *)\n")
    out.append("Definition native_effects : list ((string * string) * list string) :=\n  [" +
               ";\n   ".join("(%s, %s)" % (pair(n), coq_list(q(e) for e in es)) for n, es in effects) + "].\n")
    out.append("(* every call of a primitive that registers natives: (file, enclosing fn, primitive) *)\n")
    out.append("Definition registration_sites : list (string * string * string) :=\n  [" +
               ";\n   ".join('(%s, %s, %s)' % (q(a), q(b2), q(c)) for a, b2, c in reg_sites) + "].\n")
    out.append("(* natives of gated modules that re-check the capability at the top of every call *)\n")
    out.append(f"Definition percall_guarded : list (string * string) := {coq_list(pair(x) for x in percall)}.\n")
    out.append("(* natives outside the gated modules whose body opens files / sockets / processes without a capability test *)\n")
    out.append(f"Definition ungated_effectful : list (string * string) := {coq_list(pair(x) for x in ungated)}.\n")
    out.append(f"Definition cap_bits : list (string * string) := {coq_list('(%s, %s)' % (q(a), q(c)) for a, c in capbits)}.\n")
    out.append(f"Definition ae_keys : list (string * string) := {coq_list('(%s, %s)' % (q(a), q(c)) for a, c in aekeys)}.\n")
    out.append(f"Definition native_cap_check_order : list string := {coq_list(q(x) for x in order_cfg)}.\n")
    out.append(f"Definition dynamic_check_order : list string := {coq_list(q(x) for x in order_dyn)}.\n")
    out.append(f"Definition embedded_check_order : list string := {coq_list(q(x) for x in order_emb)}.\n")
    out.append("(* key expressions of the manifest lookups in load_native_module / load_bundled_module, in source order *)\n")
    out.append(f"Definition dynamic_policy_lookup_keys : list string := {coq_list(q(x) for x in keys_dyn)}.\n")
    out.append(f"Definition embedded_policy_lookup_keys : list string := {coq_list(q(x) for x in keys_emb)}.\n")
    out.append(f"Definition dynamic_policy_key_is_last_segment : bool := {b(last_seg)}.\n")
    out.append("(* `needs m.symbol`: the rewritten selective import carries the module path m *)\n")
    out.append(f"Definition symbol_import_keeps_module_path : bool := {b(sym_path_ok)}.\n")
    out.append("(* repairs of round 4 (false on a tree that does not have them yet) *)\n")
    out.append(f"Definition policy_lookup_tries_dotted_path : bool := {b(dotted_first)}.\n")
    out.append(f"Definition unparsable_manifest_is_an_error : bool := {b(unparsable_err)}.\n")
    out.append(f"Definition native_caps_consult_std_bits : bool := {b(std_bits)}.\n")
    out.append(f"Definition empty_capability_list_skips_check : bool := {b(empty_caps_skip)}.\n")
    out.append(f"Definition source_route_uses_project_manifest : bool := {b(source_project)}.\n")
    out.append(f"Definition avbc_route_uses_embedded_manifest_only : bool := {b(avbc_embedded)}.\n")
    out.append(f"Definition aasm_route_passes_no_manifest : bool := {b(aasm_none)}.\n")
    out.append(f"Definition aasm_route_uses_project_manifest : bool := {b(aasm_project)}.\n")
    out.append(f"Definition avbc_route_falls_back_to_project_manifest : bool := {b(avbc_fallback)}.\n")
    out.append("(* run_avbc_file consults the project manifest next to the file first; an embedded manifest only speaks when there is none *)\n")
    out.append(f"Definition avbc_route_project_manifest_wins : bool := {b(avbc_project_wins)}.\n")
    out.append("(* Manifest::for_source_file looks for `<file name>.toml` next to the entry file (any extension), then for aelys.toml in its directory *)\n")
    out.append(f"Definition per_file_manifest_is_filename_dot_toml : bool := {b(per_file_ok)}.\n")
    out.append(f"Definition directory_manifest_is_aelys_toml : bool := {b(dir_ok)}.\n")
    out.append("(* `aelys compile` embeds the manifest in the .avbc whenever the project has one *)\n")
    out.append(f"Definition compile_embeds_manifest_whenever_present : bool := {b(embed_always and embed_used)}.\n")
    out.append(f"Definition denied_std_module_falls_through_to_file_lookup : bool := {b(std_fallthrough)}.\n")
    out.append(f"Definition fnv_offset_file : N := {fnv[0]}%N.\nDefinition fnv_prime_file : N := {fnv[1]}%N.\n"
               f"Definition fnv_offset_bytes : N := {fnv[2]}%N.\nDefinition fnv_prime_bytes : N := {fnv[3]}%N.\n")
    return write_if_changed("StdModules.v", "".join(out))
