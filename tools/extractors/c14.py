"""C14 translator: the order of steps and the guard conditions Model/Session.v and Model/GlobalsSync.v are
written against, read off the source STRUCTURALLY (identifier-agnostic, layout-agnostic: conditions are
found as the guard of the block that encloses a call, local `let` names are resolved to their
definitions, stages are found by the method that is called, whatever the receiver is spelled like):

driver/src/api/repl.rs            the driver loop: clear_frames, load_modules_for_program, compile_typed,
                                  update_global_mutability + add_repl_* of the imports, alloc_function,
                                  execute()?, sync_globals_to_hashmap, add_repl_known_globals
driver/src/modules/loader/compile.rs   a module: execute()?, sync_globals_to_hashmap, register_exports
runtime/src/vm/call_api/{kinds,cached}.rs   host calls: arity check, prepare, push_frame, run_fast
runtime/src/vm/dispatch/ops/*.inc  every layout switch (sync_loaded_globals) and what its guard compares with;
                                  Return: the switch towards the caller and the sync when leaving the run loop
runtime/src/vm/dispatch/run.rs    run_fast: frames of a failed run are dropped"""
import re
import extract
from extract import ExtractError, rd, strip_comments, write_if_changed, HEADER


def b(x):
    return "true" if x else "false"


def fn_body(text, name):
    """body (between the outer braces) of `fn name`"""
    m = re.search(r"\bfn\s+" + re.escape(name) + r"\s*(?:<[^>]*>)?\s*\(", text)
    if not m:
        return None
    i = text.find("{", m.end())
    # skip a `{` inside the signature is impossible here; match braces
    depth, j = 0, i
    while j < len(text):
        if text[j] == "{":
            depth += 1
        elif text[j] == "}":
            depth -= 1
            if depth == 0:
                return text[i + 1:j]
        j += 1
    return None


def all_fn_bodies(text):
    out = []
    for m in re.finditer(r"\bfn\s+(\w+)\s*(?:<[^>]*>)?\s*\(", text):
        bd = fn_body(text[m.start():], m.group(1))
        if bd is not None:
            out.append((m.group(1), bd))
    return out


def pos(body, pattern):
    """positions of all matches of a regex"""
    return [m.start() for m in re.finditer(pattern, body)]


def enclosing_guard(text, at):
    """the condition of the innermost `if` whose block contains position `at` (None: not inside an if block)"""
    depth, j = 0, at
    while j > 0:
        j -= 1
        c = text[j]
        if c == "}":
            depth += 1
        elif c == "{":
            if depth == 0:
                # header of this block: back to the previous `;`, `{` or `}`
                k = j
                while k > 0 and text[k - 1] not in ";{}":
                    k -= 1
                head = text[k:j].strip()
                m = re.match(r"(?:else\s+)?if\s+(.*)$", head, flags=re.S)
                if m and not m.group(1).lstrip().startswith("let "):
                    return m.group(1).strip(), k
                return None, k
            depth -= 1
    return None, 0


def resolve(cond, text, before):
    """replace local names bound by `let name = expr;` (latest binding before `before`) by their definitions"""
    for _ in range(4):
        changed = False
        for ident in set(re.findall(r"\b[a-z_][a-z0-9_]*\b", cond)):
            if ident in ("self", "true", "false", "len", "frames", "is_empty"):
                continue
            ms = [m for m in re.finditer(r"\blet\s+(?:mut\s+)?" + ident + r"\s*(?::[^=;]+)?=\s*([^;]+);", text[:before])]
            if ms and re.search(r"(?<![\.\w])" + ident + r"\b(?!\s*\()", cond):
                new = re.sub(r"(?<![\.\w])" + ident + r"\b(?!\s*\()", "(" + ms[-1].group(1).strip() + ")", cond)
                if new != cond and len(new) < 2000:
                    cond, changed = new, True
        if not changed:
            break
    return re.sub(r"\s+", "", cond)


def bool_helpers():
    """one-expression `fn name(&self[, p: T]) -> bool { expr }` helpers of the VM: {name: (param or None, expr)}"""
    import os
    out = {}
    root = os.path.join(extract.REPO, "runtime", "src", "vm")
    for dp, dn, fns in os.walk(root):
        for f in fns:
            if not f.endswith(".rs"):
                continue
            try:
                txt = strip_comments(open(os.path.join(dp, f)).read())
            except Exception:
                continue
            for m in re.finditer(r"\bfn\s+(\w+)\s*\(\s*&\s*self\s*(?:,\s*(\w+)\s*:\s*[^,)]+)?,?\s*\)\s*->\s*bool\s*\{\s*([^{};]+?)\s*\}", txt):
                out[m.group(1)] = (m.group(2), m.group(3))
    return out


def inline_helpers(cond, helpers):
    for _ in range(3):
        m = re.search(r"\bself\s*\.\s*(\w+)\s*\(\s*([^()]*?)\s*\)", cond)
        changed = False
        for m in re.finditer(r"\bself\s*\.\s*(\w+)\s*\(\s*([^()]*?)\s*\)", cond):
            name, arg = m.group(1), m.group(2)
            if name in helpers:
                param, expr = helpers[name]
                if param:
                    expr = re.sub(r"(?<![\.\w])" + param + r"\b", "(" + arg + ")", expr)
                cond = cond[:m.start()] + "(" + expr + ")" + cond[m.end():]
                changed = True
                break
        if not changed:
            break
    return cond


def propagates_error(body, call_end):
    """does an Err of the call whose argument list ends at `call_end` leave the function?  `call(..)?`, or the call is
    the scrutinee of a `match` with an arm `Err(..) => return Err(..)`"""
    rest = body[call_end:]
    if re.match(r"\s*\?", rest):
        return True
    m = re.match(r"\s*\{", rest)
    if m:
        depth, j = 0, call_end + m.end() - 1
        i0 = j
        while j < len(body):
            if body[j] == "{":
                depth += 1
            elif body[j] == "}":
                depth -= 1
                if depth == 0:
                    break
            j += 1
        blk = body[i0:j]
        return re.search(r"Err\s*\([^)]*\)\s*=>\s*\{?\s*return\s+Err", blk) is not None
    return False


def call_sites_fn(body, name_re):
    """[(start, end-after-closing-paren)] of calls `name(...)` of a free function whose name matches name_re"""
    out = []
    for m in re.finditer(r"\b(?:" + name_re + r")\s*\(", body):
        depth, j = 1, m.end()
        while j < len(body) and depth:
            if body[j] == "(":
                depth += 1
            elif body[j] == ")":
                depth -= 1
            j += 1
        out.append((m.start(), j))
    return out


def call_sites(body, method):
    """[(start, end-after-closing-paren)] of `.method(...)` calls (one level of nested parentheses)"""
    out = []
    for m in re.finditer(r"\.\s*" + method + r"\s*\(", body):
        depth, j = 1, m.end()
        while j < len(body) and depth:
            if body[j] == "(":
                depth += 1
            elif body[j] == ")":
                depth -= 1
            j += 1
        out.append((m.start(), j))
    return out


LOADED = ("self.current_global_mapping_id", "self.current_global_layout")
LEAVING = ("self.frames.len()==1", "self.frames.len()<=1", "self.frames.len()<2", "1==self.frames.len()")


@extract.register("ReplShape")
def gen_repl_shape():
    notes = []
    # ------------------------------------------------------------------ the driver loop
    repl = strip_comments(rd("driver/src/api/repl.rs"))
    body = fn_body(repl, "run_with_vm_and_opt")
    if body is None:
        raise ExtractError("run_with_vm_and_opt not found")
    st = {
        "clear": pos(body, r"\.\s*clear_frames\s*\("),
        "parse": pos(body, r"\bLexer\s*::|\bParser\s*::"),
        "load": pos(body, r"\bload_modules_\w+\s*\("),
        "compile": pos(body, r"\.\s*compile_typed\s*\("),
        "mutability": pos(body, r"\.\s*update_global_mutability\s*\("),
        "rec_imports": pos(body, r"\.\s*add_repl_(?:module_aliases|known_native_globals|symbol_origins)\s*\("),
        "rec_known": pos(body, r"\.\s*add_repl_known_globals\s*\("),
        "alloc": pos(body, r"\.\s*alloc_function\s*\("),
        "execute_q": [a for a, e in call_sites(body, "execute") if propagates_error(body, e)],
        "execute": pos(body, r"\.\s*execute\s*\("),
        "sync": pos(body, r"\.\s*sync_globals_to_hashmap\s*\("),
    }
    for k in ("parse", "compile", "execute", "sync"):
        if not st[k]:
            raise ExtractError(f"run_with_vm_and_opt: stage {k} not found (lexer/parser, compile_typed, execute, sync_globals_to_hashmap)")
    first_work = min(st["parse"] + st["load"] + st["compile"] + st["execute"])
    clears_first = bool(st["clear"]) and min(st["clear"]) < first_work
    compile_at = min(st["compile"])
    exec_at = min(st["execute"])
    if st["load"] and not max(st["load"]) < compile_at:
        raise ExtractError("run_with_vm_and_opt: modules are loaded after compile_typed; Model/Session.v:mstep is out of date")
    if not (st["mutability"] and compile_at < min(st["mutability"]) and max(st["mutability"]) < exec_at):
        raise ExtractError("run_with_vm_and_opt: update_global_mutability is not between compile_typed and execute; Model/Session.v:mstep is out of date")
    # the imports are recorded in the VM only once the input has been accepted (after compile_typed(..)?)
    compile_q = any(propagates_error(body, e) for a, e in call_sites(body, "compile_typed"))
    imports_after_compile = compile_q and all(p > compile_at for p in st["rec_imports"]) and \
        all(p > compile_at for p in st["rec_known"])
    # execute()? -- an error leaves before the sync; the sync and the recording of the unit's names follow a successful run
    sync_after_run = bool(st["execute_q"]) and min(st["execute_q"]) == exec_at and exec_at < min(st["sync"]) and \
        bool(st["rec_known"]) and max(st["rec_known"]) > exec_at
    if not (st["execute_q"] and min(st["execute_q"]) == exec_at):
        raise ExtractError("run_with_vm_and_opt: the result of execute is not propagated with `?`; Model/Session.v:mstep (failing run) is out of date")
    # the session's memo of loaded modules is TAKEN out of the VM before loading: it must be put back on the path on which
    # loading fails too (6a174a4), or a failing `needs` makes the session forget which modules have run
    memo_kept = True
    if re.search(r"\.\s*take_repl_session\s*\(", body):
        memo_kept = False
        for a0, e0 in call_sites_fn(body, r"load_modules_\w+"):
            rest = body[e0:]
            if re.match(r"\s*\?", rest):
                memo_kept = False
                break
            mblk = re.match(r"\s*\{", rest)
            if mblk:
                depth, j = 0, e0 + mblk.end() - 1
                i0 = j
                while j < len(body):
                    if body[j] == "{":
                        depth += 1
                    elif body[j] == "}":
                        depth -= 1
                        if depth == 0:
                            break
                    j += 1
                blk = body[i0:j]
                em = re.search(r"Err\s*\([^)]*\)\s*=>", blk)
                if em:
                    arm = blk[em.end():]
                    r_at = re.search(r"\breturn\b|\bErr\s*\(", arm)
                    memo_kept = bool(re.search(r"\.\s*set_repl_session\s*\(", arm[:r_at.start()] if r_at else arm))
            else:
                # bound to a name first: the put-back must come before the result is unwrapped
                lm = re.search(r"\blet\s+(?:mut\s+)?(\w+)\s*(?::[^=;]+)?=\s*[\w:\s]*$", body[:a0])
                if lm:
                    var = lm.group(1)
                    use = re.search(r"\b" + var + r"\s*\?|\bmatch\s+" + var + r"\b", body[e0:])
                    if use:
                        memo_kept = bool(re.search(r"\.\s*set_repl_session\s*\(", body[e0:e0 + use.start()]))
    # ------------------------------------------------------------------ a module
    comp = strip_comments(rd("driver/src/modules/loader/compile.rs"))
    # the function of the loader that runs a module's top level and registers its exports (whatever it is called)
    mbody = next((bd for _, bd in all_fn_bodies(comp) if re.search(r"\.\s*execute\s*\(", bd) and re.search(r"\.\s*register_exports\s*\(", bd)), None)
    if mbody is None:
        raise ExtractError("compile.rs: no function that executes a module and registers its exports")
    me = [a for a, e in call_sites(mbody, "execute") if propagates_error(mbody, e)]
    ms = pos(mbody, r"\.\s*sync_globals_to_hashmap\s*\(")
    mr = pos(mbody, r"\.\s*register_exports\s*\(")
    if not (me and mr):
        raise ExtractError("compile_module: execute()? / register_exports not found; Model/Session.v:load_modules is out of date")
    if not min(me) < min(mr):
        raise ExtractError("compile_module: exports are registered before the module runs; Model/Session.v:load_modules is out of date")
    module_sync = bool(ms) and min(me) < min(ms) < min(mr)
    # ------------------------------------------------------------------ host calls
    kinds = strip_comments(rd("runtime/src/vm/call_api/kinds.rs"))
    cached = strip_comments(rd("runtime/src/vm/call_api/cached.rs"))
    entry = []
    for fname, txt in (("kinds.rs", kinds), ("cached.rs", cached)):
        for name, bd in all_fn_bodies(txt):
            if re.search(r"\.\s*run_fast\s*\(", bd):
                entry.append((fname, name, bd))
    if len(entry) < 4:
        raise ExtractError("call_api: fewer than four host call entry points that run bytecode (run_fast) found")
    arity_first, host_clears, sets_gmap = True, True, True
    for fname, name, bd in entry:
        pp = pos(bd, r"\.\s*prepare_globals_for_function\s*\(")
        pf = pos(bd, r"\.\s*push_frame\s*\(")
        pr = pos(bd, r"\.\s*run_fast\s*\(")
        if not (pp and pf and min(pp) < min(pf) < min(pr)):
            raise ExtractError(f"call_api/{fname}:{name}: host call shape (prepare, push_frame, run_fast) not recognised")
        pa = pos(bd, r"!=\s*nargs\b|\bnargs\s*!=|ArityMismatch")
        arity_first = arity_first and bool(pa) and min(pa) < min(pp)
        host_clears = host_clears and bool(pos(bd, r"\.\s*clear_frames\s*\(|\.\s*frames\s*\.\s*clear\s*\("))
        sets_gmap = sets_gmap and bool(pos(bd, r"\.\s*global_mapping_id\s*=\s*[^=;]+;"))
    # ------------------------------------------------------------------ set_global (by name) also writes the loaded slot
    acc = strip_comments(rd("runtime/src/vm/globals/access.rs"))
    sg = fn_body(acc, "set_global")
    if sg is None:
        raise ExtractError("access.rs: set_global not found")
    writes_loaded = False
    for m in re.finditer(r"self\s*\.\s*globals_by_index\s*\[\s*(\w+)\s*\]\s*=\s*(\w+)\s*;", sg):
        # the index must come from the position of the name in the LOADED layout
        before = sg[:m.start()]
        if re.search(r"current_global_layout", before) and re.search(r"\.\s*position\s*\(|\.\s*index_of\s*\(|\.\s*iter\s*\(\s*\)", before):
            writes_loaded = True
    # ------------------------------------------------------------------ layout switches of the interpreter
    files = ("calls.inc", "call_global.inc", "call_global_mono.inc", "call_cached.inc", "call_upval.inc", "tail_call_upval.inc")
    n_sites, n_loaded, n_other, n_leaving = 0, 0, 0, 0
    helpers = bool_helpers()
    other = []
    calls_txt = None
    for f in files:
        try:
            txt = strip_comments(rd("runtime/src/vm/dispatch/ops/" + f))
        except Exception:
            continue
        if f == "calls.inc":
            calls_txt = txt
        for at in pos(txt, r"\bself\s*\.\s*sync_loaded_globals\s*\("):
            cond, k = enclosing_guard(txt, at)
            if cond is None:
                n_sites += 1
                n_other += 1
                other.append(f"{f}: unconditional")
                continue
            r = re.sub(r"\s+", "", inline_helpers(resolve(inline_helpers(cond, helpers), txt, k), helpers))
            n_sites += 1
            if any(x in r for x in LOADED):
                n_loaded += 1
            else:
                n_other += 1
                other.append(f"{f}: {r[:80]}")
            if any(x in r for x in LEAVING):
                n_leaving += 1
    # WHICH copy-back precedes every load of another layout: each prepare_globals_for_function of the interpreter must be
    # preceded (nearest sync call before it, after the previous load) by sync_loaded_globals -- the copy-back of the layout
    # that IS loaded -- not by a narrower one (sync_current_function_globals copies nothing when the running function has
    # no globals of its own and runs on a caller's layout)
    n_loads, bad_loads = 0, []
    for f in files + ("../run.rs",):
        try:
            txt = strip_comments(rd("runtime/src/vm/dispatch/ops/" + f))
        except Exception:
            continue
        prev = 0
        for m in re.finditer(r"\bself\s*\.\s*prepare_globals_for_function\s*\(", txt):
            syncs = list(re.finditer(r"\bself\s*\.\s*(sync_\w+)\s*\(", txt[prev:m.start()]))
            n_loads += 1
            if not syncs:
                bad_loads.append(f"{f}: load without a copy-back")
            elif syncs[-1].group(1) != "sync_loaded_globals":
                bad_loads.append(f"{f}: load after {syncs[-1].group(1)}")
            prev = m.end()
    switches_sync_loaded = n_loads > 0 and not bad_loads
    if bad_loads:
        notes.append("layout loads not preceded by sync_loaded_globals: " + "; ".join(bad_loads[:4]))
    if n_sites == 0 or calls_txt is None:
        raise ExtractError("dispatch/ops: no layout switch (sync_loaded_globals) found; Model/Session.v:call_enter/do_return are out of date")
    compare_loaded = n_other == 0
    if other:
        notes.append("layout switches whose guard does not mention the loaded layout: " + "; ".join(other[:4]))
    n_returns = len(pos(calls_txt, r"\bself\s*\.\s*frames\s*\.\s*pop\s*\("))
    return_syncs_leaving = n_returns > 0 and n_leaving >= n_returns
    # ------------------------------------------------------------------ run_fast
    run_rs = strip_comments(rd("runtime/src/vm/dispatch/run.rs"))
    rf = fn_body(run_rs, "run_fast")
    if rf is None:
        raise ExtractError("run.rs: run_fast not found")
    unwinds = False
    for m in re.finditer(r"\bself\s*\.\s*frames\s*\.\s*truncate\s*\(\s*([^()]+?)\s*\)", rf):
        arg = m.group(1)
        cond, k = enclosing_guard(rf, m.start())
        in_err = (cond is not None and ("is_err()" in re.sub(r"\s+", "", cond))) or re.search(r"Err\s*\([^)]*\)\s*=>\s*\{[^{}]*$", rf[:m.start()]) is not None
        depth = resolve(arg, rf, m.start())
        if in_err and re.search(r"self\.frames\.len\(\)(\.saturating_sub\(1\)|-1)", depth):
            unwinds = True
    out = [HEADER.format(src="driver/src/api/repl.rs, driver/src/modules/loader/compile.rs, runtime/src/vm/call_api/{kinds,cached}.rs, "
                             "runtime/src/vm/dispatch/ops/*.inc, runtime/src/vm/dispatch/run.rs"),
           f"Definition REPL_CLEARS_FRAMES_FIRST : bool := {b(clears_first)}.\n",
           f"Definition REPL_RECORDS_IMPORTS_AFTER_COMPILE : bool := {b(imports_after_compile)}.\n",
           f"Definition REPL_SYNCS_AFTER_SUCCESSFUL_RUN : bool := {b(sync_after_run)}.\n",
           f"Definition REPL_KEEPS_MODULE_MEMO_ON_FAILED_LOAD : bool := {b(memo_kept)}.\n",
           f"Definition MODULE_SYNCS_BEFORE_EXPORTS : bool := {b(module_sync)}.\n",
           f"Definition HOST_CALL_CLEARS_FRAMES : bool := {b(host_clears)}.\n",
           f"Definition HOST_CALL_CHECKS_ARITY_FIRST : bool := {b(arity_first)}.\n",
           f"Definition CACHED_FRAME_HAS_MAPPING_ID : bool := {b(sets_gmap)}.\n",
           f"Definition CALLS_COMPARE_WITH_LOADED_LAYOUT : bool := {b(compare_loaded)}.\n",
           f"Definition LAYOUT_SWITCHES_SYNC_THE_LOADED_LAYOUT : bool := {b(switches_sync_loaded)}.   (* {n_loads} loads of another layout *)\n",
           f"Definition RETURN_SYNCS_WHEN_LEAVING : bool := {b(return_syncs_leaving)}.\n",
           f"Definition RUN_FAST_UNWINDS_ON_ERROR : bool := {b(unwinds)}.\n",
           f"Definition SET_GLOBAL_WRITES_LOADED_SLOT : bool := {b(writes_loaded)}.\n",
           f"(* layout switches found: {n_sites} ({n_loaded} compare with the loaded layout, {n_leaving} also when leaving the run loop; "
           f"{n_returns} Return handlers); host call entry points running bytecode: {len(entry)} *)\n"]
    for n in notes:
        out.append(f"(* note: {n} *)\n")
    return write_if_changed("ReplShape.v", "".join(out))
