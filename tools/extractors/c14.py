"""C14 translator: the source shapes Model/GlobalsSync.v is written against.
driver/src/api/repl.rs: clear_frames first, update_global_mutability after compile_typed,
`vm.execute(func_ref)?` before sync_globals_to_hashmap (so: sync only on success);
runtime/src/vm/call_api/{kinds,cached}.rs: the host call entry points prepare the globals and push a
frame -- do they clear the frame stack first?; calls.inc Return: sync/prepare only towards a
caller frame with a non-zero mapping id."""
import re
import extract
from extract import ExtractError, rd, strip_comments, write_if_changed, HEADER


def b(x):
    return "true" if x else "false"


@extract.register("ReplShape")
def gen_repl_shape():
    repl = strip_comments(rd("driver/src/api/repl.rs"))
    m = re.search(r"pub\s+fn\s+run_with_vm_and_opt\s*\(", repl)
    if not m:
        raise ExtractError("run_with_vm_and_opt not found")
    body = repl[m.end():]
    pos = {k: body.find(k) for k in ("vm.clear_frames()", "Lexer::with_source", "compile_typed(", "vm.update_global_mutability(",
                                     "vm.execute(func_ref)?", "vm.sync_globals_to_hashmap(", "vm.add_repl_known_globals(&new_globals_set)")}
    if pos["Lexer::with_source"] < 0 or pos["compile_typed("] < 0 or pos["vm.execute(func_ref)?"] < 0 or pos["vm.sync_globals_to_hashmap("] < 0:
        raise ExtractError("run_with_vm_and_opt: expected stages (lexer / compile_typed / execute? / sync_globals_to_hashmap) not found")
    clears_first = 0 <= pos["vm.clear_frames()"] < pos["Lexer::with_source"]
    mut_after_compile = pos["compile_typed("] < pos["vm.update_global_mutability("] < pos["vm.execute(func_ref)?"]
    sync_after_execute = pos["vm.execute(func_ref)?"] < pos["vm.sync_globals_to_hashmap("]
    if not (mut_after_compile and sync_after_execute):
        raise ExtractError("run_with_vm_and_opt: order of update_global_mutability / execute / sync changed; Model/GlobalsSync.v:repl_input is out of date")
    kinds = strip_comments(rd("runtime/src/vm/call_api/kinds.rs"))
    cached = strip_comments(rd("runtime/src/vm/call_api/cached.rs"))
    for name, txt in (("kinds.rs", kinds), ("cached.rs", cached)):
        if "self.prepare_globals_for_function(" not in txt or "self.push_frame(frame)?" not in txt or "self.run_fast()" not in txt:
            raise ExtractError(f"call_api/{name}: host call shape (prepare, push_frame, run_fast) not recognised")
    host_clears = ("clear_frames()" in kinds or "self.frames.clear()" in kinds) and ("clear_frames()" in cached or "self.frames.clear()" in cached)
    cached_gmap = len(re.findall(r"frame\s*\.\s*global_mapping_id\s*=\s*gmap_id\s*;", cached)) >= 2
    calls = strip_comments(rd("runtime/src/vm/dispatch/ops/calls.inc"))
    n_old = len(re.findall(r"if\s+needs_switch\s*&&\s*caller_gmap\s*!=\s*0\s*\{\s*self\.sync_current_function_globals\(\);", calls))
    n_new = len(re.findall(r"if\s+needs_switch\s*\|\|\s*leaving_run_loop\s*\{\s*self\.sync_loaded_globals\(\);", calls))
    n_leave = len(re.findall(r"let\s+leaving_run_loop\s*=\s*self\.frames\.len\(\)\s*==\s*1\s*;", calls))
    n_need = len(re.findall(r"let\s+needs_switch\s*=\s*caller_gmap\s*!=\s*0\s*&&\s*caller_gmap\s*!=\s*self\.current_global_mapping_id\s*;", calls))
    if n_new == 2 and n_leave == 2 and n_need == 2 and n_old == 0:
        return_syncs_leaving = True
    else:
        raise ExtractError("calls.inc: Return/Return0 no longer decide the layout switch by comparing the caller's id with the loaded id "
                           "and syncing the loaded layout (also when leaving the run loop); Model/GlobalsSync.v:do_return is out of date")
    # every call path compares the callee's id with the id of the layout that is loaded (c90f0cb)
    paths = "".join(strip_comments(rd("runtime/src/vm/dispatch/ops/" + f)) for f in
                    ("calls.inc", "call_global.inc", "call_global_mono.inc", "call_cached.inc", "call_upval.inc", "tail_call_upval.inc"))
    n_loaded = len(re.findall(r"callee_gmap\s*!=\s*0\s*&&\s*(?:cached\.)?callee_gmap\s*!=\s*self\.current_global_mapping_id\s*\{\s*self\.sync_loaded_globals\(\);", paths))
    n_frameid = len(re.findall(r"callee_gmap\s*!=\s*global_mapping_id\b", paths))
    if n_loaded != 13 or n_frameid != 0:
        raise ExtractError(f"call paths: expected 13 layout switches that compare with the loaded id, found {n_loaded} (and {n_frameid} that compare "
                           "with the frame's id); Model/GlobalsSync.v:call_enter is out of date")
    run_rs = strip_comments(rd("runtime/src/vm/dispatch/run.rs"))
    m = re.search(r"pub\s+fn\s+run_fast\s*\(\s*&mut\s+self\s*\)[^{]*\{", run_rs)
    if not m:
        raise ExtractError("run.rs: run_fast not found")
    head = run_rs[m.end():m.end() + 600]
    unwinds = (re.search(r"let\s+entry_depth\s*=\s*self\.frames\.len\(\)\.saturating_sub\(1\)\s*;", head) is not None
               and re.search(r"if\s+result\.is_err\(\)\s*\{\s*self\.frames\.truncate\(entry_depth\)\s*;", head) is not None)
    out = [HEADER.format(src="driver/src/api/repl.rs, runtime/src/vm/call_api/{kinds,cached}.rs, runtime/src/vm/dispatch/ops/calls.inc, runtime/src/vm/dispatch/run.rs"),
           f"Definition REPL_CLEARS_FRAMES_FIRST : bool := {b(clears_first)}.\n",
           f"Definition HOST_CALL_CLEARS_FRAMES : bool := {b(host_clears)}.\n",
           f"Definition RETURN_SYNCS_WHEN_LEAVING : bool := {b(return_syncs_leaving)}.\n",
           f"Definition CACHED_FRAME_HAS_MAPPING_ID : bool := {b(cached_gmap)}.\n",
           f"Definition RUN_FAST_UNWINDS_ON_ERROR : bool := {b(unwinds)}.\n"]
    return write_if_changed("ReplShape.v", "".join(out))
