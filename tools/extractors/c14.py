"""C14 translator: the source shapes Model/GlobalsSync.v is written against.
driver/src/api/repl.rs: clear_frames first, update_global_mutability after compile_typed,
`vm.execute(func_ref)?` before sync_globals_to_hashmap (so: sync only on success);
runtime/src/vm/call_api/{kinds,cached}.rs: the host call entry points prepare the globals and push a
frame -- do they clear the frame stack first?; calls.inc Return: sync/prepare only towards a
caller frame with a non-zero mapping id."""
import re
import extract
from extract import ExtractError, rd, strip_comments, write_if_changed, HEADER


def b(x):
    return "true" if x else "false"


@extract.register("ReplShape")
def gen_repl_shape():
    repl = strip_comments(rd("driver/src/api/repl.rs"))
    m = re.search(r"pub\s+fn\s+run_with_vm_and_opt\s*\(", repl)
    if not m:
        raise ExtractError("run_with_vm_and_opt not found")
    body = repl[m.end():]
    pos = {k: body.find(k) for k in ("vm.clear_frames()", "Lexer::with_source", "compile_typed(", "vm.update_global_mutability(",
                                     "vm.execute(func_ref)?", "vm.sync_globals_to_hashmap(", "vm.add_repl_known_globals(&new_globals_set)")}
    if pos["Lexer::with_source"] < 0 or pos["compile_typed("] < 0 or pos["vm.execute(func_ref)?"] < 0 or pos["vm.sync_globals_to_hashmap("] < 0:
        raise ExtractError("run_with_vm_and_opt: expected stages (lexer / compile_typed / execute? / sync_globals_to_hashmap) not found")
    clears_first = 0 <= pos["vm.clear_frames()"] < pos["Lexer::with_source"]
    mut_after_compile = pos["compile_typed("] < pos["vm.update_global_mutability("] < pos["vm.execute(func_ref)?"]
    sync_after_execute = pos["vm.execute(func_ref)?"] < pos["vm.sync_globals_to_hashmap("]
    if not (mut_after_compile and sync_after_execute):
        raise ExtractError("run_with_vm_and_opt: order of update_global_mutability / execute / sync changed; Model/GlobalsSync.v:repl_input is out of date")
    kinds = strip_comments(rd("runtime/src/vm/call_api/kinds.rs"))
    cached = strip_comments(rd("runtime/src/vm/call_api/cached.rs"))
    for name, txt in (("kinds.rs", kinds), ("cached.rs", cached)):
        if "self.prepare_globals_for_function(" not in txt or "self.push_frame(frame)?" not in txt or "self.run_fast()" not in txt:
            raise ExtractError(f"call_api/{name}: host call shape (prepare, push_frame, run_fast) not recognised")
    host_clears = ("clear_frames()" in kinds or "self.frames.clear()" in kinds) and ("clear_frames()" in cached or "self.frames.clear()" in cached)
    host_syncs = "sync_current_function_globals" in kinds or "sync_globals_to_hashmap" in kinds
    calls = strip_comments(rd("runtime/src/vm/dispatch/ops/calls.inc"))
    n_ret = len(re.findall(r"if\s+needs_switch\s*&&\s*caller_gmap\s*!=\s*0\s*\{\s*self\.sync_current_function_globals\(\);", calls))
    if n_ret < 2:
        raise ExtractError("calls.inc: Return/Return0 no longer sync under `needs_switch && caller_gmap != 0`; Model/GlobalsSync.v:do_return is out of date")
    out = [HEADER.format(src="driver/src/api/repl.rs, runtime/src/vm/call_api/{kinds,cached}.rs, runtime/src/vm/dispatch/ops/calls.inc"),
           f"Definition REPL_CLEARS_FRAMES_FIRST : bool := {b(clears_first)}.\n",
           f"Definition HOST_CALL_CLEARS_FRAMES : bool := {b(host_clears)}.\n",
           f"Definition HOST_CALL_SYNCS_ON_RETURN : bool := {b(host_syncs)}.\n"]
    return write_if_changed("ReplShape.v", "".join(out))
