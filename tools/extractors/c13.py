"""C13 translator: constants and opcode numbers of the @no_gc machinery -> coq/Extracted/NoGcConsts.v

Reads (current working tree):
  runtime/src/vm/mod.rs or core.rs        MAX_NO_GC_DEPTH
  bytecode/src/bytecode/opcode.rs         EnterNoGc / ExitNoGc discriminants
  runtime/src/vm/dispatch/ops/memory.inc  the two dispatch arms: 26 increments without a bound, 27 decrements
                                          when positive and otherwise returns an error
  runtime/src/vm/gc.rs                    enter_no_gc saturates at MAX_NO_GC_DEPTH, exit_no_gc floors at 0,
                                          maybe_collect returns early when is_in_no_gc()
  backend/src/compiler/stmt/control_flow.rs, functions/typed_body.rs
                                          position of the ExitNoGc emission relative to the evaluation of the
                                          returned expression (exit_before_return_expr / exit_before_implicit_value)
"""
import re
import extract
from extract import ExtractError, rd, strip_comments, write_if_changed, HEADER


def _find_const(name, files):
    for rel in files:
        try:
            t = strip_comments(rd(rel))
        except ExtractError:
            continue
        m = re.search(r"\bconst\s+%s\s*:\s*usize\s*=\s*([0-9_]+)\s*;" % name, t)
        if m:
            return int(m.group(1).replace("_", "")), rel
    raise ExtractError(f"constant {name} not found in {files}")


def _fn_body(text, header_re):
    m = re.search(header_re, text)
    if not m:
        return None
    i = text.index("{", m.end() - 1)
    depth, j = 0, i
    while j < len(text):
        if text[j] == "{":
            depth += 1
        elif text[j] == "}":
            depth -= 1
            if depth == 0:
                return text[i:j + 1]
        j += 1
    return None


@extract.register("NoGcConsts")
def gen_nogc_consts():
    maxd, src_max = _find_const("MAX_NO_GC_DEPTH", ["runtime/src/vm/mod.rs", "runtime/src/vm/core.rs", "runtime/src/vm/config.rs",
                                                    "runtime/src/vm/gc.rs"])
    # opcode numbers
    optext = strip_comments(rd("bytecode/src/bytecode/opcode.rs"))
    ops = {}
    em = re.search(r"pub enum OpCode\s*\{(.*?)\n\}", optext, flags=re.S)
    if not em:
        raise ExtractError("enum OpCode not found")
    nxt = 0
    for item in em.group(1).split(","):
        item = item.strip()
        if not item:
            continue
        mm = re.fullmatch(r"([A-Za-z0-9_]+)(?:\s*=\s*([0-9]+))?", item)
        if not mm:
            raise ExtractError(f"enum OpCode: unsupported variant syntax {item!r}")
        if mm.group(2) is not None:
            nxt = int(mm.group(2))
        ops[mm.group(1)] = nxt
        nxt += 1
    for n in ("EnterNoGc", "ExitNoGc"):
        if n not in ops:
            raise ExtractError(f"opcode {n} not found in enum OpCode")
    # dispatch arms
    mem = strip_comments(rd("runtime/src/vm/dispatch/ops/memory.inc"))
    arm_enter = re.search(r"\b%d\s*=>\s*\{(.*?)\n    \}" % ops["EnterNoGc"], mem, flags=re.S)
    arm_exit = re.search(r"\b%d\s*=>\s*\{(.*?)\n    \}" % ops["ExitNoGc"], mem, flags=re.S)
    if not arm_enter or not arm_exit:
        raise ExtractError("dispatch arms for EnterNoGc/ExitNoGc not found in memory.inc")
    # equivalent spellings are accepted (parse the structure, not the layout)
    D = r"self\.no_gc_depth"
    INC = rf"(?:{D} \+= 1;|{D} = {D} \+ 1;)"
    DEC = rf"(?:{D} -= 1;|{D} = {D} - 1;)"
    POS = rf"(?:{D} > 0|{D} != 0|{D} >= 1|0 < {D})"
    ZERO = rf"(?:{D} == 0|{D} < 1|0 == {D})"
    a = " ".join(arm_enter.group(1).split())
    if not re.fullmatch(INC, a):
        raise ExtractError(f"EnterNoGc arm changed shape: {a!r}")
    b = " ".join(arm_exit.group(1).split())
    mexit = re.fullmatch(rf"if {POS} \{{ {DEC} \}} else \{{ (.*return Err\(.*) \}}", b) or \
        re.fullmatch(rf"if {ZERO} \{{ (.*return Err\(.*) \}} {DEC}", b)
    if not mexit:
        raise ExtractError(f"ExitNoGc arm changed shape: {b[:200]!r}")
    # VM API
    gc = strip_comments(rd("runtime/src/vm/gc.rs"))
    en = _fn_body(gc, r"pub fn enter_no_gc\s*\(&mut self\)\s*\{")
    ex = _fn_body(gc, r"pub fn exit_no_gc\s*\(&mut self\)\s*\{")
    mc = _fn_body(gc, r"pub fn maybe_collect\s*\(&mut self\)\s*\{")
    if en is None or ex is None or mc is None:
        raise ExtractError("enter_no_gc / exit_no_gc / maybe_collect not found in gc.rs")
    en1 = " ".join(en.split())
    ex1 = " ".join(ex.split())
    api_enter_saturates = bool(re.search(rf"if {D} >= MAX_NO_GC_DEPTH \{{ return; \}} {INC}", en1))
    if not api_enter_saturates and not re.fullmatch(rf"\{{ {INC} \}}", en1):
        raise ExtractError(f"enter_no_gc changed shape: {en1!r}")
    if not (re.search(rf"if {ZERO} \{{ return; \}} {DEC}", ex1) or re.fullmatch(rf"\{{ if {POS} \{{ {DEC} \}} \}}", ex1)):
        raise ExtractError(f"exit_no_gc changed shape: {ex1!r}")
    # maybe_collect: the guard must precede every path to collect()
    mc1 = re.sub(r"#\[cfg\(vbxq_aelys_lang_verif\)\]", "", mc)
    g = re.search(rf"if (?:self\.is_in_no_gc\(\)|{POS})\s*\{{\s*return;\s*\}}", " ".join(mc1.split()))
    mc1 = " ".join(mc1.split())
    c = mc1.find("self.collect()")
    if not g or c < 0 or g.start() > c:
        raise ExtractError("maybe_collect: the is_in_no_gc() early return no longer precedes collect()")
    isin = _fn_body(gc, r"pub fn is_in_no_gc\s*\(&self\)\s*->\s*bool\s*\{")
    if isin is None or not re.fullmatch(rf"\{{ {POS} \}}", " ".join(isin.split())):
        raise ExtractError("is_in_no_gc changed shape")
    # emission order of ExitNoGc relative to the return expression: read from the source text when the
    # shape is the known one, and always cross-checked against compiled code (behavioural probe: the
    # harness compiles `@no_gc fn f(a, b) { return a + b }` and observes at which depth the concatenation
    # runs and where the depth ends); when the text shape is gone the probe alone decides
    text_order = None
    try:
        cf = strip_comments(rd("backend/src/compiler/stmt/control_flow.rs"))
        ret = _fn_body(cf, r"pub fn compile_typed_return\s*\(")
        if ret is not None:
            pe = max(ret.find("OpCode::ExitNoGc"), ret.find("self.emit_exit_no_gc("))
            px = ret.find("self.compile_typed_expr(")
            pr = ret.find("OpCode::Return,")
            if pe >= 0 and px >= 0 and pr >= 0:
                text_order = "RetExitFirst" if pe < px else "RetExitAfterExpr" if pe < pr else None
    except ExtractError:
        pass
    import vlib
    ok, paths, log = vlib.harness_build(["hx_nogc"])
    if not ok:
        raise ExtractError("cannot build hx_nogc for the emission-order probe: " + log[-300:])
    rc, out = vlib.sh([paths["hx_nogc"], "--probe-order"], timeout=120)
    order = out.split()[0] if out.split() else "PROBE-FAILED"
    if rc != 0 or order not in ("RetExitFirst", "RetExitAfterExpr", "RetNoExit"):
        raise ExtractError("emission-order probe failed: " + out[-300:])
    if text_order is not None and text_order != order and order != "RetNoExit":
        raise ExtractError(f"compile_typed_return reads as {text_order} but compiled code behaves as {order}")
    flags = dict(re.findall(r"(error_restores_depth|inliner_skips_no_gc)=(true|false)", out))
    if set(flags) != {"error_restores_depth", "inliner_skips_no_gc"}:
        raise ExtractError("behavioural probe (error restore / inliner) failed: " + out[-300:])
    tb = strip_comments(rd("backend/src/compiler/functions/typed_body.rs"))
    body = _fn_body(tb, r"fn compile_typed_body\s*\(")
    if body is None:
        raise ExtractError("compile_typed_body not found")
    # implicit return: the value expression is compiled before the final ExitNoGc
    last_exit = body.rfind("OpCode::ExitNoGc")
    first_enter = body.find("OpCode::EnterNoGc")
    val = body.find("nested_compiler.compile_typed_expr(expr, result_reg)")
    fin_ret = body.rfind("OpCode::Return,")
    if min(last_exit, first_enter, val, fin_ret) < 0 or not (first_enter < val < last_exit < fin_ret):
        raise ExtractError("compile_typed_body: Enter / value / Exit / Return order changed")
    # every path to a collection: call sites of VM::collect (self.collect() / vm.collect() / VM::collect(..)) and of Heap::sweep in
    # every crate (tests, target and the verif hook files excluded).  Guarded = the call in maybe_collect after its no-gc guard, or
    # the sweep inside VM::collect itself; any other site collects without looking at no_gc_depth
    import os
    paths_found = []
    for top in sorted(os.listdir(extract.REPO)):
        srcdir = os.path.join(extract.REPO, top, "src")
        if not os.path.isdir(srcdir):
            continue
        for dp, _, fs in os.walk(srcdir):
            for f in sorted(fs):
                rel = os.path.relpath(os.path.join(dp, f), extract.REPO)
                if not (f.endswith(".rs") or f.endswith(".inc")) or "/tests/" in rel or f in ("verif.rs", "verif_sites.rs") or "/verif/" in rel:
                    continue
                t = strip_comments(open(os.path.join(dp, f), encoding="utf-8", errors="replace").read())
                for m in re.finditer(r"\b(?:self|\w*vm\w*)(?:\s*\.\s*\w+)*?\s*\.\s*collect\s*\(\s*\)|\bVM::collect\s*\(|\.\s*sweep\s*\(", t):
                    call = re.sub(r"\s+", "", m.group(0))
                    if call.endswith(".collect()") and not re.match(r"(?:self|\w*vm\w*)\.collect\(\)$|self\.vm\.collect\(\)$", call, flags=re.I):
                        continue        # iterator collect on a field
                    fns = list(re.finditer(r"\bfn\s+(\w+)", t[:m.start()]))
                    where = fns[-1].group(1) if fns else "?"
                    guarded = False
                    if rel == "runtime/src/vm/gc.rs" and where == "maybe_collect" and call == "self.collect()":
                        body_before = " ".join(re.sub(r"#\[cfg\(vbxq_aelys_lang_verif\)\]", "", t[fns[-1].start():m.start()]).split())
                        guarded = re.search(rf"if (?:self\.is_in_no_gc\(\)|{POS})\s*\{{\s*return;\s*\}}", body_before) is not None
                    if rel == "runtime/src/vm/gc.rs" and where == "collect" and call.endswith("sweep("):
                        guarded = True
                    if rel.startswith("bytecode/src/heap/") and call.endswith("sweep("):
                        continue    # the heap's own definition / internal use
                    paths_found.append((rel, where, call, guarded))
    if not any(g for _, _, _, g in paths_found):
        raise ExtractError("no guarded collection path found: maybe_collect / VM::collect changed shape")
    out = [HEADER.format(src=f"{src_max}, bytecode/src/bytecode/opcode.rs, runtime/src/vm/dispatch/ops/memory.inc, runtime/src/vm/gc.rs, "
                             "backend/src/compiler/stmt/control_flow.rs, backend/src/compiler/functions/typed_body.rs"),
           "From Coq Require Import NArith.\n",
           f"Definition MAX_NO_GC_DEPTH : N := {maxd}%N.\n",
           f"Definition OP_ENTER_NO_GC : N := {ops['EnterNoGc']}%N.\n",
           f"Definition OP_EXIT_NO_GC : N := {ops['ExitNoGc']}%N.\n",
           f"Definition api_enter_saturates : bool := {'true' if api_enter_saturates else 'false'}.\n",
           "Inductive ret_order := RetExitFirst | RetExitAfterExpr | RetNoExit.\n",
           f"Definition return_exit_order : ret_order := {order}.\n",
           "(* run_fast puts no_gc_depth back to its value at entry when a run fails (behavioural probe) *)\n",
           f"Definition error_restores_depth : bool := {flags['error_restores_depth']}.\n",
           "(* the inliner never inlines a function carrying @no_gc (behavioural probe at -O2) *)\n",
           f"Definition inliner_skips_no_gc : bool := {flags['inliner_skips_no_gc']}.\n",
           "From Coq Require Import String List.\nImport ListNotations.\n",
           "(* every call site of VM::collect / Heap::sweep in the sources (all crates): (file, enclosing fn, call, guarded).  guarded = the call\n"
           "   in maybe_collect after its no-gc guard, or the sweep inside VM::collect itself *)\n",
           "Definition collect_paths : list (string * string * string * bool) :=\n  [" +
           "; ".join('("%s"%%string, "%s"%%string, "%s"%%string, %s)' % (a, b, c, "true" if g else "false") for a, b, c, g in paths_found) + "].\n"]
    return write_if_changed("NoGcConsts.v", "".join(out))
