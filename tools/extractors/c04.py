"""C04 translator: opcode numbering, the verifier's per-opcode operand checks and the guards of the
raw-pointer sites of the dispatch loop, regenerated from the Rust source text on every run.

OpcodeNumbering.v <- bytecode/src/bytecode/opcode.rs
VerifierTable.v  <- runtime/src/vm/verifier/{mod.rs,bytecode/*.rs}
DispatchSites.v  <- runtime/src/vm/dispatch/{run.rs,ops/*.inc}

Every parser fails (ExtractError) when the source shape it understands is gone."""
import os, re
import extract
from extract import ExtractError, rd, strip_comments, write_if_changed, HEADER


# ------------------------------------------------------------------------------------ opcodes
def parse_opcodes():
    src = "bytecode/src/bytecode/opcode.rs"
    text = strip_comments(rd(src))
    m = re.search(r"#\[repr\(u8\)\]\s*pub enum OpCode\s*\{(.*?)\n\}", text, flags=re.S)
    if not m:
        raise ExtractError("opcode.rs: `#[repr(u8)] pub enum OpCode { .. }` not found")
    ops, nxt = [], 0
    for item in m.group(1).split(","):
        item = item.strip()
        if not item:
            continue
        mm = re.fullmatch(r"([A-Z][A-Za-z0-9]*)(?:\s*=\s*([0-9]+))?", item)
        if not mm:
            raise ExtractError(f"opcode.rs: unrecognised enum item {item!r}")
        if mm.group(2) is not None:
            v = int(mm.group(2))
            if v < nxt:
                raise ExtractError(f"opcode.rs: discriminant {v} of {mm.group(1)} goes backwards")
            nxt = v
        ops.append((mm.group(1), nxt))
        nxt += 1
    if not ops or ops[-1][1] > 255:
        raise ExtractError("opcode.rs: empty enum or discriminant above 255")
    m = re.search(r"pub fn from_u8\(byte: u8\) -> Option<Self>\s*\{(.*?)\n    \}", text, flags=re.S)
    if not m:
        raise ExtractError("opcode.rs: from_u8 not found")
    body = " ".join(m.group(1).split())
    names = dict(ops)
    mm = re.fullmatch(r"if (.*?) \{ Some\(unsafe \{ std::mem::transmute::<u8, OpCode>\(byte\) \}\) \} else \{ None \}", body)
    mmatch = re.fullmatch(r"match byte \{ (.*?) => Some\(unsafe \{ std::mem::transmute::<u8, OpCode>\(byte\) \}\), _ => None,? \}", body)
    if mmatch:
        ranges = []
        for alt in mmatch.group(1).split("|"):
            m3 = re.fullmatch(r"\s*([0-9]+)\s*(?:\.\.=\s*([0-9]+))?\s*", alt)
            if not m3:
                raise ExtractError(f"opcode.rs: from_u8: unrecognised match pattern {alt!r}")
            lo = int(m3.group(1))
            hi = int(m3.group(2)) if m3.group(2) else lo
            if hi > 255 or lo > hi:
                raise ExtractError("opcode.rs: from_u8: bad range")
            ranges.append((lo, hi))
        return ops, ranges, src
    if not mm:
        raise ExtractError("opcode.rs: from_u8 is no longer `if <ranges of byte> { Some(transmute(byte)) } else { None }` or a match over byte ranges")

    def val(t):
        t = t.strip()
        m2 = re.fullmatch(r"Self::([A-Za-z0-9]+) as u8", t)
        if m2:
            if m2.group(1) not in names:
                raise ExtractError(f"opcode.rs: from_u8 mentions {m2.group(1)}, which is not a variant")
            return names[m2.group(1)]
        if re.fullmatch(r"[0-9]+", t):
            if int(t) > 255:
                raise ExtractError("opcode.rs: from_u8 bound above 255")
            return int(t)
        raise ExtractError(f"opcode.rs: from_u8: unrecognised bound {t!r}")
    ranges = []
    for alt in mm.group(1).split("||"):
        alt = alt.strip()
        if alt.startswith("(") and alt.endswith(")"):
            alt = alt[1:-1].strip()
        m1 = re.fullmatch(r"byte <= (.+)", alt)
        m2 = re.fullmatch(r"byte >= (.+?) && byte <= (.+)", alt)
        if m2:
            ranges.append((val(m2.group(1)), val(m2.group(2))))
        elif m1 and "&&" not in alt:
            ranges.append((0, val(m1.group(1))))
        else:
            raise ExtractError(f"opcode.rs: from_u8: unrecognised condition {alt!r}")
    return ops, ranges, src


@extract.register("OpcodeNumbering")
def gen_opcodes():
    ops, ranges, src = parse_opcodes()
    disc = sorted(v for _, v in ops)
    accepted = [b for b in range(256) if any(lo <= b <= hi for lo, hi in ranges)]
    gaps = [b for b in accepted if b not in set(disc)]
    out = [HEADER.format(src=src), "From Coq Require Import NArith Bool List String.\nImport ListNotations.\nLocal Open Scope N_scope.\nLocal Open Scope string_scope.\n"]
    out.append("Definition opcode_names : list (N * string) := [\n  " +
               ";\n  ".join(f'({v}, "{n}")' for n, v in ops) + "].\n")
    out.append("(* every declared discriminant *)\nDefinition discriminants : list N := [" + "; ".join(str(v) for v in disc) + "].\n")
    out.append("(* from_u8 returns Some (transmutes) exactly for bytes in one of these inclusive ranges *)\n"
               "Definition from_u8_ranges : list (N * N) := [" + "; ".join(f"({lo}, {hi})" for lo, hi in ranges) + "].\n")
    out.append("Definition from_u8_accepts (b : N) : bool := existsb (fun r : N * N => andb (N.leb (fst r) b) (N.leb b (snd r))) from_u8_ranges.\n")
    out.append("(* bytes from_u8 accepts that are not discriminants *)\nDefinition gap_bytes : list N := [" + "; ".join(str(v) for v in gaps) + "].\n")
    out.append("Definition is_discriminant (b : N) : bool := existsb (N.eqb b) discriminants.\n")
    for n, v in ops:
        out.append(f"Definition OP_{n} : N := {v}.\n")
    return write_if_changed("OpcodeNumbering.v", "".join(out))


def gap_range():
    """(lo, hi) of the bytes from_u8 accepts without being discriminants, or None; ExtractError if not contiguous."""
    ops, ranges, _ = parse_opcodes()
    disc = {v for _, v in ops}
    gaps = [b for b in range(256) if any(lo <= b <= hi for lo, hi in ranges) and b not in disc]
    if not gaps:
        return None
    if gaps != list(range(gaps[0], gaps[-1] + 1)):
        raise ExtractError("from_u8 gap bytes are not one contiguous range")
    return gaps[0], gaps[-1]


# ------------------------------------------------------------------------------------ verifier
VERIFIER_DECODE = None
WARNINGS = []      # shapes that were not recognised but are covered by a contract tie (reported in the evidence, not fatal)


def inline_bool_helpers(t):
    """`fn h(a: T, b: T) -> bool { expr }` (whitespace-normalised text): replace every call h(x, y) by (expr[a:=x, b:=y])."""
    for m in list(re.finditer(r"fn (\w+)\(([^)]*)\) -> bool \{ ([^{};]+) \}", t)):
        name, params, body = m.group(1), [q.split(":")[0].strip() for q in m.group(2).split(",") if q.strip()], m.group(3)

        def call(mm):
            args = [a.strip() for a in mm.group(1).split(",")]
            if len(args) != len(params):
                return mm.group(0)
            e = body
            for pn, a in zip(params, args):
                e = re.sub(r"\b%s\b" % re.escape(pn), a, e)
            return e
        t = t[:m.start()] + t[m.end():] if False else t
        t = re.sub(r"(?<!fn )\b%s\(([^()]*)\)" % re.escape(name), call, t)
    return t


def split_arms(body, where):
    """`PATTERN => { BLOCK }` arms of a match body (brace balanced); returns [(pattern, block)]."""
    arms, i, n = [], 0, len(body)
    while i < n:
        while i < n and body[i] in " \n\t,":
            i += 1
        if i >= n:
            break
        j = body.find("=>", i)
        if j < 0:
            raise ExtractError(f"{where}: trailing text in match: {body[i:i+60]!r}")
        pat = " ".join(body[i:j].split())
        k = j + 2
        while k < n and body[k] in " \n\t":
            k += 1
        if body.startswith("return Ok(false)", k):
            arms.append((pat, None))
            i = body.find(",", k) + 1 or n
            continue
        if k >= n or body[k] != "{":
            raise ExtractError(f"{where}: arm {pat!r} is not a block")
        depth, e = 0, k
        while e < n:
            if body[e] == "{":
                depth += 1
            elif body[e] == "}":
                depth -= 1
                if depth == 0:
                    break
            e += 1
        arms.append((pat, body[k + 1:e]))
        i = e + 1
    return arms


MAKECLOSURE_SHAPE = (
    'verify_reg(a, num_regs, "MakeClosure")?; verify_const(b, constants_len, "MakeClosure")?; '
    'let constant = func.constants[b]; let func_idx = match constant.as_nested_fn_marker() { Some(idx) => idx, None => { return Err(format!( '
    '"MakeClosure constant {} is not a nested function marker", b )); } }; '
    'if func_idx >= func.nested_functions.len() { return Err(format!( "MakeClosure nested function index {} out of bounds", func_idx )); } '
    'let nested = &func.nested_functions[func_idx]; if nested.upvalue_descriptors.len() != c { return Err(format!( '
    '"MakeClosure upvalue count {} does not match descriptors {}", c, nested.upvalue_descriptors.len() )); }')

CACHEWORDS_RE = re.compile(r'if ip \+ 3 > bytecode_len \{ return Err\(format!\(.*?\)\); \}', re.S)


def parse_checks(block, where):
    """statements of one verifier arm -> list of check names."""
    txt = " ".join(block.split())
    if txt == MAKECLOSURE_SHAPE:
        return ["CRegA", "CConstB", "CMakeClosure"]
    txt = CACHEWORDS_RE.sub("CACHEWORDS;", txt)
    out = []
    for st in [s.strip() for s in txt.split(";") if s.strip()]:
        m = re.fullmatch(r'verify_reg\(([abc]), num_regs, "[^"]*"\)\?', st)
        if m:
            out.append("CReg" + m.group(1).upper())
            continue
        m = re.fullmatch(r'verify_const\((b|imm as u16 as usize), constants_len, "[^"]*"\)\?', st)
        if m:
            out.append("CConstB" if m.group(1) == "b" else "CConstImm")
            continue
        m = re.fullmatch(r'verify_upval\(([ab]), upvalues_len, "[^"]*"\)\?', st)
        if m:
            out.append("CUpval" + m.group(1).upper())
            continue
        if re.fullmatch(r'verify_jump\(ip, imm, bytecode_len, (\w+, )?"[^"]*"\)\?', st):
            out.append("CJump")
            continue
        m = re.fullmatch(r'verify_reg_range\(a, ([0-9]+), num_regs, "[^"]*"\)\?', st)
        if m:
            out.append(f"(CRangeA {m.group(1)})")
            continue
        if re.fullmatch(r'verify_reg_range\(b, c, num_regs, "[^"]*"\)\?', st):
            out.append("CRangeBC")
            continue
        m = re.fullmatch(r'verify_call_args\(([ab]), c, num_regs, "[^"]*"\)\?', st)
        if m:
            out.append("CCallArgs" + m.group(1).upper())
            continue
        if st == "CACHEWORDS":
            out.append("CCacheWords")
            continue
        raise ExtractError(f"{where}: unrecognised verifier statement {st!r}")
    return out


def parse_verifier():
    base = "runtime/src/vm/verifier/"
    mod = strip_comments(rd(base + "bytecode/mod.rs"))
    top = strip_comments(rd(base + "mod.rs"))
    m = re.search(r"pub const MAX_FUNCTION_NESTING: usize = ([0-9]+);", top)
    if not m:
        raise ExtractError("verifier/mod.rs: MAX_FUNCTION_NESTING not found")
    max_nesting = int(m.group(1))
    t = " ".join(top.split())
    if not re.search(r"if depth > MAX_FUNCTION_NESTING \{ return Err\(.*?\); \} constants::verify_constants\(func, heap\)\?; "
                     r"bytecode::verify_bytecode\(func\)\?; for nested in &func\.nested_functions \{ verify_function\(nested, heap, depth \+ 1\)\?; \} Ok\(\(\)\)", t):
        raise ExtractError("verifier/mod.rs: verify_function is no longer depth check; constants; bytecode; nested(depth+1)")
    t = " ".join(mod.split())
    # the scan loop
    if "let mut ip = 0; while ip < bytecode.len() { let instr = bytecode[ip]; let opcode_byte = (instr >> 24) as u8; let opcode = OpCode::from_u8(opcode_byte)" not in t:
        raise ExtractError("verifier/bytecode/mod.rs: linear scan header changed")
    for frag in ["if constants_len > u16::MAX as usize {", "if bytecode.len() > u32::MAX as usize {"]:
        if frag not in t:
            raise ExtractError(f"verifier/bytecode/mod.rs: size limit changed: {frag!r} missing")
    md = re.search(r"let opcode_byte = \(instr >> ([0-9]+)\) as u8;.*?let a = \(\(instr >> ([0-9]+)\) & (0x[0-9A-Fa-f]+)\) as usize; "
                   r"let b = \(\(instr >> ([0-9]+)\) & (0x[0-9A-Fa-f]+)\) as usize; let c = \(instr & (0x[0-9A-Fa-f]+)\) as usize; "
                   r"let imm = \(instr & (0x[0-9A-Fa-f]+)\) as i16;", t)
    if not md:
        raise ExtractError("verifier/bytecode/mod.rs: operand decoding (opcode_byte, a, b, c, imm) not recognised")
    global VERIFIER_DECODE
    VERIFIER_DECODE = (int(md.group(1)), int(md.group(2)), int(md.group(3), 16), int(md.group(4)), int(md.group(5), 16), int(md.group(6), 16), int(md.group(7), 16))
    if VERIFIER_DECODE[2] != 0xFF or VERIFIER_DECODE[4] != 0xFF or VERIFIER_DECODE[5] != 0xFF or VERIFIER_DECODE[6] != 0xFFFF:
        raise ExtractError("verifier/bytecode/mod.rs: operand masks are no longer 0xFF / 0xFFFF")
    m = re.search(r"let skip = matches!\( opcode, ((?:OpCode::[A-Za-z0-9]+(?: \| )?)+) \);", t)
    if not m:
        raise ExtractError("verifier/bytecode/mod.rs: `let skip = matches!(opcode, ...)` not found")
    skip = re.findall(r"OpCode::([A-Za-z0-9]+)", m.group(1))
    cats = re.findall(r"if ([a-z]+)::verify\( ?(.*?)\)\? \{ ip \+= (if skip \{ 3 \} else \{ 1 \}|1); continue; \}", t)
    if len(cats) < 8:
        raise ExtractError(f"verifier/bytecode/mod.rs: expected >= 8 category dispatches, found {len(cats)}")
    rest = t[t.rfind("continue; }") + len("continue; }"):]
    if 'return Err(format!("unhandled opcode {:?} at {}", opcode, ip));' not in rest:
        raise ExtractError("verifier/bytecode/mod.rs: fallthrough is no longer `unhandled opcode` error")
    # helpers must still delegate 1:1 to checks.rs
    for h, c in [("verify_call_args", "check_reg(base_reg, num_regs, op)?; check_call_args(base_reg, nargs, num_regs, op)"),
                 ("verify_const", "check_const_index(idx, constants_len, op)"),
                 ("verify_reg", "check_reg(reg, num_regs, op)"), ("verify_upval", "check_upval_index(idx, upvalues_len, op)"),
                 ("verify_reg_range", "check_reg_range(base, count, num_regs, op)")]:
        if not re.search(r"fn %s\([^)]*\) -> Result<\(\), String> \{ %s \}" % (h, re.escape(c)), t):
            raise ExtractError(f"verifier/bytecode/mod.rs: helper {h} no longer delegates to {c}")
    checks = " ".join(strip_comments(rd(base + "checks.rs")).split())
    # jump targets: range only (old) or range + instruction start of the linear layout (new); all three places must agree.
    # Identifier names are free.
    mpass = re.search(r"let mut (?P<S>\w+) = vec!\[false; bytecode\.len\(\) \+ 1\]; let mut (?P<P>\w+) = 0; "
                      r"while (?P=P) < bytecode\.len\(\) \{ (?P=S)\[(?P=P)\] = true; let (?P<O>\w+) = \(bytecode\[(?P=P)\] >> 24\) as u8; "
                      r"let (?P<H>\w+) = (?P<C>[^;]*); (?P=P) \+= if (?P=H) \{ 3 \} else \{ 1 \}; \} (?P=S)\[bytecode\.len\(\)\] = true;", t)
    starts_pass = False
    if mpass:
        conds = sorted(c.strip() for c in mpass.group("C").split("||"))
        want = sorted(f"{mpass.group('O')} == OpCode::{n} as u8" for n in skip)
        if conds != want:
            raise ExtractError(f"verifier: the instruction-start pass widens {conds}, the scan skips after {skip}")
        starts_pass = re.search(r"control::verify\([^;]*&%s\)\?" % re.escape(mpass.group("S")), t) is not None
    mh = re.search(r"fn verify_jump\(([^)]*)\) -> Result<\(\), String> \{ check_jump\(([^)]*)\) \}", t)
    if not mh:
        raise ExtractError("verifier/bytecode/mod.rs: verify_jump helper not found")
    hparams = [q.split(":")[0].strip() for q in mh.group(1).split(",") if q.strip()]
    hargs = [q.strip() for q in mh.group(2).split(",") if q.strip()]
    if hparams != hargs:
        raise ExtractError("verifier/bytecode/mod.rs: verify_jump no longer passes its arguments straight to check_jump")
    mc = re.search(r"fn check_jump\(([^)]*)\) -> Result<\(\), String> \{", checks)
    if not mc:
        raise ExtractError("verifier/checks.rs: check_jump not found")
    bools = [q.split(":")[0].strip() for q in mc.group(1).split(",") if "&[bool]" in q]
    check_new = False
    if bools:
        b = re.escape(bools[0])
        check_new = re.search(r"if !%s\.get\(target as usize\)\.copied\(\)\.unwrap_or\(false\) \{ return Err\(|if !%s\[target as usize\] \{ return Err\(" % (b, b), checks) is not None
    helper_new = len(hparams) == 5
    if starts_pass and helper_new and check_new:
        jump_grid = True
    elif not mpass and not bools and len(hparams) == 4:
        jump_grid = False
    else:
        raise ExtractError("verifier: jump-target check shape not recognised (instruction-start table, verify_jump helper and check_jump must agree)")
    checks = inline_bool_helpers(checks)
    shapes = {
        "check_reg": "if reg >= num_regs { return Err(",
        "check_reg_range": "if count == 0 { return Ok(()); } let last = base .checked_add(count - 1)",
        "check_reg_range2": "if last >= num_regs { return Err(format!( \"{} uses registers",
        "check_const_index": "if idx >= constants_len { return Err(",
        "check_upval_index": "if idx >= upvalues_len { return Err(",
        "check_call_args": "if nargs == 0 { return Ok(()); } let last = start_reg .checked_add(nargs)",
        "check_call_args2": "if last >= num_regs { return Err(format!( \"{} uses args through",
        "check_jump": "let next_ip = ip .checked_add(1)",
        "check_jump2": "let target = (next_ip as isize) .checked_add(offset as isize)",
        "check_jump3": "if target < 0 || target as usize > bc_len { return Err(",
    }
    del WARNINGS[:]
    for k, frag in shapes.items():
        if frag not in checks and frag.replace("(", "").replace(")", "") not in checks.replace("(", "").replace(")", ""):
            # the comparison semantics of checks.rs are tied by the verdict contract tie (boundary operands, jump to len / len+1);
            # an unrecognised spelling is reported, not fatal
            WARNINGS.append(f"verifier/checks.rs: {k}: spelling {frag!r} not found (covered by the verdict tie only)")
    consts = " ".join(strip_comments(rd(base + "constants.rs")).split())
    for frag in ["if let Some(func_idx) = value.as_nested_fn_marker() { if func_idx >= func.nested_functions.len() { return Err(",
                 "if let Some(ptr) = value.as_ptr() && heap.get(GcRef::new(ptr)).is_none() { return Err("]:
        if frag not in consts:
            raise ExtractError(f"verifier/constants.rs: expected fragment {frag!r} is gone")
    table = {}  # opcode name -> (checks, adv3)
    order = []
    for cat, _args, inc in cats:
        text = strip_comments(rd(base + f"bytecode/{cat}.rs"))
        m = re.search(r"match opcode \{(.*)\n    \}\s*Ok\(true\)\s*\}\s*$", text, flags=re.S)
        if not m:
            raise ExtractError(f"verifier/bytecode/{cat}.rs: `match opcode {{ .. }} Ok(true)` not found")
        arms = split_arms(m.group(1), f"verifier/bytecode/{cat}.rs")
        if not arms or arms[-1] != ("_", None):
            raise ExtractError(f"verifier/bytecode/{cat}.rs: last arm is not `_ => return Ok(false)`")
        for pat, block in arms[:-1]:
            if block is None:
                raise ExtractError(f"verifier/bytecode/{cat}.rs: arm {pat!r} returns Ok(false)")
            names = re.findall(r"OpCode::([A-Za-z0-9]+)", pat)
            if not names or re.sub(r"OpCode::[A-Za-z0-9]+|\||\s", "", pat):
                raise ExtractError(f"verifier/bytecode/{cat}.rs: unrecognised pattern {pat!r}")
            cks = parse_checks(block, f"verifier/bytecode/{cat}.rs [{names[0]}]")
            for n in names:
                if n not in table:      # first category that handles the opcode wins
                    table[n] = (cks, inc != "1" and n in skip)
                    order.append(n)
    return table, order, skip, max_nesting, jump_grid


@extract.register("VerifierTable")
def gen_verifier_table():
    ops, _ranges, _ = parse_opcodes()
    names = dict(ops)
    table, order, skip, max_nesting, jump_grid = parse_verifier()
    for n in table:
        if n not in names:
            raise ExtractError(f"verifier handles {n}, which is not an OpCode variant")
    for n in skip:
        if n not in names:
            raise ExtractError(f"verifier skip set names {n}, which is not an OpCode variant")
    out = [HEADER.format(src="runtime/src/vm/verifier/**"),
           "From Coq Require Import NArith List.\nImport ListNotations.\nLocal Open Scope N_scope.\n",
           "(* operand checks the verifier performs for one instruction word *)\n"
           "Inductive chk := CRegA | CRegB | CRegC | CConstB | CConstImm | CUpvalA | CUpvalB | CJump\n"
           "  | CRangeA (n : N) | CRangeBC | CCallArgsA | CCallArgsB | CCacheWords | CMakeClosure.\n",
           f"Definition MAX_FUNCTION_NESTING : N := {max_nesting}.\n",
           "(* instruction word fields as the verifier decodes them: opcode = word >> op_shift, a = (word >> a_shift) & 0xFF, b = (word >> b_shift) & 0xFF,\n"
           "   c = word & 0xFF, imm = (word & 0xFFFF) as i16 *)\n"
           f"Definition op_shift : N := {VERIFIER_DECODE[0]}.\nDefinition a_shift : N := {VERIFIER_DECODE[1]}.\nDefinition b_shift : N := {VERIFIER_DECODE[3]}.\n",
           "(* check_jump also requires the target to be an instruction start of the linear layout (or the end of the stream) *)\n"
           f"Definition jump_grid_checked : bool := {'true' if jump_grid else 'false'}.\n",
           "(* opcodes after which the linear scan skips two cache words *)\n"
           "Definition skip_opcodes : list N := [" + "; ".join(str(names[n]) for n in skip) + "].\n",
           "(* opcode byte -> (checks, words the scan advances); a byte without entry is `unhandled opcode` *)\n"
           "Definition vtable : list (N * (list chk * N)) := [\n  " +
           ";\n  ".join(f"({names[n]}, ([{'; '.join(table[n][0])}], {3 if table[n][1] else 1}))" for n in sorted(table, key=lambda x: names[x])) + "].\n",
           "(* declared opcodes no category handles *)\n"
           "Definition unhandled_opcodes : list N := [" + "; ".join(str(v) for n, v in ops if n not in table) + "].\n"]
    return write_if_changed("VerifierTable.v", "".join(out))


# ------------------------------------------------------------------------------------ dispatch sites
def inc_arm(text, opcode, where):
    """text of the `NN => { ... }` arm of a `match opcode_byte` in an .inc file."""
    m = None
    for mm in re.finditer(r"\n    ([0-9]+(?: \| [0-9]+)*) => \{", text):
        if str(opcode) in mm.group(1).split(" | "):
            m = mm
            break
    if not m:
        raise ExtractError(f"{where}: arm for opcode {opcode} not found")
    i = m.end() - 1
    depth, e = 0, i
    while e < len(text):
        if text[e] == "{":
            depth += 1
        elif text[e] == "}":
            depth -= 1
            if depth == 0:
                break
        e += 1
    return text[i:e + 1]


def parse_dispatch():
    d = "runtime/src/vm/dispatch/"
    run = " ".join(strip_comments(rd(d + "run.rs")).split())
    run = re.sub(r"#\[cfg\(vbxq_aelys_lang_verif\)\]", "", run)
    # 1. fetch guard directly at loop top, before the fetch
    m = re.search(r"loop \{ (.*?)let instr = unsafe \{ \*bytecode_ptr\.add\(ip\) \}; ip \+= 1;", run)
    if not m:
        raise ExtractError("run.rs: `loop { ... let instr = unsafe { *bytecode_ptr.add(ip) }; ip += 1;` not found")
    # Structural: between the loop top and the fetch there is, at the top level of the loop body, a block
    # `if ip >= bytecode_len { ... }` (spelled either way round) whose last statement is `continue;` or a `return`, so it never
    # falls through to the fetch; after it and before the fetch neither `ip` nor `bytecode_len` is assigned.  Bookkeeping
    # statements before the guard, inside it, or between it and the fetch (budget tick, site hooks) are free.
    g = m.group(1)
    fetch_guarded = False
    depth, i = 0, 0
    while i < len(g):
        if depth == 0:
            mg = re.match(r"if (?:ip >= bytecode_len|bytecode_len <= ip|!\(ip < bytecode_len\)) \{", g[i:])
            if mg:
                dd, e = 0, i + mg.end() - 1
                while e < len(g):
                    if g[e] == "{":
                        dd += 1
                    elif g[e] == "}":
                        dd -= 1
                        if dd == 0:
                            break
                    e += 1
                block, after = g[i + mg.end():e].rstrip(), g[e + 1:]
                diverges = re.search(r"(?:\bcontinue;|\breturn\b[^;{}]*;)$", block) is not None
                reassigned = re.search(r"(?<![.\w])(?:ip|bytecode_len) (?:[-+*]?=)(?!=)", after) is not None
                fetch_guarded = diverges and not reassigned
                break
        if g[i] == "{":
            depth += 1
        elif g[i] == "}":
            depth -= 1
        i += 1
    # 2. register macros: every raw register access of run.rs sits in a reg_* macro right behind check_reg!(idx)
    macro_bodies = re.findall(r"macro_rules! (reg_\w+) \{ \(\$idx:expr(?:, \$val:expr)?\) => \{\{ let idx = \$idx; check_reg!\(idx\); (.*?)\}\}; \}", run)
    in_macros = sum(b.count("regs_ptr.add(") for _, b in macro_bodies)
    reg_guarded = ("macro_rules! check_reg { ($idx:expr) => {{ let idx = $idx; if idx >= regs_len {" in run
                   and len(macro_bodies) >= 2 and in_macros == run.count("regs_ptr.add(") and in_macros == len(macro_bodies)
                   and all(re.search(r"regs_ptr\.add\(idx\)", b) for _, b in macro_bodies))
    if "let regs_len = self.registers.len();" not in run:
        raise ExtractError("run.rs: regs_len is no longer self.registers.len()")
    raw_reg_uses = 0
    files = {}
    opsdir = os.path.join(extract.REPO, d, "ops")
    try:
        listing = sorted(os.listdir(opsdir))
    except OSError as e:
        raise ExtractError(f"cannot list {d}ops: {e}")
    for fn in listing:
        if fn.endswith(".inc"):
            t = strip_comments(rd(d + "ops/" + fn))
            files[fn] = t
            raw_reg_uses += len(re.findall(r"regs_ptr\s*\.\s*(add|offset|sub)|registers\s*\.\s*get_unchecked", t))
    calls = files.get("calls.inc", "")
    sites = {}

    def norm(s):
        return " ".join(re.sub(r"#\[cfg\(vbxq_aelys_lang_verif\)\]\s*verif_site!\([^;]*\);", "", s).split())
    # 3. cache word reads of 77 / 78 / 104: offsets (relative to ip after the fetch increment) and guard
    for op, body in [(77, files.get("call_global.inc")), (78, files.get("call_global_mono.inc")), (104, inc_arm(calls, 104, "calls.inc"))]:
        if body is None:
            raise ExtractError(f"dispatch: source of opcode {op} not found")
        b = norm(body)
        reads = list(re.finditer(r"let cache_word_[12] = unsafe \{ \*bytecode_ptr\.add\(ip( \+ 1)?\) \};", b))
        if not reads:
            raise ExtractError(f"dispatch: opcode {op}: cache word reads not recognised")
        offs = [1 if r.group(1) else 0 for r in reads]
        pre = b[:reads[0].start()]
        guarded = re.search(r"if (?:ip \+ 1 >= bytecode_len|ip \+ 2 > bytecode_len|bytecode_len <= ip \+ 1|bytecode_len < ip \+ 2) \{ [^{}]*return Err\(", pre) is not None
        if "bytecode_len" in pre and not guarded:
            raise ExtractError(f"dispatch: opcode {op}: a bytecode_len test precedes the cache-word reads but is not `if ip + 1 >= bytecode_len {{ .. return Err(` (or an equivalent spelling)")
        writes = sorted(set(re.findall(r"\*mut_ptr\.add\((ip(?: [+-] [0-9]+)?)\) =", b)))
        oldrd = sorted(set(re.findall(r"= \*mut_ptr\.add\((ip(?: [+-] [0-9]+)?)\);", b)))
        adv = re.findall(r"ip \+= 2;", b)
        if len(adv) != 1:
            raise ExtractError(f"dispatch: opcode {op}: expected exactly one `ip += 2`")
        after_skip = b.find("ip += 2;") < b.find("mut_ptr") if "mut_ptr" in b else True
        sites[op] = dict(read_offs=offs, read_guarded=guarded, writes=writes, oldrd=oldrd, writes_after_skip=after_skip,
                         patch_guard_ip3=("if ip < 3 {" in b))
    # 4. constant sites
    cs = {}
    for op, fn in [(2, "load_store.inc"), (24, "globals.inc"), (25, "globals.inc"), (35, "closures.inc")]:
        b = norm(inc_arm(files.get(fn, ""), op, fn))
        accs = re.findall(r"unsafe \{ \*constants_ptr\.add\(([^)]*)\) \}", b)
        if len(accs) != 1:
            raise ExtractError(f"{fn}: opcode {op}: expected one raw constant access, found {len(accs)}")
        expr = accs[0]
        var = re.sub(r" as usize$", "", expr)
        if not re.fullmatch(r"\w+", var):
            raise ExtractError(f"{fn}: opcode {op}: constant index expression {expr!r} not recognised")
        kind = None
        if re.search(r"let %s = imm as u16 as usize;" % var, b) and re.search(r"let \(\w+, imm\) = decode_aimm\(instr\);", b):
            kind = "imm"
        else:
            m5 = re.search(r"let \((\w+), (\w+), (\w+)\) = decode_abc\(instr\);", b)
            if m5 and (var == m5.group(2) or re.search(r"let %s = %s as usize;" % (var, m5.group(2)), b)):
                kind = "b"
        if kind is None:
            raise ExtractError(f"{fn}: opcode {op}: cannot tell which operand indexes the constant table")
        pre = b[:b.find("*constants_ptr.add(")]
        g = re.search(r"if \(?%s\)? >= constants_len \{" % re.escape(expr if expr != var else var), pre) or re.search(r"if \(?%s(?: as usize)?\)? >= constants_len \{" % var, pre)
        guarded = bool(g) and "return Err(" in pre[g.start():]
        cs[op] = (kind, guarded)
    all_const = sum(t.count("constants_ptr.add(") for t in files.values())
    if all_const != 4:
        raise ExtractError(f"dispatch: expected 4 raw constant accesses, found {all_const}")
    # 5. upvalue sites
    us = {}
    for op, fn, var, body in [(36, "closures.inc", "upval_idx", None), (37, "closures.inc", "upval_idx", None),
                              (80, "call_upval.inc", "upval_idx as usize", files.get("call_upval.inc")),
                              (81, "tail_call_upval.inc", "upval_idx as usize", files.get("tail_call_upval.inc"))]:
        b = norm(body if body is not None else inc_arm(files.get(fn, ""), op, fn))
        acc = f"unsafe {{ *upvalues_ptr.add({var}) }}"
        if b.count(acc) != 1:
            raise ExtractError(f"{fn}: opcode {op}: upvalue access shape changed")
        pre = b[:b.find(acc)]
        if op in (36, 37):
            guarded = "if upval_idx >= upvalues_len {" in pre
            which = "b" if "let upval_idx = b as usize;" in b else ("a" if "let upval_idx = a as usize;" in b else None)
        else:
            guarded = "if upvalues_len == 0 || (upval_idx as usize) >= upvalues_len {" in pre
            which = "b" if "let (dest_tmp, upval_idx_tmp, nargs_tmp) = decode_abc(instr);" in b else None
        if which is None:
            raise ExtractError(f"{fn}: opcode {op}: upvalue index operand not recognised")
        us[op] = (which, guarded)
    b35 = norm(inc_arm(files["closures.inc"], 35, "closures.inc"))
    acc = "unsafe { *upvalues_ptr.add(desc.index as usize) }"
    if b35.count(acc) != 1:
        raise ExtractError("closures.inc: MakeClosure parent upvalue access shape changed")
    us[35] = ("desc", "if (desc.index as usize) >= upvalues_len {" in b35[:b35.find(acc)])
    all_up = sum(t.count("upvalues_ptr.add(") for t in files.values())
    if all_up != 5:
        raise ExtractError(f"dispatch: expected 5 raw upvalue accesses, found {all_up}")
    # 6. call-site cache
    b78 = norm(files["call_global_mono.inc"])
    acc = "unsafe { *self.call_site_cache.get_unchecked(slot_tmp) }"
    if b78.count(acc) != 1:
        raise ExtractError("call_global_mono.inc: call_site_cache access shape changed")
    callsite_guarded = "slot_tmp < self.call_site_cache.len()" in b78[:b78.find(acc)]
    if sum(t.count("get_unchecked") for t in files.values()) != 1:
        raise ExtractError("dispatch: expected exactly one get_unchecked")
    # 7. which frame switches refresh the loop's constants_len together with constants_ptr
    upd = []
    srcs = [(21, "calls.inc", norm(inc_arm(calls, 21, "calls.inc"))), (77, "call_global.inc", norm(files["call_global.inc"])),
            (78, "call_global_mono.inc", b78), (79, "call_cached.inc", norm(files.get("call_cached.inc", ""))),
            (80, "call_upval.inc", norm(files.get("call_upval.inc", ""))), (81, "tail_call_upval.inc", norm(files.get("tail_call_upval.inc", "")))]
    for op, fn, b in srcs:
        # a frame switch is a run of assignments to the loop locals ending with `global_mapping_id = ..;`
        for m in re.finditer(r"((?:(?<![.\w])\w+ = [^;{}]+; ?(?://[^\n]*)?)+)", b):
            run = m.group(1)
            if not re.search(r"(?<![.\w])constants_ptr = ", run) or "bytecode_ptr = " not in run:
                continue
            kind = 0 if "upvalues_ptr = std::ptr::null();" in run else 1     # 0 = plain function, 1 = closure
            refreshed = re.search(r"(?<![.\w])constants_len = ", run) is not None
            if op == 81:    # the tail call rewrites the current frame in place: its own constants_len must follow too
                refreshed = refreshed and b.count("frame.constants_len = ") == b.count("frame.constants_ptr = ") > 0
            upd.append((op, kind, refreshed))
    ret = norm(inc_arm(calls, 22, "calls.inc")) + norm(inc_arm(calls, 23, "calls.inc"))
    ret_ok = ret.count("constants_ptr = caller_const_ptr; constants_len = caller_const_len;") == 2
    return dict(fetch_guarded=fetch_guarded, reg_guarded=reg_guarded and raw_reg_uses == 0, sites=sites, cs=cs, us=us,
                callsite_guarded=callsite_guarded, upd=upd, ret_ok=ret_ok)


# ------------------------------------------------------------------------------------ raw-access census
RAW_DEREF = re.compile(r"\*\s*(?:&\s*)?([A-Za-z_][A-Za-z0-9_]*)\s*\.\s*(add|offset|sub)\s*\(")
RAW_UNCHECKED = re.compile(r"([A-Za-z_][A-Za-z0-9_.]*)\s*\.\s*get_unchecked(?:_mut)?\s*\(")
RAW_OTHER = re.compile(r"\b(from_raw_parts(?:_mut)?|transmute|read_unaligned|write_unaligned|copy_nonoverlapping|copy\s*\(|set_len|"
                       r"read_volatile|write_volatile|as_int_unchecked_raw|unreachable_unchecked|assume_init|from_raw)\b")
PTR_KIND = {"bytecode_ptr": "bc", "mut_ptr": "bc", "constants_ptr": "const", "upvalues_ptr": "upval", "regs_ptr": "reg"}
SITE_CLASS = {"FETCH": "bc", "CACHE_RD": "bc", "PATCH_WR": "bc", "PATCH_RD": "bc", "CONST": "const", "UPVAL": "upval",
              "CALLSITE": "callsite", "REG_RD": "reg", "REG_WR": "reg"}
SITE_ID = {"FETCH": 1, "CACHE_RD": 2, "PATCH_WR": 3, "PATCH_RD": 4, "CONST": 5, "UPVAL": 6, "REG_RD": 7, "REG_WR": 8, "CALLSITE": 9}


def balanced_arg(text, i):
    """text[i] is just after '(' : returns the argument text up to the matching ')'."""
    depth, j = 1, i
    while j < len(text) and depth:
        if text[j] == "(":
            depth += 1
        elif text[j] == ")":
            depth -= 1
        j += 1
    return " ".join(text[i:j - 1].split())


def raw_accesses(text):
    """[(position, class, index expression)] of raw pointer dereferences / unchecked indexing in Rust text (comments stripped)."""
    out = []
    for m in RAW_DEREF.finditer(text):
        out.append((m.start(), PTR_KIND.get(m.group(1), "ptr:" + m.group(1)), balanced_arg(text, m.end())))
    for m in RAW_UNCHECKED.finditer(text):
        out.append((m.start(), "callsite" if m.group(1).endswith("call_site_cache") else "vec:" + m.group(1), balanced_arg(text, m.end())))
    return sorted(out)


def hook_sites(text):
    """[(position, site name, index expression)] of verif_site!(crate::verif_sites::KIND, IDX, LEN) hook calls."""
    out = []
    for m in re.finditer(r"verif_site!\(\s*crate::verif_sites::([A-Z_]+)\s*,", text):
        rest = balanced_arg(text, text.find("(", m.start()) + 1)
        parts = [x.strip() for x in re.split(r",(?![^()]*\))", rest)]
        if len(parts) != 3:
            raise ExtractError(f"hook call with {len(parts)} arguments: {rest!r}")
        out.append((m.start(), m.group(1), " ".join(parts[1].split())))
    return out


def census_of(text, where, window=900):
    """Every raw access must have a site hook of the same buffer class and index expression shortly before it."""
    t = strip_comments(text)
    m = RAW_OTHER.search(t)
    if m:
        raise ExtractError(f"{where}: raw operation `{m.group(1)}` in the dispatch loop has no footprint site")
    hooks = hook_sites(t)
    used = set()
    res = []
    for pos, cls, idx in raw_accesses(t):
        if cls not in ("bc", "const", "upval", "callsite"):
            raise ExtractError(f"{where}: raw access through `{cls}` (index {idx}) is outside the footprint model")
        cand = [(hp, name) for (hp, name, hidx) in hooks
                if hp < pos and pos - hp < window and SITE_CLASS.get(name) == cls and hidx == idx and (hp, name) not in used]
        # a patched word is read (PATCH_RD) or written (PATCH_WR): decide by the text after the access
        after = t[pos:pos + 200]
        is_write = re.match(r"\*\s*[A-Za-z_]+\.add\([^;]*?\)\s*=[^=]", after) is not None
        if cls == "bc":
            cand = [c for c in cand if (c[1] == "PATCH_WR") == is_write]
        if not cand:
            raise ExtractError(f"{where}: raw access `{cls}[{idx}]` ({'write' if is_write else 'read'}) has no site hook / footprint entry")
        used.add(cand[-1])
        res.append((cand[-1][1], idx))
    unused = [(name, hidx) for (hp, name, hidx) in hooks if (hp, name) not in used]
    if unused:
        raise ExtractError(f"{where}: site hooks without a raw access after them: {unused[:3]}")
    return res


def parse_census():
    """(opcode, site id, number of distinct index expressions) for every dispatch arm; jump and skip opcodes of the loop."""
    d = "runtime/src/vm/dispatch/"
    opsdir = os.path.join(extract.REPO, d, "ops")
    fixed = {"call_global.inc": 77, "call_global_mono.inc": 78, "call_cached.inc": 79, "call_upval.inc": 80, "tail_call_upval.inc": 81}
    census, jumps, skips, redo = {}, set(), set(), set()
    arms_seen = {}
    for fn in sorted(os.listdir(opsdir)):
        if not fn.endswith(".inc"):
            continue
        text = rd(d + "ops/" + fn)
        if fn in fixed:
            arms = [(fixed[fn], text)]
        else:
            t = text
            arms = []
            for m in re.finditer(r"\n    ([0-9]+(?: \| [0-9]+)*) => \{", t):
                opsl = [int(x) for x in m.group(1).split(" | ")]
                body = inc_arm(t, opsl[0], fn)
                if "include!(" in body:
                    continue        # the arm's code lives in its own file (call_global.inc, ...), handled there
                for k, op in enumerate(opsl):
                    arms.append((op, body if k == 0 else body + " "))
            first_of = {}
            whole = census_of(re.sub(r'include!\("[a-z_]+\.inc"\);', "", text), fn)
            if sum(len(census_of(b, f"{fn}[{o}]")) for o, b in arms if not b.endswith(" ")) != len(whole):
                raise ExtractError(f"{fn}: raw accesses outside the opcode arms")
        for op, body in arms:
            if op in arms_seen:
                raise ExtractError(f"dispatch: opcode {op} has arms in {arms_seen[op]} and {fn}")
            arms_seen[op] = fn
            for name, idx in census_of(body, f"{fn}[{op}]"):
                census.setdefault((op, SITE_ID[name]), set()).add(idx)
            b = " ".join(strip_comments(body).split())
            for mt in re.finditer(r"let (\w+) = \(ip as isize \+ imm as isize\) as usize;", b):     # jump through a named target
                b = re.sub(r"\bip = %s;" % mt.group(1), "ip = (ip as isize + imm as isize) as usize;", b)
            if re.search(r"ip = \(ip as isize \+ imm as isize\) as usize;", b):
                jumps.add(op)
            if re.search(r"\bip = [^;]*;", re.sub(r"\bip = (\(ip as isize \+ imm as isize\) as usize|0|caller_ip);", "", re.sub(r"\.ip = [^;]*;", "", b))):
                raise ExtractError(f"{fn}[{op}]: the loop's ip is assigned in a way the control-flow model does not know")
            if "ip += 2;" in b:
                skips.add(op)
            if re.search(r"\bip -= 1; continue;", b):
                redo.add(op)
            if re.search(r"\bip (\+|-)= ", re.sub(r"\bip \+= 2;|\bip -= 1; continue;", "", b)):
                raise ExtractError(f"{fn}[{op}]: ip is advanced in a way the control-flow model does not know")
    run = strip_comments(rd(d + "run.rs"))
    nmacros = len(re.findall(r"macro_rules! reg_\w+", run))
    if len(raw_accesses(run)) != 1 + nmacros or nmacros < 2:
        raise ExtractError(f"run.rs: expected the fetch plus one raw access per register macro ({nmacros}), found {len(raw_accesses(run))}")
    m = RAW_OTHER.search(run)
    if m:
        raise ExtractError(f"run.rs: raw operation `{m.group(1)}` has no footprint site")
    # unsafe census of the whole VM: anything new must be looked at
    expected = {"native.rs": 2, "manual_heap/access.rs": 4, "core.rs": 2, "globals/layout.rs": 1}
    vmdir = os.path.join(extract.REPO, "runtime/src/vm")
    for root, _, files in os.walk(vmdir):
        for f in files:
            rel = os.path.relpath(os.path.join(root, f), vmdir)
            if not f.endswith(".rs") or rel.startswith("dispatch"):
                continue
            n = len(re.findall(r"\bunsafe\b", strip_comments(rd("runtime/src/vm/" + rel))))
            if n != expected.get(rel, 0):
                raise ExtractError(f"runtime/src/vm/{rel}: {n} `unsafe` (expected {expected.get(rel, 0)}): unsafe code outside the dispatch loop "
                                   "is not covered by the C04 footprint; review it and update tools/extractors/c04.py")
    return census, sorted(jumps), sorted(skips), arms_seen, sorted(redo)


# ------------------------------------------------------------------------------------ call-site cache protocol
def parse_cache_protocol():
    """Where the VM writes its global tables and the call-site cache (runtime/src/vm, outside the dispatch arms):
    every write of a NEW value must sit in a function that clears call_site_cache; everything else only copies."""
    vmdir = os.path.join(extract.REPO, "runtime/src/vm")
    writes = []
    for root, _, files in os.walk(vmdir):
        for f in sorted(files):
            rel = os.path.relpath(os.path.join(root, f), vmdir)
            if not (f.endswith(".rs") or f.endswith(".inc")):
                continue
            t = re.sub(r"\s+\.", ".", " ".join(strip_comments(rd("runtime/src/vm/" + rel)).split()))
            for m in re.finditer(r"self\.globals_by_index\[[^\]]+\] = ([^;]+);|self\.globals\.insert\(([^;]+)\);|"
                                 r"self\.(call_site_cache)\.clear\(\)|self\.(globals_by_index_cache)\.(clear|insert)\(([^;]*)\);|"
                                 r"std::ptr::copy_nonoverlapping\( (cached)\.as_ptr\(\), self\.globals_by_index\.as_mut_ptr\(\)", t):
                writes.append((rel, m.group(0)))
    kinds = []
    for rel, w in writes:
        if w.startswith("self.call_site_cache.clear"):
            kinds.append((rel, "flush"))
        elif re.fullmatch(r"self\.globals_by_index\[idx\] = value;", w) or re.fullmatch(r"self\.globals\.insert\(name, value\);", w):
            kinds.append((rel, "store"))
        elif re.fullmatch(r"self\.globals_by_index\[idx\] = self\.globals\.get\(name\)\.copied\(\)\.unwrap_or\(Value::null\(\)\);", w) \
                or re.fullmatch(r"self\.globals_by_index\[idx\] = Value::null\(\);", w) \
                or re.fullmatch(r"self\.globals\.insert\(name\.clone\(\), value\);", w) or w.startswith("std::ptr::copy_nonoverlapping"):
            kinds.append((rel, "copy"))
        elif w.startswith("self.globals_by_index_cache.insert"):
            kinds.append((rel, "snapshot"))
        elif w.startswith("self.globals_by_index_cache.clear"):
            kinds.append((rel, "snapshot-clear"))
        else:
            raise ExtractError(f"runtime/src/vm/{rel}: unrecognised write to the global tables: {w!r}")
    # `value` inserted by the copy sites must come from the other table
    sync = " ".join(strip_comments(rd("runtime/src/vm/globals/sync.rs")).split())
    if sync.count("let value = self.globals_by_index[idx]; self.globals.insert(name.clone(), value);") != sync.count("self.globals.insert("):
        raise ExtractError("globals/sync.rs: a by-name insert no longer copies from globals_by_index")
    # every function of runtime/src/vm that writes a NEW value (a `value` parameter) into either view of the globals must
    # clear call_site_cache, itself or through helpers it calls (followed transitively)
    fn_bodies = {}
    store_fns = []
    for root, _, files in os.walk(vmdir):
        for f in sorted(files):
            rel = os.path.relpath(os.path.join(root, f), vmdir)
            if not f.endswith(".rs"):
                continue
            t = re.sub(r"\s+\.", ".", " ".join(strip_comments(rd("runtime/src/vm/" + rel)).split()))
            for m in re.finditer(r"\bfn (\w+)\s*(?:<[^>]*>)?\(([^)]*)\)[^{;]*\{", t):
                depth, e = 0, m.end() - 1
                while e < len(t):
                    if t[e] == "{":
                        depth += 1
                    elif t[e] == "}":
                        depth -= 1
                        if depth == 0:
                            break
                    e += 1
                body = t[m.end():e]
                fn_bodies.setdefault(m.group(1), []).append(body)
                if re.search(r"self\.globals_by_index\[[^\]]+\] = value;|self\.globals\.insert\(name, value\);", body) and "value: Value" in m.group(2):
                    store_fns.append((rel, m.group(1), body))

    def top_level(body):
        """the statements of a function body that are not nested in any block: text with every `{...}` group removed"""
        out, depth = [], 0
        for ch in body:
            if ch == "{":
                depth += 1
            elif ch == "}":
                depth -= 1
            elif depth == 0:
                out.append(ch)
        return "".join(out)

    def clears(body, seen, depth=0):
        """the function clears call_site_cache UNCONDITIONALLY: a top-level statement (not inside an if / match / loop block,
        no `return` or `?` before it) that is the clear itself or a call of a helper that clears unconditionally"""
        top = top_level(body)
        for m in re.finditer(r"self\.call_site_cache\.clear\(\);|self\.(\w+)\([^;]*\);", top):
            before = top[:m.start()]
            if re.search(r"\breturn\b|\?;|\?\)", before):
                break
            if m.group(0).startswith("self.call_site_cache.clear"):
                return True
            h = m.group(1)
            if depth < 4 and h not in seen and h in fn_bodies and any(clears(b, seen | {h}, depth + 1) for b in fn_bodies[h]):
                return True
        return False
    stores = [k for k in kinds if k[1] == "store"]
    in_store_fns = sum(len(re.findall(r"self\.globals_by_index\[[^\]]+\] = value;|self\.globals\.insert\(name, value\);", b)) for _, _, b in store_fns)
    # dispatch arms store through set_global / set_global_by_index only (their own writes would be classified above as well)
    stores_flush = bool(store_fns) and all(clears(b, {n}) for _, n, b in store_fns) and in_store_fns == len(stores)
    stores_only_in_access = True
    gc = " ".join(strip_comments(rd("runtime/src/vm/gc.rs")).split())
    gc_roots = ("for value in self.globals.values() {" in gc and "for value in &self.globals_by_index {" in gc
                and gc.find("self.heap.sweep();") < gc.find("self.globals_by_index_cache.clear();") and "self.globals_by_index_cache.clear();" in gc)
    mono = " ".join(strip_comments(rd("runtime/src/vm/dispatch/ops/call_global_mono.inc")).split())
    hit_guard = ("if !cached.bytecode_ptr.is_null() && cached.owner == cached_func_ptr && idx < self.globals_by_index.len() "
                 "&& self.globals_by_index[idx].as_ptr() == Some(cached_func_ptr)") in mono
    fills = []
    for fn in ("call_global.inc", "call_global_mono.inc"):
        t = " ".join(strip_comments(rd("runtime/src/vm/dispatch/ops/" + fn)).split())
        # every struct literal of the entry type: fields in any order, shorthand allowed; bound to a local first or stored directly
        lits = {}
        for m in re.finditer(r"(?:let (\w+) = |self\.call_site_cache\[(\w+)\] = )crate::vm::CallSiteCacheEntry \{([^{}]*)\};", t):
            fields = {}
            for part in [x.strip() for x in m.group(3).split(",") if x.strip()]:
                k, _, v = part.partition(":")
                fields[k.strip()] = (v.strip() or k.strip())
            ok = (fields.get("bytecode_ptr") == "bc_ptr" and fields.get("constants_ptr") == "const_ptr"
                  and fields.get("bytecode_len") == "bc_len as u32" and fields.get("constants_len") == "const_len as u16"
                  and fields.get("owner") in ("current_func_ptr", "new_func_ptr"))
            if m.group(1):
                lits[m.group(1)] = ok
            else:
                fills.append(ok)
        # the locals the entry is built from are the callee's own buffers
        for loc, srcs in [("bc_ptr", ("bc.as_ptr()", "closure.bytecode_ptr")), ("const_ptr", ("consts.as_ptr()", "closure.constants_ptr")),
                          ("bc_len", ("bc.len()", "closure.bytecode_len")), ("const_len", ("consts.len()", "closure.constants_len"))]:
            for dm in re.finditer(r"let %s = ([^;]+);" % loc, t):
                if dm.group(1).strip() not in srcs:
                    fills.append(False)
        for m in re.finditer(r"self\.call_site_cache\[(\w+)\] = ([^;{]+);", t):
            v = m.group(2).strip()
            if v in lits:
                fills.append(lits[v])
            else:
                raise ExtractError(f"{fn}: call_site_cache is written in an unrecognised way ({v[:60]!r})")
        if re.search(r"self\.call_site_cache\.(push|insert|swap|extend|truncate|set_len|as_mut_ptr|iter_mut|get_mut|fill)\b", t):
            raise ExtractError(f"{fn}: call_site_cache is modified through a method the protocol model does not know")
    return dict(kinds=kinds, stores_flush=stores_flush and stores_only_in_access, gc_roots=gc_roots, hit_guard=hit_guard,
                fills_ok=all(fills) and len(fills) == 4, nfills=len(fills))


@extract.register("DispatchSites")
def gen_dispatch_sites():
    p = parse_dispatch()
    B = lambda x: "true" if x else "false"

    def off(e):      # "ip - 2" -> Z offset relative to ip after the fetch increment
        m = re.fullmatch(r"ip(?: ([+-]) ([0-9]+))?", e)
        v = 0 if not m.group(1) else int(m.group(2)) * (1 if m.group(1) == "+" else -1)
        return v
    out = [HEADER.format(src="runtime/src/vm/dispatch/run.rs, ops/*.inc"),
           "From Coq Require Import NArith ZArith List.\nImport ListNotations.\nLocal Open Scope N_scope.\n",
           f"(* `if ip >= bytecode_len` precedes the instruction fetch *)\nDefinition fetch_guarded : bool := {B(p['fetch_guarded'])}.\n",
           f"(* every raw register access is inside reg_get!/reg_ref!/reg_set! behind check_reg! (idx < registers.len()) *)\nDefinition reg_guarded : bool := {B(p['reg_guarded'])}.\n",
           f"(* call_site_cache.get_unchecked(slot) sits behind slot < call_site_cache.len() *)\nDefinition callsite_guarded : bool := {B(p['callsite_guarded'])}.\n",
           "(* opcode -> (offsets of the inline cache-word reads relative to the instruction index + 1, reads preceded by a bytecode_len guard) *)\n"
           "Definition cache_reads : list (N * (list N * bool)) := [" +
           "; ".join(f"({op}, ([{'; '.join(str(o) for o in s['read_offs'])}], {B(s['read_guarded'])}))" for op, s in sorted(p['sites'].items())) + "].\n",
           "(* opcode -> offsets (relative to the instruction index) of the words patched in place; for 77/78 the patch runs after ip += 2 *)\n"
           "Definition patch_writes : list (N * list N) := [" +
           "; ".join(f"({op}, [{'; '.join(str(off(w) + (3 if s['writes_after_skip'] and op != 104 else 1)) for w in s['writes'])}])" for op, s in sorted(p['sites'].items())) + "].\n",
           "(* opcode -> (constant index operand: true = imm16, false = byte b ; `>= constants_len` guard present) *)\n"
           "Definition const_sites : list (N * (bool * bool)) := [" +
           "; ".join(f"({op}, ({B(k == 'imm')}, {B(g)}))" for op, (k, g) in sorted(p['cs'].items())) + "].\n",
           "(* opcode -> (upvalue index operand: 0 = a, 1 = b, 2 = descriptor index ; `>= upvalues_len` guard present) *)\n"
           "Definition upval_sites : list (N * (N * bool)) := [" +
           "; ".join(f"({op}, ({ {'a': 0, 'b': 1, 'desc': 2}[k] }, {B(g)}))" for op, (k, g) in sorted(p['us'].items())) + "].\n",
           "(* frame switches: (opcode, 0 = plain function / 1 = closure path, loop-local constants_len refreshed with constants_ptr) *)\n"
           "Definition call_paths : list (N * N * bool) := [" +
           "; ".join(f"({op}, {k}, {B(u)})" for op, k, u in p['upd']) + "].\n",
           f"Definition return_restores_clen : bool := {B(p['ret_ok'])}.\n"]
    census, jumps, skips, _arms, redo = parse_census()
    out.append("(* raw-access census of the dispatch arms: (opcode, site id, number of distinct index expressions); every raw access in the\n"
               "   source has a site hook of the same buffer class and index expression right before it, and nothing else is raw *)\n"
               "Definition raw_census : list (N * N * N) := [" + "; ".join(f"({op}, {k}, {len(v)})" for (op, k), v in sorted(census.items())) + "].\n")
    out.append("(* opcodes whose arm assigns ip := ip + imm (all other arms leave ip alone, add 2, or switch frames) *)\n"
               "Definition dispatch_jump_ops : list N := [" + "; ".join(map(str, jumps)) + "].\n")
    out.append("(* opcodes whose arm skips two inline cache words (ip += 2) *)\n"
               "Definition dispatch_skip_ops : list N := [" + "; ".join(map(str, skips)) + "].\n")
    out.append("(* opcodes whose arm may rewrite its own word and dispatch it again (ip -= 1; continue) *)\n"
               "Definition dispatch_redo_ops : list N := [" + "; ".join(map(str, redo)) + "].\n")
    out.append("(* opcode -> offsets (relative to the instruction index) of the words read back while patching *)\n"
               "Definition patch_reads : list (N * list N) := [" +
               "; ".join(f"({op}, [{'; '.join(str(off(w) + (3 if s_['writes_after_skip'] and op != 104 else 1)) for w in s_['oldrd'])}])"
                         for op, s_ in sorted(p['sites'].items()) if s_['oldrd']) + "].\n")
    dec = " ".join(strip_comments(rd("runtime/src/vm/dispatch/decode.rs")).split())
    runt = " ".join(strip_comments(rd("runtime/src/vm/dispatch/run.rs")).split())
    m1 = re.search(r"fn decode_abc\(instr: u32\) -> \(u8, u8, u8\) \{ let a = \(\(instr >> ([0-9]+)\) & 0xFF\) as u8; let b = \(\(instr >> ([0-9]+)\) & 0xFF\) as u8; let c = \(instr & 0xFF\) as u8; \(a, b, c\) \}", dec)
    m2 = re.search(r"fn decode_aimm\(instr: u32\) -> \(u8, i16\) \{ let a = \(\(instr >> ([0-9]+)\) & 0xFF\) as u8; let imm = \(instr & 0xFFFF\) as i16; \(a, imm\) \}", dec)
    m3 = re.search(r"let opcode_byte = \(instr >> ([0-9]+)\) as u8;", runt)
    if not (m1 and m2 and m3) or m1.group(1) != m2.group(1):
        raise ExtractError("dispatch/decode.rs, run.rs: operand decoding of the loop not recognised")
    out.append("(* instruction word fields as the dispatch loop decodes them *)\n"
               f"Definition disp_op_shift : N := {m3.group(1)}.\nDefinition disp_a_shift : N := {m1.group(1)}.\nDefinition disp_b_shift : N := {m1.group(2)}.\n")
    buf = " ".join(strip_comments(rd("bytecode/src/bytecode/buffer.rs")).split())
    mptr = re.search(r"pub fn as_ptr\(&self\) -> \*const u32 \{ (.*?) \}", buf)
    if not mptr:
        raise ExtractError("bytecode/buffer.rs: as_ptr not found")
    body = mptr.group(1)
    mh = re.fullmatch(r"self\.(\w+)\(\) as \*const u32", body)
    if mh:
        mw = re.search(r"fn %s\(&self\) -> \*mut u32 \{ (.*?) \} (?://|#|pub|fn)" % mh.group(1), buf)
        body = mw.group(1) if mw else body
    # the pointer the loop patches through must not come from a `&[u32]` / `&Box` (read-only provenance) nor from a fresh `&mut`
    writable = ("&raw mut **self.0.get()" in body or "addr_of_mut!(**self.0.get())" in body) and "&*self.0.get()" not in body and "&mut *self.0.get()" not in body
    out.append("(* BytecodeBuffer::as_ptr hands out a pointer taken from the place of the boxed slice (may be written through, does not\n"
               "   invalidate earlier ones) rather than one derived from a shared or a fresh unique reference *)\n"
               f"Definition code_ptr_writable : bool := {B(writable)}.\n")
    cp = parse_cache_protocol()
    out.append("(* call-site cache protocol (runtime/src/vm/globals, gc.rs, call_global*.inc) *)\n"
               f"Definition stores_flush_cache : bool := {B(cp['stores_flush'])}.   (* the only writes of a new value to globals / globals_by_index are set_global and set_global_by_index, and both clear call_site_cache *)\n"
               f"Definition gc_roots_globals : bool := {B(cp['gc_roots'])}.   (* collect marks globals and globals_by_index and drops the layout snapshots after the sweep *)\n"
               f"Definition mono_hit_guard : bool := {B(cp['hit_guard'])}.   (* the fast path needs a non-null entry owned by the cached callee that the global still denotes *)\n"
               f"Definition cache_fills_from_callee : bool := {B(cp['fills_ok'])}.   (* all {cp['nfills']} fills store the callee's own code pointers, lengths and owner *)\n"
               "Definition global_table_writes : list (N * N) := [" +
               "; ".join(f"({ {'flush': 0, 'store': 1, 'copy': 2, 'snapshot': 3, 'snapshot-clear': 4}[k] }, 1)" for _, k in cp['kinds']) + "].\n")
    for op, s in p["sites"].items():
        if op in (77, 78) and not s["writes_after_skip"]:
            raise ExtractError(f"dispatch: opcode {op}: patch no longer runs after `ip += 2`")
    return write_if_changed("DispatchSites.v", "".join(out))
