"""C10 translator: limits and size constants of the heap-limit machinery -> coq/Extracted/HeapConsts.v

  runtime/src/vm/config.rs          MIN_HEAP_BYTES, DEFAULT_MAX_HEAP_BYTES
  runtime/src/stdlib/bytes.rs       MAX_ALLOC
  bytecode/src/heap/mod.rs          INITIAL_GC_THRESHOLD
  runtime/src/vm/alloc.rs           shape of ensure_heap_capacity (two checked_add, one comparison with max_heap_bytes)
                                    and that every alloc_* calls it before touching the heap
  layout sizes (size_of AelysArray / AelysVec / AelysString / Value) are measured by `hx_heaplimit sizes`
  (they are not written in the source text)
"""
import re
import extract
from extract import ExtractError, rd, strip_comments, write_if_changed, HEADER, consts_of


@extract.register("HeapConsts")
def gen_heap_consts():
    cfg = consts_of(rd("runtime/src/vm/config.rs"), ["DEFAULT_MAX_HEAP_BYTES", "MIN_HEAP_BYTES"])
    byt = consts_of(rd("runtime/src/stdlib/bytes.rs"), ["MAX_ALLOC"])
    hp = consts_of(rd("bytecode/src/heap/mod.rs"), ["INITIAL_GC_THRESHOLD"])
    al = strip_comments(rd("runtime/src/vm/alloc.rs"))
    m = re.search(r"fn ensure_heap_capacity\s*\(&self, additional: u64\)\s*->\s*Result<\(\), RuntimeError>\s*\{(.*?)\n    \}", al, flags=re.S)
    if not m:
        raise ExtractError("ensure_heap_capacity not found in runtime/src/vm/alloc.rs")
    body = " ".join(m.group(1).split())
    # lenient on purpose: the exact boundary behaviour is tied by the manual_alloc cases (limit-1 / limit / limit+1)
    if body.count("checked_add") != 2 or "max_heap_bytes" not in body or not re.search(r"if \w+ > [\w\.]+ \{", body):
        raise ExtractError("ensure_heap_capacity changed shape: " + body[:200])
    # every guarded allocator calls ensure_heap_capacity before the heap is touched
    for fn, touch in (("alloc_object", "self.heap.alloc("), ("alloc_string", "self.heap.alloc_string("), ("intern_string", "self.heap.intern_string("),
                      ("manual_alloc", ".alloc(size, line)"), ("merge_heap", "self.heap.merge("), ("alloc_array", "self.alloc_object("),
                      ("alloc_vec", "self.alloc_object(")):
        fm = re.search(r"pub fn %s\b.*?\n    \}" % fn, al, flags=re.S)
        if not fm:
            raise ExtractError(f"{fn} not found in alloc.rs")
        t = fm.group(0)
        pe, pt = t.find("self.ensure_heap_capacity("), t.find(touch)
        if pe < 0 or pt < 0 or pe > pt:
            raise ExtractError(f"{fn}: ensure_heap_capacity no longer precedes `{touch}`")
    import vlib
    ok, paths, log = vlib.harness_build(["hx_heaplimit"])
    if not ok:
        raise ExtractError("cannot build hx_heaplimit for the layout sizes: " + log[-300:])
    rc, out = vlib.sh([paths["hx_heaplimit"], "sizes"], timeout=60)
    sz = dict(re.findall(r"(\w+)=(\d+)", out))
    need = ["AelysArray", "AelysVec", "AelysString", "Value"]
    if rc != 0 or any(k not in sz for k in need):
        raise ExtractError("hx_heaplimit sizes failed: " + out[-200:])
    out = [HEADER.format(src="runtime/src/vm/config.rs, runtime/src/stdlib/bytes.rs, bytecode/src/heap/mod.rs, runtime/src/vm/alloc.rs (shape), "
                             "hx_heaplimit sizes (std::mem::size_of)"),
           "From Coq Require Import NArith.\n",
           f"Definition MIN_HEAP_BYTES : N := {cfg['MIN_HEAP_BYTES'][0]}%N.\n",
           f"Definition DEFAULT_MAX_HEAP_BYTES : N := {cfg['DEFAULT_MAX_HEAP_BYTES'][0]}%N.\n",
           f"Definition MAX_ALLOC : N := {byt['MAX_ALLOC'][0]}%N.\n",
           f"Definition INITIAL_GC_THRESHOLD : N := {hp['INITIAL_GC_THRESHOLD'][0]}%N.\n",
           f"Definition SZ_ARRAY : N := {sz['AelysArray']}%N.\n",
           f"Definition SZ_VEC : N := {sz['AelysVec']}%N.\n",
           f"Definition SZ_STRING : N := {sz['AelysString']}%N.\n",
           f"Definition SZ_VALUE : N := {sz['Value']}%N.\n"]
    return write_if_changed("HeapConsts.v", "".join(out))
