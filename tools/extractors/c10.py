"""C10 translator: limits and size constants of the heap-limit machinery -> coq/Extracted/HeapConsts.v

  runtime/src/vm/config.rs          MIN_HEAP_BYTES, DEFAULT_MAX_HEAP_BYTES
  runtime/src/stdlib/bytes.rs       MAX_ALLOC
  bytecode/src/heap/mod.rs          INITIAL_GC_THRESHOLD
  runtime/src/vm/alloc.rs           shape of ensure_heap_capacity (two checked_add, one comparison with max_heap_bytes)
                                    and that every alloc_* calls it before touching the heap
  layout sizes (size_of AelysArray / AelysVec / AelysString / Value) are measured by `hx_heaplimit sizes`
  (they are not written in the source text)
"""
import re
import extract
from extract import ExtractError, rd, strip_comments, write_if_changed, HEADER, consts_of


@extract.register("HeapConsts")
def gen_heap_consts():
    cfg = consts_of(rd("runtime/src/vm/config.rs"), ["DEFAULT_MAX_HEAP_BYTES", "MIN_HEAP_BYTES"])
    byt = consts_of(rd("runtime/src/stdlib/bytes.rs"), ["MAX_ALLOC"])
    hp = consts_of(rd("bytecode/src/heap/mod.rs"), ["INITIAL_GC_THRESHOLD"])
    al = strip_comments(rd("runtime/src/vm/alloc.rs"))
    m = re.search(r"fn ensure_heap_capacity\s*\(&self, additional: u64\)\s*->\s*Result<\(\), RuntimeError>\s*\{(.*?)\n    \}", al, flags=re.S)
    if not m:
        raise ExtractError("ensure_heap_capacity not found in runtime/src/vm/alloc.rs")
    body = " ".join(m.group(1).split())
    # lenient on purpose: the exact boundary behaviour is tied by the manual_alloc cases (limit-1 / limit / limit+1)
    if body.count("checked_add") != 2 or "max_heap_bytes" not in body or not re.search(r"if \w+ > [\w\.]+ \{", body):
        raise ExtractError("ensure_heap_capacity changed shape: " + body[:200])
    # every guarded allocator calls ensure_heap_capacity before the heap is touched
    for fn, touch in (("alloc_object", "self.heap.alloc("), ("alloc_string", "self.heap.alloc_string("), ("intern_string", "self.heap.intern_string("),
                      ("manual_alloc", ".alloc(size, line)"), ("merge_heap", "self.heap.merge("), ("alloc_array", "self.alloc_object("),
                      ("alloc_vec", "self.alloc_object(")):
        fm = re.search(r"pub fn %s\b.*?\n    \}" % fn, al, flags=re.S)
        if not fm:
            raise ExtractError(f"{fn} not found in alloc.rs")
        t = fm.group(0)
        pe, pt = t.find("self.ensure_heap_capacity("), t.find(touch)
        if pe < 0 or pt < 0 or pe > pt:
            raise ExtractError(f"{fn}: ensure_heap_capacity no longer precedes `{touch}`")
    # accounting formulas: bytes per element of array / vec storage as size_bytes charges them, what the charge is based on
    def elem_table(rel, enum, basis):
        t = strip_comments(rd(rel))
        fm = re.search(r"pub fn size_bytes\(&self\) -> usize \{(.*?)\n    \}", t, flags=re.S)
        if not fm or "std::mem::size_of::<Self>()" not in fm.group(1):
            raise ExtractError(f"{rel}: size_bytes changed shape")
        arms = re.findall(r"%s::(\w+)\(\w+\)\s*=>\s*\w+\.%s\(\)(?:\s*\*\s*(\d+))?" % (enum, basis), fm.group(1))
        if len(arms) != 4:
            raise ExtractError(f"{rel}: size_bytes: expected four `{enum}::X(v) => v.{basis}() [* k]` arms, found {len(arms)}")
        return [(n, int(k) if k else 1) for n, k in arms]
    arr_elems = elem_table("bytecode/src/object/array.rs", "ArrayData", "len")
    vec_elems = elem_table("bytecode/src/object/vec.rs", "VecData", "capacity")
    # growth policy of VM::vec_reserve_checked and of the collector threshold
    vb = re.search(r"fn vec_reserve_checked\b.*?\n    \}", al, flags=re.S)
    if not vb:
        raise ExtractError("vec_reserve_checked not found in alloc.rs")
    # the doubling factor and the minimum capacity, wherever the expression has been split or renamed
    mf = re.search(r"\.saturating_mul\((\d+)\)", vb.group(0))
    mm = re.search(r"\.max\((\d+)\)", vb.group(0))
    if not mf or not mm:
        raise ExtractError("vec_reserve_checked: growth policy (saturating_mul(k) ... .max(m)) not found")
    class _G:       # same interface as a match object
        def __init__(self, a, b): self.a, self.b = a, b
        def group(self, i): return self.a if i == 1 else self.b
    mg = _G(mf.group(1), mm.group(1))
    gcf = consts_of(rd("bytecode/src/heap/mod.rs"), ["GC_GROWTH_FACTOR"])
    gt = strip_comments(rd("bytecode/src/heap/gc.rs"))
    if not re.search(r"self\.next_gc\s*=\s*\(self\.bytes_allocated \* Self::GC_GROWTH_FACTOR\)\s*\.max\(Self::INITIAL_GC_THRESHOLD\)", " ".join(gt.split()).replace(") .max", ").max")):
        raise ExtractError("Heap::sweep: next_gc = max(bytes * GC_GROWTH_FACTOR, INITIAL_GC_THRESHOLD) not found")
    fsb = consts_of(rd("runtime/src/stdlib/fs.rs"), ["MAX_BUF"])
    # byte buffers (std.bytes): does every native that builds one consult the heap limit and charge it first?
    bt = strip_comments(rd("runtime/src/stdlib/bytes.rs"))
    def _native(name):
        fm = re.search(r"fn %s\b.*?\n\}" % name, bt, flags=re.S)
        if not fm:
            raise ExtractError(f"{name} not found in runtime/src/stdlib/bytes.rs")
        return fm.group(0)
    charged = []
    for name, build in (("native_alloc", "vec![0u8;"), ("native_clone", ".data.clone()"), ("native_from_string", ".to_vec()"), ("native_resize", ".data.resize(")):
        t = _native(name)
        pc, pb = t.find("charge_byte_buffer("), t.find(build)
        if pb < 0:
            raise ExtractError(f"{name}: `{build}` not found (the native changed shape)")
        charged.append(0 <= pc < pb)
    # fs.read_bytes builds a byte buffer of the requested count: same rule
    ft = strip_comments(rd("runtime/src/stdlib/fs.rs"))
    fm = re.search(r"fn native_read_bytes\b.*?\n\}", ft, flags=re.S)
    if not fm or "vec![0u8;" not in fm.group(0):
        raise ExtractError("fs.rs native_read_bytes: `vec![0u8;` not found (the native changed shape)")
    charged.insert(4, 0 <= fm.group(0).find("charge_byte_buffer(") < fm.group(0).find("vec![0u8;"))
    fr = _native("native_free")
    charged.append("release_byte_buffer(" in fr or not any(charged))
    if any(charged[:5]) and not all(charged):
        raise ExtractError("byte buffers (bytes.alloc / clone / from_string / resize, fs.read_bytes, bytes.free): some natives check and charge their buffer "
                           "before building it and some do not: " + str(charged))
    bytes_charged = all(charged[:5])
    import vlib
    ok, paths, log = vlib.harness_build(["hx_heaplimit"])
    if not ok:
        raise ExtractError("cannot build hx_heaplimit for the layout sizes: " + log[-300:])
    rc, out = vlib.sh([paths["hx_heaplimit"], "sizes"], timeout=60)
    sz = dict(re.findall(r"(\w+)=(\d+)", out))
    need = ["AelysArray", "AelysVec", "AelysString", "Value"]
    if rc != 0 or any(k not in sz for k in need):
        raise ExtractError("hx_heaplimit sizes failed: " + out[-200:])
    out = [HEADER.format(src="runtime/src/vm/config.rs, runtime/src/stdlib/bytes.rs, bytecode/src/heap/mod.rs, runtime/src/vm/alloc.rs (shape), "
                             "hx_heaplimit sizes (std::mem::size_of)"),
           "From Coq Require Import NArith.\n",
           f"Definition MIN_HEAP_BYTES : N := {cfg['MIN_HEAP_BYTES'][0]}%N.\n",
           f"Definition DEFAULT_MAX_HEAP_BYTES : N := {cfg['DEFAULT_MAX_HEAP_BYTES'][0]}%N.\n",
           f"Definition MAX_ALLOC : N := {byt['MAX_ALLOC'][0]}%N.\n",
           f"Definition INITIAL_GC_THRESHOLD : N := {hp['INITIAL_GC_THRESHOLD'][0]}%N.\n",
           f"Definition SZ_ARRAY : N := {sz['AelysArray']}%N.\n",
           f"Definition SZ_VEC : N := {sz['AelysVec']}%N.\n",
           f"Definition SZ_STRING : N := {sz['AelysString']}%N.\n",
           f"Definition SZ_VALUE : N := {sz['Value']}%N.\n",
           "From Coq Require Import String List.\nImport ListNotations.\n",
           "(* bytes per element that size_bytes charges: arrays by length, vecs by capacity *)\n",
           "Definition array_elem_bytes : list (string * N) := [" + "; ".join('("%s"%%string, %d%%N)' % a for a in arr_elems) + "].\n",
           "Definition vec_elem_bytes : list (string * N) := [" + "; ".join('("%s"%%string, %d%%N)' % a for a in vec_elems) + "].\n",
           "(* VM::vec_reserve_checked: new capacity = max (max required (factor * capacity)) minimum *)\n",
           f"Definition VEC_GROWTH_FACTOR : N := {int(mg.group(1))}%N.\n",
           f"Definition VEC_MIN_CAP : N := {int(mg.group(2))}%N.\n",
           "(* Heap::sweep: next_gc = max (factor * bytes) INITIAL_GC_THRESHOLD *)\n",
           f"Definition GC_GROWTH_FACTOR : N := {gcf['GC_GROWTH_FACTOR'][0]}%N.\n",
           "(* std.bytes: alloc / clone / from_string / resize call VM::charge_byte_buffer (limit check + charge) before they build the buffer, free releases *)\n",
           f"Definition BYTES_CHARGED : bool := {'true' if bytes_charged else 'false'}.\n",
           "(* fs.read_bytes: the module's own cap on the requested count *)\n",
           f"Definition FS_MAX_BUF : N := {fsb['MAX_BUF'][0]}%N.\n"]
    return write_if_changed("HeapConsts.v", "".join(out))


# ---------------------------------------------------------------------------------------------------------
# HeapSites: every place in runtime/src and bytecode/src/object where host memory is requested with a size
# that is an expression (Vec::with_capacity, String::with_capacity, vec![x; n], reserve, reserve_exact, resize,
# repeat, repeat_n, AelysArray::new_*, AelysVec::with_capacity_*), with its enclosing function / opcode arm, and
# how the size is kept in check:
#   1  a heap-limit check (ensure_heap_capacity / check_string_capacity / checked_array_len / vec_reserve_checked)
#      precedes it in the same function or arm
#   2  the buffer has its own bound: a comparison with MAX_ALLOC / MAX_BUF / MAX_BUFFER_SIZE precedes it
#   3  the size is a constant, an instruction operand (<= 255) or a VM-internal quantity with its own limit
#      (register stack, frames, call-site cache, globals table) -- reviewed table below, keyed by the size text
#   4  constructor in bytecode/src/object: the size is the caller's (every caller in runtime/src is a site itself)
#   6  the size is the length of a string the VM already holds and has charged (`x.len()` with `let x = get_string(vm, ..)` in the same
#      function): a transient copy bounded by a live charged object, the explicit form of `x.chars()...collect::<String>()`
#   0  none of these: a NEW allocating primitive without a preceding capacity check -> the translator fails
SITE_PATTERNS = [
    ("Vec::with_capacity", r"\bVec::with_capacity\s*\("), ("String::with_capacity", r"\bString::with_capacity\s*\("),
    ("vec!", r"\bvec!\s*\[[^;\]]*;"), ("reserve", r"\.reserve\s*\("), ("reserve_exact", r"\.reserve_exact\s*\("),
    ("resize", r"\.resize\s*\("), ("repeat", r"\.repeat\s*\("), ("repeat_n", r"\brepeat_n\s*\("),
    ("AelysArray::new", r"\bAelysArray::new_(?:ints|floats|bools|objects)\s*\("),
    ("AelysVec::with_capacity", r"\bAelysVec::with_capacity_(?:ints|floats|bools|objects)\s*\("),
    ("ManualHeap::alloc", r"\bmanual_heap(?:_mut\(\))?\s*\.\s*(?:alloc|alloc_guarded|with_allocation)\s*\("),
]
LIMIT_CHECKS = ("ensure_heap_capacity(", "check_string_capacity(", "checked_array_len(", "vec_reserve_checked(")
OWN_BOUNDS = ("> MAX_ALLOC", "> MAX_BUF", "> MAX_BUFFER_SIZE")
# size text (whitespace removed) -> why it is bounded without a heap-limit check.  Only for the VM's own structures
# (files under runtime/src/vm/); in the natives (runtime/src/stdlib/) only a numeric literal is accepted.
REVIEWED_SIZES = {
    "needed": "register window of a call: bounded by the register-stack / stack-overflow checks",
    "index+1": "register stack growth up to the checked register index",
    "REGISTER_STACK_SIZE": "fixed register stack", "REGISTER_STACK_SIZE-self.registers.len()": "fixed register stack",
    "MAX_REGISTERS": "register stack bound", "MAX_FRAMES": "frame stack bound",
    "slot+1": "call-site cache: slot < MAX_CALL_SITE_SLOTS is checked by the bytecode verifier",
    "nargs as usize": "argument count of one call instruction (<= 255)", "args.len()": "argument count of one call",
    "num_upvalues as usize": "upvalue count operand (<= 255)",
    "len": "globals table: number of global names of the running function", "needed_len": "globals table: number of global names",
    "idx+1": "globals table: index of a global name",
    "b_len+1": "edit-distance matrix of a diagnostic hint: identifier lengths",
    "vec![0;b_len+1];a_len+1": "edit-distance matrix of a diagnostic hint: identifier lengths",
}


def _reviewed(rel, size_n, before):
    if re.fullmatch(r"\d+", size_n):
        return True
    if not rel.startswith("runtime/src/vm/"):
        return False
    if size_n == "count":
        # element count of a literal: the byte operand c of the instruction
        return bool(re.search(r"let\s+count\s*=\s*c\s+as\s+usize\s*;", before))
    return size_n in REVIEWED_SIZES


def _held_len(size_n, before):
    """the size is the length of a string the VM already holds (and has charged): `x.len()` with `let x = get_string(vm, ..)` earlier in the
    same function.  The allocation is a transient copy bounded by a live, charged object -- what `x.chars().rev().collect::<String>()` takes
    without saying so; a size that comes from a program-supplied number never matches"""
    m = re.fullmatch(r"(\w+)\.len\(\)", size_n)
    return bool(m and re.search(r"let\s+(?:mut\s+)?%s\s*(?::[^=]+)?=\s*get_string\s*\(\s*vm\s*," % re.escape(m.group(1)), before))


# (module, native) whose result is at most linear in the data it was handed
LINEAR_BUILDERS = {("string", n) for n in (
    "native_chars", "native_bytes", "native_char_at", "native_substr", "native_to_upper", "native_to_lower", "native_capitalize",
    "native_replace_first", "native_split", "native_reverse", "native_concat", "native_trim", "native_trim_start", "native_trim_end",
    "native_lines")} | {("convert", n) for n in (
    "native_to_string", "native_to_hex", "native_to_binary", "native_to_octal", "native_to_radix", "native_chr", "native_type_of")} | {
    ("io", n) for n in ("native_readline", "native_read_char", "native_input")} | {("fs", n) for n in (
    "native_read", "native_read_line", "native_readdir", "native_read_text", "native_basename", "native_dirname", "native_extension",
    "native_join", "native_absolute")} | {("sys", n) for n in (
    "native_args", "native_arg", "native_script_path", "native_script_dir", "native_env", "native_env_vars", "native_cwd", "native_home",
    "native_platform", "native_arch", "native_os", "native_hostname", "native_exec_output", "native_exec_args_output")} | {
    ("time", n) for n in ("native_format", "native_iso", "native_date", "native_time_str")} | {("net", n) for n in (
    "native_udp_recv_from", "native_udp_recv", "native_recv", "native_recv_bytes", "native_recv_line", "native_local_addr", "native_peer_addr")} | {
    ("bytes", "native_decode")}


def _checker_fns(text):
    """names of the functions of this file that perform a heap-limit check themselves or through another such function"""
    fns = [(m.group(1), m.start()) for m in re.finditer(r"\bfn\s+(\w+)", text)]
    bodies = {n: text[st:fns[i + 1][1] if i + 1 < len(fns) else len(text)] for i, (n, st) in enumerate(fns)}
    chk = {n for n, b in bodies.items() if any(c in b[b.find("{"):] for c in LIMIT_CHECKS)}
    changed = True
    while changed:
        changed = False
        for n, b in bodies.items():
            if n not in chk and any((c + "(") in b[b.find("{"):] for c in chk):
                chk.add(n)
                changed = True
    return chk - {"ensure_heap_capacity"}


def _paren_arg(text, i):
    """text[i] is just after an opening bracket: return the text up to the matching close"""
    depth, j = 1, i
    while j < len(text) and depth:
        if text[j] in "([{":
            depth += 1
        elif text[j] in ")]}":
            depth -= 1
        j += 1
    return text[i:j - 1]


def _enclosing(text, pos, is_inc):
    """(name, start) of the function or opcode arm that contains pos"""
    best = ("<top>", 0)
    for m in re.finditer(r"\bfn\s+([A-Za-z0-9_]+)", text[:pos]):
        best = ("fn " + m.group(1), m.start())
    if is_inc:
        for m in re.finditer(r"^\s{4}(\d+)\s*(?:\|\s*\d+\s*)*=>\s*\{", text[:pos], flags=re.M):
            if m.start() > best[1]:
                best = ("op" + m.group(1), m.start())
    return best


@extract.register("HeapSites")
def gen_heap_sites():
    import glob as _glob, os
    files = []
    for root in ("runtime/src", "bytecode/src/object"):
        base = os.path.join(extract.REPO, root)
        for dp, _, fs in os.walk(base):
            for f in fs:
                rel = os.path.relpath(os.path.join(dp, f), extract.REPO)
                if (f.endswith(".rs") or f.endswith(".inc")) and "/verifier/" not in rel and not rel.endswith("verif.rs") and "/tests/" not in rel:
                    files.append(rel)
    if not files:
        raise ExtractError("no source files found under runtime/src")
    sites, unguarded = [], []
    for rel in sorted(files):
        text = strip_comments(rd(rel))
        for kind, pat in SITE_PATTERNS:
            for m in re.finditer(pat, text):
                if kind == "vec!":
                    size = _paren_arg(text, m.end())
                else:
                    size = _paren_arg(text, m.end())
                    if kind == "ManualHeap::alloc":
                        size = size.split(",")[0]
                    if kind in ("resize", "repeat_n"):
                        parts = size.split(",")
                        size = parts[0] if kind == "resize" else parts[-1]
                size_n = re.sub(r"\s+", "", size).replace("asusize", " as usize")
                where, start = _enclosing(text, m.start(), rel.endswith(".inc"))
                before = text[start:m.start()]
                checks = LIMIT_CHECKS + tuple(n + "(" for n in _checker_fns(text))
                if rel.startswith("bytecode/src/object") or rel.startswith("runtime/src/vm/manual_heap/"):
                    cls = 4
                elif any(c in before for c in checks):
                    cls = 1
                elif any(c in before for c in OWN_BOUNDS):
                    cls = 2
                elif _reviewed(rel, size_n, before):
                    cls = 3
                elif _held_len(size_n, before):
                    cls = 6
                else:
                    cls = 0
                    unguarded.append(f"{rel}: {where}: {kind}({size.strip()[:60]})")
                sites.append((rel, where, kind, size_n[:60], cls))
    # natives that hand a string they have built to make_string: either the length of the result is checked first
    # (class 1) or the native is in the reviewed table (class 5: the result is at most linear in the strings / external
    # data the native was given, times a constant); anything else is a new string builder without a capacity check
    builders = []
    for rel in sorted(f for f in files if f.startswith("runtime/src/stdlib/")):
        text = strip_comments(rd(rel))
        fns = [(m.group(1), m.start()) for m in re.finditer(r"\bfn\s+(\w+)", text)]
        for i, (name, st) in enumerate(fns):
            body = text[st:fns[i + 1][1] if i + 1 < len(fns) else len(text)]
            pm = body.rfind("make_string(")
            if pm < 0 or name == "make_string":
                continue
            mod = os.path.basename(rel)[:-3]
            if any(c in body[:pm] for c in ("check_string_capacity(",) + tuple(n + "(" for n in _checker_fns(text))):
                cls = 1
            elif (mod, name) in LINEAR_BUILDERS:
                cls = 5
            else:
                cls = 0
                unguarded.append(f"{rel}: fn {name}: make_string of a built string without check_string_capacity (not in the reviewed linear list)")
            builders.append((rel, "fn " + name, cls))
    out = [HEADER.format(src="runtime/src/**, bytecode/src/object/** (every sized host allocation)"),
           "From Coq Require Import String List NArith.\nImport ListNotations.\nLocal Open Scope string_scope.\n",
           "(* (file, enclosing fn / opcode arm, kind, size expression, class)  class: 1 heap-limit check precedes, 2 own bound precedes,\n"
           "   3 constant / operand / VM-internal bounded quantity (reviewed), 4 constructor (size is the caller's),\n"
           "   6 length of a string the VM already holds and has charged (transient copy), 0 unguarded *)\n",
           "Definition heap_alloc_sites : list (string * string * string * string * N) :=\n  ["]
    out.append(";\n   ".join('("%s", "%s", "%s", "%s", %d%%N)' % (a, b, c, d.replace('"', "'"), e) for a, b, c, d, e in sites))
    out.append("].\n")
    out.append("(* natives that build a string: (file, fn, class)  class 1: result length checked first, 5: reviewed, result linear in its inputs *)\n")
    out.append("Definition string_builders : list (string * string * N) :=\n  [")
    out.append(";\n   ".join('("%s", "%s", %d%%N)' % b for b in builders))
    out.append("].\n")
    p = write_if_changed("HeapSites.v", "".join(out))
    if unguarded:
        raise ExtractError("allocating primitive(s) without a preceding capacity check: " + "; ".join(unguarded[:6]))
    return p


# ---------------------------------------------------------------------------------------------------------
# HeapEstimator: Heap::estimate_object_size as a table, one row per ObjectKind arm -- what the estimate of an
# object of that kind depends on.  Heap::alloc adds the estimate an object has when it is allocated, Heap::sweep
# subtracts the estimate it has when it dies: the two agree only when the estimate cannot change in between, or
# when every change is added through Heap::account_growth.
#   0  the estimate depends only on data that is fixed when the object is allocated
#   1  it depends on state that changes, and every change goes through Heap::account_growth
#   2  it depends on state that changes without accounting (or on something this table has not reviewed)
# reviewed dependencies: (kind, access path after the binder)
ESTIMATE_FIXED = {
    ("String", ".len()"): "AelysString has no &mut self method: the bytes are fixed at allocation",
    ("String", ".as_str().len()"): "same", ("String", ".as_bytes().len()"): "same",
    ("Function", ".function.bytecode.len()"): "the code of a function object is never resized after allocation",
    ("Function", ".function.constants.len()"): "constants are patched in place (remap after merge), never added or removed",
    ("Closure", ".upvalues.len()"): "the upvalue vector is complete when the closure is allocated (no push / assignment in runtime/src)",
    ("Array", ".size_bytes()"): "arrays have a fixed length: size_bytes is size_of::<Self>() + len * element size",
}
ESTIMATE_ACCOUNTED = {
    ("Vec", ".size_bytes()"): "capacity only changes in VM::vec_reserve_checked, which adds the size_bytes difference through account_growth",
}


@extract.register("HeapEstimator")
def gen_heap_estimator():
    kt = strip_comments(rd("bytecode/src/object/kinds.rs"))
    km = re.search(r"pub enum ObjectKind\s*\{(.*?)\}", kt, flags=re.S)
    if not km:
        raise ExtractError("enum ObjectKind not found in bytecode/src/object/kinds.rs")
    kinds = re.findall(r"(\w+)\s*\(", km.group(1))
    gt = strip_comments(rd("bytecode/src/heap/gc.rs"))
    fm = re.search(r"fn estimate_object_size\s*\([^)]*\)\s*->\s*usize\s*\{(.*?)\n    \}", gt, flags=re.S)
    if not fm:
        raise ExtractError("Heap::estimate_object_size not found in bytecode/src/heap/gc.rs")
    body = fm.group(1)
    if re.search(r"\n\s*_\s*=>", body):
        raise ExtractError("estimate_object_size has a wildcard arm: the table needs one arm per kind")
    heads = list(re.finditer(r"ObjectKind::(\w+)\s*\(\s*(\w+)\s*\)\s*=>", body))
    arms = {}
    for i, h in enumerate(heads):
        expr = body[h.end():heads[i + 1].start() if i + 1 < len(heads) else len(body)]
        arms[h.group(1)] = (h.group(2), expr)
    missing = [k for k in kinds if k not in arms]
    if missing or len(arms) != len(kinds):
        raise ExtractError(f"estimate_object_size: arms {sorted(arms)} do not match ObjectKind {kinds}")
    # alloc adds / sweep subtracts the estimate
    at = " ".join(strip_comments(rd("bytecode/src/heap/alloc.rs")).split())
    if not re.search(r"self\.bytes_allocated \+= Self::estimate_object_size\(&obj\)", at):
        raise ExtractError("Heap::alloc no longer adds estimate_object_size(&obj) to bytes_allocated")
    gs = " ".join(gt.split()).replace(" .", ".")
    if not re.search(r"self\.bytes_allocated = self\.bytes_allocated\.saturating_sub\(Self::estimate_object_size\(&obj\)\)", gs):
        raise ExtractError("Heap::sweep no longer subtracts estimate_object_size(&obj) from bytes_allocated")
    # supporting facts of the reviewed dependencies
    def has_mut_self(rel, allowed=()):
        t = strip_comments(rd(rel))
        return [n for n in re.findall(r"fn\s+(\w+)\s*\(\s*&mut self", t) if n not in allowed]
    support = {
        "String": not has_mut_self("bytecode/src/object/string.rs"),
        "Array": not has_mut_self("bytecode/src/object/array.rs", ("as_ints_mut", "as_floats_mut", "as_bools_mut", "as_objects_mut", "set", "fill")),
        "Closure": True, "Function": True,
    }
    rt = ""
    import os
    for dp, _, fs in os.walk(os.path.join(extract.REPO, "runtime/src")):
        for f in fs:
            if f.endswith(".rs") or f.endswith(".inc"):
                rt += strip_comments(open(os.path.join(dp, f), encoding="utf-8", errors="replace").read())
    if re.search(r"\.upvalues\s*\.\s*(?:push|extend|insert|truncate|clear|pop)\s*\(|\.upvalues\s*=[^=]", rt):
        support["Closure"] = False
    if re.search(r"\.function\s*\.\s*(?:bytecode|constants)\s*\.\s*(?:push|extend|insert|truncate|clear|pop|resize)\s*\(", rt):
        support["Function"] = False
    al = strip_comments(rd("runtime/src/vm/alloc.rs"))
    vb = re.search(r"fn vec_reserve_checked\b.*?\n    \}", al, flags=re.S)
    vec_ok = False
    if vb:
        t = vb.group(0)
        p1, p2, p3 = t.find(".size_bytes()"), t.find(".reserve_exact("), t.rfind(".size_bytes()")
        vec_ok = 0 <= p1 < p2 < p3 and "account_growth(" in t[p3:]
    # no other place changes the capacity of a vec object
    for pat in (r"\.shrink_to_fit\s*\(", r"\.shrink_to\s*\("):
        for m in re.finditer(pat, rt):
            ctx = rt[max(0, m.start() - 200):m.start()]
            if "ObjectKind::Vec" in ctx or "AelysVec" in ctx:
                vec_ok = False
    support["Vec"] = vec_ok
    rows, deps_out = [], []
    for idx, k in enumerate(kinds):
        binder, expr = arms[k]
        deps = []
        if binder != "_":
            for m in re.finditer(r"(?<![\w.])%s\b((?:\s*\.\s*\w+(?:\s*\(\s*\))?)*)" % re.escape(binder), expr):
                deps.append(re.sub(r"\s+", "", m.group(1)) or "(itself)")
        cls = 0
        for d in deps:
            if (k, d) in ESTIMATE_FIXED and support.get(k, False):
                c = 0
            elif (k, d) in ESTIMATE_ACCOUNTED and support.get(k, False):
                c = 1
            else:
                c = 2
            cls = max(cls, c)
        rows.append((idx, k, cls))
        deps_out.append((k, deps))
    out = [HEADER.format(src="bytecode/src/heap/gc.rs (Heap::estimate_object_size, Heap::sweep), bytecode/src/heap/alloc.rs (Heap::alloc), "
                             "bytecode/src/object/kinds.rs, runtime/src/vm/alloc.rs (vec_reserve_checked)"),
           "From Coq Require Import String List NArith.\nImport ListNotations.\nLocal Open Scope string_scope.\n",
           "(* Heap::alloc adds estimate_object_size of the new object, Heap::sweep subtracts estimate_object_size of the dead one.\n"
           "   One row per arm of the estimator, in the order of enum ObjectKind: (index, kind, class)\n"
           "   0 the estimate depends only on data fixed at allocation; 1 on state whose every change is added through\n"
           "   Heap::account_growth; 2 on state that changes without accounting (or an access that has not been reviewed) *)\n",
           "Definition estimator_arms : list (N * string * N) :=\n  [" + "; ".join('(%d%%N, "%s", %d%%N)' % r for r in rows) + "].\n",
           "(* what each arm reads of the object *)\n",
           "Definition estimator_reads : list (string * list string) :=\n  [" +
           "; ".join('("%s", [%s])' % (k, "; ".join('"%s"' % d for d in ds)) for k, ds in deps_out) + "].\n"]
    return write_if_changed("HeapEstimator.v", "".join(out))


# ---------------------------------------------------------------------------------------------------------
# HeapArgs: from command-line flags to VmConfig -- which flag writes which field of the configuration
# (runtime/src/vm/args/parse.rs).  "*" = the configuration is assigned as a whole.
def _cfg_writes(block, cfg_src, var="config"):
    ws = []
    if re.search(r"(?<![\w.])\*?%s\s*=[^=]" % var, block):
        ws.append("*")
    for m in re.finditer(r"(?<![\w.])%s\.((?:\w+\.)*\w+)\s*(?:[-+|&]?=)(?!=)" % var, block):
        ws.append(m.group(1))
    for m in re.finditer(r"&mut\s+%s\.(\w+)" % var, block):
        ws.append(m.group(1))
    for m in re.finditer(r"(?<![\w.])%s\.(\w+)\.(\w+)\s*\(" % var, block):
        ws.append(m.group(1))
    for m in re.finditer(r"(?<![\w.])%s\.(\w+)\s*\(" % var, block):
        fm = re.search(r"fn %s\s*\(\s*&mut self[^)]*\)[^{]*\{(.*?)\n    \}" % m.group(1), cfg_src, flags=re.S)
        if fm:
            ws += _cfg_writes(fm.group(1), cfg_src, var="self") or ["*"]
        elif not re.search(r"fn %s\s*\(\s*&self" % m.group(1), cfg_src):
            ws.append("*")          # unknown method on the configuration: assume it may write anything
    out = []
    for w in ws:
        if w not in out:
            out.append(w)
    return out


@extract.register("HeapArgs")
def gen_heap_args():
    t = strip_comments(rd("runtime/src/vm/args/parse.rs"))
    cfg_src = strip_comments(rd("runtime/src/vm/config.rs"))
    pm = re.search(r"pub fn parse_vm_args\b.*?\n\}", t, flags=re.S)
    am = re.search(r"fn apply_vm_arg\b.*?\n\}", t, flags=re.S)
    if not pm or not am:
        raise ExtractError("parse_vm_args / apply_vm_arg not found in runtime/src/vm/args/parse.rs")
    body = pm.group(0)
    if "VmConfig::default()" not in body.split("for arg in args")[0]:
        raise ExtractError("parse_vm_args no longer starts from VmConfig::default()")
    # -ae. keys
    arms = list(re.finditer(r'"([\w-]+)"\s*=>\s*\{', am.group(0)))
    if not arms:
        raise ExtractError("apply_vm_arg: no `\"key\" => {` arms found")
    arg_writes = []
    for i, a in enumerate(arms):
        blk = am.group(0)[a.end():arms[i + 1].start() if i + 1 < len(arms) else len(am.group(0))]
        arg_writes.append((a.group(1), _cfg_writes(blk, cfg_src)))
    # the loop's own flags and the part after the loop
    loop, _, after = body.partition("program_args.push(")
    outer = []
    for m in re.finditer(r'if (?:arg == "([^"]+)"|let Some\(\w+\) = arg\.strip_prefix\("([^"]+)"\))\s*\{(.*?)\n        \}', loop, flags=re.S):
        name = m.group(1) or m.group(2)
        blk = m.group(3)
        if "apply_vm_arg(" in blk:
            continue
        outer.append((name, _cfg_writes(blk, cfg_src)))
    fin = re.search(r"if trusted_enabled\s*\{(.*?)\n    \}", after, flags=re.S)
    rest = after if not fin else after.replace(fin.group(0), "")
    fin_w = _cfg_writes(fin.group(1), cfg_src) if fin else []
    rest_w = _cfg_writes(rest, cfg_src)
    if rest_w:
        fin_w += [w for w in rest_w if w not in fin_w]
    q = lambda l: "[" + "; ".join('"%s"' % x for x in l) + "]"
    out = [HEADER.format(src="runtime/src/vm/args/parse.rs, runtime/src/vm/config.rs"),
           "From Coq Require Import String List NArith.\nImport ListNotations.\nLocal Open Scope string_scope.\n",
           "(* which fields of VmConfig each flag assigns (\"*\" = the configuration as a whole): the -ae. / --ae- keys of apply_vm_arg, the flags\n"
           "   parse_vm_args handles itself, and everything after the argument loop (trusted mode) *)\n",
           "Definition arg_writes : list (string * list string) := [" + "; ".join('("%s", %s)' % (k, q(w)) for k, w in arg_writes) + "].\n",
           "Definition outer_writes : list (string * list string) := [" + "; ".join('("%s", %s)' % (k, q(w)) for k, w in outer) + "].\n",
           "Definition trusted_finalizer_writes : list string := " + q(fin_w) + ".\n"]
    return write_if_changed("HeapArgs.v", "".join(out))
