"""C08/C07 translator plugin: bytecode/src/asm/binary.rs -> coq/Extracted/AvbcLayout.v

What is read from the Rust source text of the current tree:
  * MAGIC, VERSION, every MAX_* limit (values);
  * write_function: the exact sequence of write_* calls / loops (field order and widths) -- must
    equal the sequence Model/Avbc.v was written against, otherwise ExtractError (shape changed);
    the opcode numbers of the cache-stripping loop (78 -> 77 rewrite, 77 kept, 2 cache words);
  * write_constant: the tag byte written for every constant kind (writer tags);
  * read_function: the exact sequence of reads / limit checks / allocations / loops and the
    final assembly of the Function (which local goes into which field); which MAX_* guards
    which count (the binding is data: LIM_* := MAX_*), and that every guard is present;
  * read_constant: the tag byte accepted for every constant kind (reader tags), the string
    length guard.
Tags, limits, opcode numbers, magic and version are *data* in the generated file (the model
follows the code); field order and widths are *checked* against the model's fixed shape.
"""
import re
import extract
from extract import ExtractError, rd, strip_comments, consts_of, write_if_changed, HEADER

SRC = "bytecode/src/asm/binary.rs"


def fn_body(text, name):
    m = re.search(r"\bfn\s+%s\s*(?:<[^>]*>)?\s*\(" % re.escape(name), text)
    if not m:
        raise ExtractError(f"{SRC}: fn {name} not found")
    i = text.index("{", m.end())
    depth, j = 0, i
    while j < len(text):
        if text[j] == "{":
            depth += 1
        elif text[j] == "}":
            depth -= 1
            if depth == 0:
                return text[i + 1:j]
        j += 1
    raise ExtractError(f"{SRC}: unbalanced braces in fn {name}")


def norm(s):
    s = " ".join(s.split())
    s = re.sub(r",\s*$", "", s)              # trailing comma of a multi-line argument list
    s = re.sub(r"\(\s+", "(", s)
    s = re.sub(r",?\s+\)", ")", s)
    return s


WARNINGS = []          # shape drift that did not stop the extraction of the data (reported, not an alarm)

BINDERS = [r"^read \w+ (\w+)", r"^cap (\w+) \w+", r"^for (?:&?\(?)(\w+)(?:, (\w+)\))? in ", r"^for (\w+)$", r"^bytes (\w+)$", r"^exact (\w+)$",
           r"^push (\w+) ", r"^limit (\w+) ", r"^ifpos (\w+)$", r"^utf8 (\w+) "]


def alpha(tokens):
    """rename local variables by order of first appearance in a binding position, so that renaming a local
    is not a shape change (field names, types, limits, literals and the order of steps still are)"""
    names = {}
    for t in tokens:
        for b in BINDERS:
            m = re.match(b, t)
            if m:
                for g in m.groups():
                    if g and g not in names and not g.startswith(("MAX", "func", "self")):
                        names[g] = f"v{len(names)}"
    if not names:
        return tokens
    pat = re.compile(r"\b(" + "|".join(map(re.escape, names)) + r")\b")
    return [pat.sub(lambda m: names[m.group(1)], t) for t in tokens]


def first_diff(got, want, what, soft=True):
    """exact match, else match up to renaming of locals, else a WARNING (the contract tie then carries the check
    of that function alone); never an alarm by itself: a different but equivalent way of writing the same steps
    must not fail the check"""
    if got == want or alpha(got) == alpha(want):
        return True
    msg = None
    for i, (g, w) in enumerate(zip(alpha(got), alpha(want))):
        if g != w:
            msg = f"{SRC}: {what}: step {i} is {got[i]!r}, the model was written for {want[i]!r}"
            break
    if msg is None:
        k = min(len(got), len(want))
        extra = got[k:k + 2] if len(got) > len(want) else want[k:k + 2]
        msg = (f"{SRC}: {what}: {len(got)} steps, the model was written for {len(want)} "
               f"({'unexpected' if len(got) > len(want) else 'missing'}: {extra})")
    if soft:
        WARNINGS.append(msg)
        return False
    raise ExtractError(msg)


def soft(cond, msg):
    if not cond:
        WARNINGS.append(msg)


# ------------------------------------------------------------------ writer
WRITER_SHAPE = [
    "u16 name.len() as u16", "bytes name.as_bytes()", "u16 0",
    "u8 func.arity", "u8 func.num_registers",
    "u16 func.constants.len() as u16", "for constant in &func.constants", "constant constant, heap",
    "u32 func.bytecode.len() as u32", "for &instr in func.bytecode.iter()",
    "u32 0", "u32 new_instr", "u32 instr", "u32 instr",
    "u16 func.nested_functions.len() as u16", "for nested in &func.nested_functions", "function nested, heap",
    "u16 func.upvalue_descriptors.len() as u16", "for desc in &func.upvalue_descriptors",
    "u8 if desc.is_local { 1 } else { 0 }", "u8 desc.index",
    "u16 func.lines.len() as u16", "for &(count, line) in &func.lines", "u16 count", "u32 line",
    "u16 func.global_layout.names().len() as u16", "for name in func.global_layout.names()",
    "u16 name.len() as u16", "bytes name.as_bytes()",
]


def writer_tokens(body):
    toks = []
    for m in re.finditer(r"self\.write_(\w+)\(([^;]*)\);|\bfor\s+([^{]*?)\s*\{", body):
        if m.group(1):
            toks.append(norm(f"{m.group(1)} {m.group(2)}"))
        else:
            toks.append(norm("for " + m.group(3)))
    return toks


def _block_after(text, pos):
    """text[pos] is `{`: the text inside the matching braces and the position after the closing one"""
    depth, k = 0, pos
    while k < len(text):
        depth += text[k] == "{"
        depth -= text[k] == "}"
        k += 1
        if depth == 0:
            return text[pos + 1:k - 1], k
    raise ExtractError(f"{SRC}: write_function: unbalanced braces in the cache-stripping code")


def _opcode_branches(body):
    """the cache-stripping dispatch on `opcode`, in either spelling:
         if opcode == A {..} else if opcode == B {..} else {..}
         match opcode { A => {..} B => {..} _ => .. }
    -> ([(opcode number, block text)], default text)"""
    branches, default = [], None
    m = re.search(r"\bif\s+opcode\s*==\s*(\d+)\s*\{", body)
    mm = re.search(r"\bmatch\s+opcode\s*\{", body)
    if m and (not mm or m.start() < mm.start()):
        pos = m.start()
        while True:
            m = re.compile(r"if\s+opcode\s*==\s*(\d+)\s*\{").match(body, pos)
            if not m:
                raise ExtractError(f"{SRC}: write_function: a branch of the cache-stripping chain does not test `opcode == N`")
            blk, end = _block_after(body, m.end() - 1)
            branches.append((int(m.group(1)), blk))
            e = re.compile(r"\s*else\s*").match(body, end)
            if not e:
                raise ExtractError(f"{SRC}: write_function: the cache-stripping chain has no final `else`")
            if body[e.end()] == "{":
                default, _ = _block_after(body, e.end())
                break
            pos = e.end()
    elif mm:
        inner, _ = _block_after(body, mm.end() - 1)
        pos = 0
        arm = re.compile(r"\s*(\d+|_)\s*=>\s*")
        while True:
            a = arm.match(inner, pos)
            if not a:
                if inner[pos:].strip(" \n\t,"):
                    raise ExtractError(f"{SRC}: write_function: a `match opcode` arm is not `N => ..` or `_ => ..`: {inner[pos:pos + 40]!r}")
                break
            if inner[a.end()] == "{":
                blk, end = _block_after(inner, a.end())
            else:
                end = inner.index(",", a.end()) if "," in inner[a.end():] else len(inner)
                blk = inner[a.end():end]
            if a.group(1) == "_":
                default = blk
            else:
                branches.append((int(a.group(1)), blk))
            pos = end
            c = re.compile(r"\s*,").match(inner, pos)
            if c:
                pos = c.end()
    else:
        raise ExtractError(f"{SRC}: write_function: cache-stripping dispatch on `opcode` (`if opcode == A {{..}} else if opcode == B {{..}} else` or `match opcode {{ A => .., B => .., _ => .. }}`) not recognised")
    if default is None:
        raise ExtractError(f"{SRC}: write_function: the cache-stripping dispatch has no default branch")
    return branches, default


def writer_opcodes(body):
    """what the writer does with an instruction word, as data: the opcode whose word is rewritten (and to what), the
    opcode whose word is kept, how many following cache words each zeroes. The spelling of the dispatch is free;
    what each branch does must be one of: write `instr`; write `(instr & 0x00FFFFFF) | (N << 24)` (directly or
    through one `let`); and optionally `skip_cache_words = K`. Anything else in a branch is refused."""
    branches, default = _opcode_branches(body)
    if len(branches) != 2:
        raise ExtractError(f"{SRC}: write_function: the cache-stripping dispatch has {len(branches)} opcode branches, the model has 2 (CallGlobalMono, CallGlobal)")
    rewrite_re = r"\(\s*instr\s*&\s*(0x[0-9A-Fa-f_]+)\s*\)\s*\|\s*\(\s*(\d+)\s*<<\s*24\s*\)"

    def effect(blk, what):
        rest = blk
        rew = None
        ml = re.search(r"let\s+(\w+)\s*=\s*" + rewrite_re + r"\s*;", rest)
        if ml:
            var, mask, rew = ml.group(1), int(ml.group(2).replace("_", ""), 16), int(ml.group(3))
            rest = rest.replace(ml.group(0), "", 1)
            mw = re.search(r"self\.write_u32\(\s*" + re.escape(var) + r"\s*\)\s*;?", rest)
        else:
            mw = re.search(r"self\.write_u32\(\s*" + rewrite_re + r"\s*\)\s*;?", rest)
            if mw:
                mask, rew = int(mw.group(1).replace("_", ""), 16), int(mw.group(2))
        if rew is not None:
            if not mw:
                raise ExtractError(f"{SRC}: write_function: {what}: the rewritten word is not what is written")
            if mask != 0x00FFFFFF:
                raise ExtractError(f"{SRC}: write_function: rewrite mask is {mask:#x}, the model assumes 0x00FFFFFF")
        else:
            mw = re.search(r"self\.write_u32\(\s*instr\s*\)\s*;?", rest)
            if not mw:
                raise ExtractError(f"{SRC}: write_function: {what}: writes neither `instr` nor `(instr & MASK) | (N << 24)`")
        rest = rest.replace(mw.group(0), "", 1)
        skip = 0
        ms = re.search(r"skip_cache_words\s*=\s*(\d+)\s*;", rest)
        if ms:
            skip = int(ms.group(1))
            rest = rest.replace(ms.group(0), "", 1)
        if rest.strip(" \n\t,;"):
            raise ExtractError(f"{SRC}: write_function: {what}: statement(s) the model does not have: {' '.join(rest.split())[:80]!r}")
        return rew, skip

    effs = [(op,) + effect(blk, f"branch for opcode {op}") for op, blk in branches]
    d_rew, d_skip = effect(default, "default branch")
    if d_rew is not None or d_skip != 0:
        raise ExtractError(f"{SRC}: write_function: the default branch rewrites the word or skips cache words; the model writes every other word unchanged")
    rewriting = [e for e in effs if e[1] is not None]
    keeping = [e for e in effs if e[1] is None]
    if len(rewriting) != 1 or len(keeping) != 1:
        raise ExtractError(f"{SRC}: write_function: expected one rewriting branch and one keeping branch, found {len(rewriting)} and {len(keeping)}")
    if not re.search(r"let\s+opcode\s*=\s*\(instr\s*>>\s*24\)\s*as\s+u8\s*;", body):
        raise ExtractError(f"{SRC}: write_function: `let opcode = (instr >> 24) as u8` not recognised")
    if not re.search(r"if\s+skip_cache_words\s*>\s*0\s*\{[^}]*self\.write_u32\(0\);[^}]*skip_cache_words\s*-=\s*1;", body, flags=re.S):
        raise ExtractError(f"{SRC}: write_function: zeroing of cache words not recognised")
    (op_a, rew, sk_a), (op_b, _, sk_b) = rewriting[0], keeping[0]
    return op_a, rew, sk_a, op_b, sk_b


WCONST_SHAPE = [
    ("null", ["u8 T"]),
    ("bool", ["u8 T", "u8 if b { 1 } else { 0 }"]),
    ("int", ["u8 T", "i64 n"]),
    ("float", ["u8 T", "f64 f"]),
    ("func", ["u8 T", "u32 func_idx as u32"]),
    ("string", ["u8 T", "u32 bytes.len() as u32", "bytes bytes"]),
    ("ptr", ["u8 T", "u64 ptr as u64"]),
    ("ptr", ["u8 T", "u64 ptr as u64"]),
    ("null", ["u8 T"]),
]
WCONST_GUARDS = ["value.is_null()", "value.as_bool()", "value.as_int()", "value.is_float()",
                 "value.as_nested_fn_marker()", "value.as_ptr()"]


def writer_tags(body):
    toks = [norm(f"{m.group(1)} {m.group(2)}") for m in re.finditer(r"self\.write_(\w+)\(([^;]*)\);", body)]
    tags, i = {}, 0
    for kind, shape in WCONST_SHAPE:
        for k, want in enumerate(shape):
            if i >= len(toks):
                raise ExtractError(f"{SRC}: write_constant: fewer write calls than the model expects (at {kind})")
            got = toks[i]
            if k == 0:
                m = re.fullmatch(r"u8 (\d+)", got)
                if not m:
                    raise ExtractError(f"{SRC}: write_constant: expected a tag byte for {kind}, found {got!r}")
                t = int(m.group(1))
                if kind in tags and tags[kind] != t:
                    raise ExtractError(f"{SRC}: write_constant: two different tags for {kind}: {tags[kind]} and {t}")
                tags[kind] = t
            elif got.split()[0] != want.split()[0]:
                raise ExtractError(f"{SRC}: write_constant: payload of {kind} is {got!r}, the model was written for {want!r}")
            elif got != want:
                pass          # same width, another spelling of the argument
            i += 1
    if i != len(toks):
        raise ExtractError(f"{SRC}: write_constant: unexpected extra write calls {toks[i:i + 3]}")
    pos = -1
    for g in WCONST_GUARDS:
        p = body.find(g, pos + 1)
        if p < 0:
            raise ExtractError(f"{SRC}: write_constant: kind test `{g}` missing or out of order")
        pos = p
    if "ObjectKind::String(s)" not in body or "heap.get(GcRef::new(ptr))" not in body:
        raise ExtractError(f"{SRC}: write_constant: heap resolution of string constants not recognised")
    return tags


# ------------------------------------------------------------------ reader
READER_SHAPE = [
    "limit depth MAX 'function nesting depth'",
    "read u16 name_len as usize", "limit name_len MAX 'function name length'", "ifpos name_len",
    "bytes name_len", "exact bytes", "utf8 bytes InvalidUtf8",
    "read u8 arity", "read u8 num_registers",
    "read u16 const_count as usize", "limit const_count MAX 'constants'", "cap constants const_count",
    "for const_count", "constant", "push constants value",
    "read u32 bc_len as usize", "limit bc_len MAX 'bytecode length'", "cap bytecode bc_len",
    "for bc_len", "push bytecode self.read_u32()?",
    "read u16 nested_count as usize", "limit nested_count MAX 'nested functions'",
    "markers &constants, nested_count", "cap nested_functions nested_count",
    "for nested_count", "push nested_functions self.read_function(depth + 1)?",
    "read u16 upvalue_count as usize", "limit upvalue_count MAX 'upvalue descriptors'",
    "cap upvalue_descriptors upvalue_count", "for upvalue_count",
    "read u8 is_local != 0", "read u8 index", "push upvalue_descriptors UpvalueDescriptor { is_local, index }",
    "read u16 lines_count as usize", "limit lines_count MAX 'line info entries'", "cap lines lines_count",
    "for lines_count", "read u16 count", "read u32 line", "push lines (count, line)",
    "read u16 global_names_count as usize", "limit global_names_count MAX 'global names'",
    "cap global_names global_names_count", "for global_names_count",
    "read u16 name_len as usize", "limit name_len MAX 'global name length'", "ifpos name_len",
    "bytes name_len", "exact bytes", "utf8 bytes Io", "push global_names name",
    "new name, arity", "set num_registers = num_registers", "setbc bytecode", "set constants = constants",
    "set nested_functions = nested_functions", "set upvalue_descriptors = upvalue_descriptors",
    "set lines = lines", "set global_layout = GlobalLayout::new(global_names)", "hash",
]
LIMIT_KEYS = {
    "function nesting depth": "DEPTH", "function name length": "NAME_LEN", "constants": "CONSTS",
    "bytecode length": "CODE", "nested functions": "NESTED", "upvalue descriptors": "UPVALS",
    "line info entries": "LINES", "global names": "GLOBALS", "global name length": "GLOBAL_NAME_LEN",
}

READER_RE = re.compile(
    r"if\s+(?P<lv>\w+)\s*>\s*(?P<lm>MAX_\w+)\s*\{\s*return\s+Err\(BinaryError::LimitExceeded\s*\{\s*what:\s*\"(?P<lw>[^\"]+)\",\s*limit:\s*(?P<lm2>MAX_\w+),?\s*\}\);\s*\}"
    r"|let\s+(?:mut\s+)?(?P<rv>\w+)\s*=\s*self\.read_(?P<rt>u8|u16|u32|u64)\(\)\?(?P<rs>\s*as\s+usize|\s*!=\s*0)?\s*;"
    r"|let\s+mut\s+(?P<cv>\w+)\s*=\s*Vec::with_capacity\((?P<cn>\w+)\)\s*;"
    r"|let\s+mut\s+bytes\s*=\s*vec!\[0u8;\s*(?P<bn>\w+)\]\s*;"
    r"|self\.cursor\.read_exact\(&mut\s+(?P<ex>\w+)\)\?\s*;"
    r"|String::from_utf8\((?P<uv>\w+)\)\s*\.map_err\(\|_\|\s*(?:\{\s*)?BinaryError::(?P<ue>\w+)"
    r"|for\s+_\s+in\s+0\.\.(?P<fv>\w+)\s*\{"
    r"|let\s+value\s*=\s*(?P<rc>self\.read_constant\(\)\?)\s*;"
    r"|(?P<pv>\w+)\.push\((?P<pa>[^;]*)\)\s*;"
    r"|Self::validate_func_markers\((?P<mk>[^)]*)\)\?\s*;"
    r"|if\s+(?P<ip>\w+)\s*>\s*0\s*\{"
    r"|Function::new\((?P<nw>[^)]*)\)\s*;"
    r"|func\.set_bytecode\((?P<sb>\w+)\)\s*;"
    r"|func\.(?P<sf>\w+)\s*=\s*(?P<sv>[^;]+);"
    r"|func\.(?P<hs>compute_global_layout_hash)\(\)\s*;", re.S)


def reader_tokens(body):
    toks, limits = [], {}
    for m in re.finditer(r"check_len\(\s*(\w+)\s*,\s*(MAX_\w+)\s*,\s*\"([^\"]+)\"\s*,?\s*\)\?", body):
        limits[m.group(3)] = m.group(2)          # helper form of a guard
    for m in READER_RE.finditer(body):
        d = m.groupdict()
        if d["lv"]:
            if d["lm"] != d["lm2"]:
                raise ExtractError(f"{SRC}: read_function: `{d['lv']} > {d['lm']}` reports limit {d['lm2']}")
            toks.append(f"limit {d['lv']} MAX '{d['lw']}'")
            limits[d["lw"]] = d["lm"]
        elif d["rv"]:
            toks.append(norm(f"read {d['rt']} {d['rv']} {d['rs'] or ''}"))
        elif d["cv"]:
            toks.append(f"cap {d['cv']} {d['cn']}")
        elif d["bn"]:
            toks.append(f"bytes {d['bn']}")
        elif d["ex"]:
            toks.append(f"exact {d['ex']}")
        elif d["uv"]:
            toks.append(f"utf8 {d['uv']} {d['ue']}")
        elif d["fv"]:
            toks.append(f"for {d['fv']}")
        elif d["rc"]:
            toks.append("constant")
        elif d["pv"]:
            toks.append(norm(f"push {d['pv']} {d['pa']}"))
        elif d["mk"]:
            toks.append(norm(f"markers {d['mk']}"))
        elif d["ip"]:
            toks.append(f"ifpos {d['ip']}")
        elif d["nw"]:
            toks.append(norm(f"new {d['nw']}"))
        elif d["sb"]:
            toks.append(f"setbc {d['sb']}")
        elif d["sf"]:
            toks.append(norm(f"set {d['sf']} = {d['sv']}"))
        elif d["hs"]:
            toks.append("hash")
    return toks, limits


RCONST_KINDS = [("null", r"Value::null\(\)", None), ("bool", r"Value::bool\(", "u8"), ("int", r"Value::int\(", "i64"),
                ("float", r"Value::float\(", "f64"), ("string", r"intern_string", "u32"),
                ("func", r"Value::nested_fn_marker\(", "u32"), ("ptr", r"Value::ptr\(ptr\)", "u64")]


def reader_tags(body):
    mm = re.search(r"match\s+tag\s*\{", body)
    if not mm or not re.search(r"let\s+tag\s*=\s*self\.read_u8\(\)\?\s*;", body):
        raise ExtractError(f"{SRC}: read_constant: `let tag = self.read_u8()?; match tag {{` not recognised")
    rest = body[mm.end():]
    arms = list(re.finditer(r"(?m)^\s*(\d+|_)\s*=>", rest))
    tags, strlim, ptrlim = {}, None, None
    for k, a in enumerate(arms):
        seg = rest[a.end(): arms[k + 1].start() if k + 1 < len(arms) else len(rest)]
        if a.group(1) == "_":
            if "InvalidConstantType" not in seg:
                raise ExtractError(f"{SRC}: read_constant: default arm does not reject the tag")
            continue
        kinds = [(kd, w) for kd, pat, w in RCONST_KINDS if re.search(pat, seg)]
        if len(kinds) != 1:
            raise ExtractError(f"{SRC}: read_constant: arm {a.group(1)} constructs {[k for k, _ in kinds] or 'nothing recognised'}")
        kd, w = kinds[0]
        if kd in tags:
            raise ExtractError(f"{SRC}: read_constant: two arms construct {kd}")
        if w and not re.search(r"self\.read_%s\(\)\?" % w, seg):
            raise ExtractError(f"{SRC}: read_constant: arm for {kd} does not read a {w}")
        if kd == "bool" and not re.search(r"read_u8\(\)\?\s*!=\s*0", seg):
            raise ExtractError(f"{SRC}: read_constant: bool payload test `!= 0` not recognised")
        if kd == "string":
            ml = re.search(r"if\s+len\s*>\s*(MAX_\w+)\s*\{\s*return\s+Err\(BinaryError::LimitExceeded", seg)
            if not ml:
                raise ExtractError(f"{SRC}: read_constant: string length guard missing")
            strlim = ml.group(1)
            p_guard, p_alloc = seg.find("if len >"), seg.find("vec![0u8; len]")
            if p_alloc < 0 or p_guard > p_alloc or "InvalidUtf8" not in seg:
                raise ExtractError(f"{SRC}: read_constant: string arm shape (guard before allocation, utf8 check) not recognised")
        if kd == "ptr":
            mp = re.search(r"let\s+raw\s*=\s*self\.read_u64\(\)\?\s*;\s*if\s+raw\s*>\s*(MAX_\w+)\s*\{\s*return\s+Err\(BinaryError::InvalidPointer\(raw\)\);\s*\}\s*let\s+ptr\s*=\s*raw\s+as\s+usize\s*;", seg)
            if not mp:
                raise ExtractError(f"{SRC}: read_constant: pointer payload guard (`if raw > MAX_POINTER_PAYLOAD`) before Value::ptr not recognised")
            ptrlim = mp.group(1)
        tags[kd] = int(a.group(1))
    missing = [k for k, _, _ in RCONST_KINDS if k not in tags]
    if missing:
        raise ExtractError(f"{SRC}: read_constant: no arm for {missing}")
    return tags, strlim, ptrlim


WCHECK_SHAPE = [
    ("DEPTH", "depth", "function nesting depth"),
    ("NAME_LEN", "name_len", "function name length"),
    ("CONSTS", "func.constants.len()", "constants"),
    ("CODE", "func.bytecode.len()", "bytecode length"),
    ("NESTED", "func.nested_functions.len()", "nested functions"),
    ("UPVALS", "func.upvalue_descriptors.len()", "upvalue descriptors"),
    ("LINES", "func.lines.len()", "line info entries"),
    ("GLOBALS", "names.len()", "global names"),
    ("GLOBAL_NAME_LEN", "name.len()", "global name length"),
    ("STRING_LEN", "s.as_bytes().len()", "string length"),
]


def coq_limit_expr(e, consts):
    """MAX_A.min(MAX_B) | MAX_A  ->  Coq term"""
    e = norm(e)
    m = re.fullmatch(r"(MAX_\w+)\.min\((MAX_\w+)\)", e)
    names = [m.group(1), m.group(2)] if m else [e]
    for n in names:
        if n not in consts:
            raise ExtractError(f"{SRC}: check_function: limit {n!r} is not one of the MAX_* constants")
    return f"N.min {names[0]} {names[1]}" if m else names[0]


def writer_checks(text, consts):
    """check_function: which expression is compared with which limit, in the code's order"""
    body = fn_body(text, "check_function")
    calls = [(norm(a), norm(b), c) for a, b, c in
             re.findall(r"check_len\(\s*([^,]+?),\s*([^,]+?),\s*\"([^\"]+)\",?\s*\)\?", body, flags=re.S)]
    by_what = {c: (a, b) for a, b, c in calls}
    missing = [w for _, _, w in WCHECK_SHAPE if w not in by_what]
    if missing:
        raise ExtractError(f"{SRC}: check_function: no check for {missing}")
    first_diff([f"{a} :: {c}" for a, _, c in calls], [f"{a} :: {c}" for _, a, c in WCHECK_SHAPE], "check_function")
    cl = norm(fn_body(text, "check_len"))
    soft(cl == "if len > limit { return Err(BinaryError::LimitExceeded { what, limit }); } Ok(())", f"{SRC}: check_len changed shape: {cl!r}")
    nb = norm(body)
    for need, what in [
        ("constant.as_nested_fn_marker()", "nested-function marker check"),
        ("InvalidNestedFunctionIndex", "nested-function marker check"),
        ("check_function(nested, heap, depth + 1)?", "recursion into nested functions"),
    ]:
        soft(need in nb, f"{SRC}: check_function: {what} not recognised")
    soft("check_function(func, heap, 0)?" in norm(fn_body(text, "try_serialize")), f"{SRC}: try_serialize does not validate first")
    soft("check_function(func, heap, 0)?" in norm(fn_body(text, "try_serialize_with_manifest")), f"{SRC}: try_serialize_with_manifest does not validate first")
    return {key: coq_limit_expr(by_what[w][1], consts) for key, _, w in WCHECK_SHAPE}


def header_shape(text):
    wp = norm(fn_body(text, "write_program"))
    want_w = ("self.write_bytes(MAGIC); self.write_u16(VERSION); self.write_u16(0); let func_count = count_functions(func); "
              "self.write_u32(func_count as u32); self.write_u32(0); self.write_function(func, heap);")
    if wp != want_w:
        WARNINGS.append(f"{SRC}: write_program changed shape: {wp!r}")
    rp = norm(fn_body(text, "read_program"))
    want_r = ("let mut magic = [0u8; 4]; self.cursor.read_exact(&mut magic)?; if &magic != MAGIC { return Err(BinaryError::InvalidMagic); } "
              "let version = self.read_u16()?; if version != VERSION { return Err(BinaryError::UnsupportedVersion(version)); } "
              "let _flags = self.read_u16()?; let _func_count = self.read_u32()?; let _reserved = self.read_u32()?; "
              "let func = self.read_function(0)?; Ok((func, self.heap))")
    if rp != want_r:
        WARNINGS.append(f"{SRC}: read_program changed shape: {rp!r}")
    rps = norm(fn_body(text, "read_program_with_sections"))
    want_rs = want_r.replace("Ok((func, self.heap))", "let (manifest, bundles) = self.read_sections()?; Ok((func, self.heap, manifest, bundles))")
    if rps != want_rs:
        WARNINGS.append(f"{SRC}: read_program_with_sections changed shape: {rps!r}")
    for ty, n in (("u8", 1), ("u16", 2), ("u32", 4), ("u64", 8), ("i64", 8), ("f64", 8)):
        b = norm(fn_body(text, "read_" + ty))
        if b != f"let mut buf = [0u8; {n}]; self.cursor.read_exact(&mut buf)?; Ok({'buf[0]' if ty == 'u8' else ty + '::from_le_bytes(buf)'})":
            WARNINGS.append(f"{SRC}: read_{ty} changed shape: {b!r}")
        w = norm(fn_body(text, "write_" + ty))
        if w != ("self.buffer.push(v);" if ty == "u8" else "self.buffer.extend_from_slice(&v.to_le_bytes());"):
            WARNINGS.append(f"{SRC}: write_{ty} changed shape: {w!r}")
    mk = norm(fn_body(text, "validate_func_markers"))
    if "constant.as_nested_fn_marker()" not in mk or "func_idx >= nested_count" not in mk or "InvalidNestedFunctionIndex" not in mk:
        WARNINGS.append(f"{SRC}: validate_func_markers changed shape")


@extract.register("AvbcLayout")
def gen_avbc_layout():
    del WARNINGS[:]
    raw = rd(SRC)
    text = strip_comments(raw)
    mm = re.search(r"pub\s+const\s+MAGIC\s*:\s*&\[u8;\s*4\]\s*=\s*b\"([^\"]{4})\"\s*;", text)
    if not mm:
        raise ExtractError(f"{SRC}: MAGIC not recognised")
    magic = [ord(c) for c in mm.group(1)]
    maxes = ["MAX_BYTECODE_LEN", "MAX_CONSTANTS", "MAX_NESTED_FUNCTIONS", "MAX_UPVALUE_DESCRIPTORS", "MAX_LINES",
             "MAX_GLOBAL_NAMES", "MAX_STRING_LEN", "MAX_NESTING_DEPTH", "MAX_SECTION_LEN", "MAX_POINTER_PAYLOAD", "MAX_U16_FIELD"]
    c = consts_of(text, ["VERSION"] + maxes)
    header_shape(text)
    wf = fn_body(text, "write_function")
    first_diff(writer_tokens(wf), WRITER_SHAPE, "write_function")
    op_mono, op_rew, sk_mono, op_cg, sk_cg = writer_opcodes(wf)
    wtags = writer_tags(fn_body(text, "write_constant"))
    rtoks, limits = reader_tokens(fn_body(text, "read_function"))
    first_diff(rtoks, READER_SHAPE, "read_function")
    rtags, strlim, ptrlim = reader_tags(fn_body(text, "read_constant"))
    lim = {}
    for what, key in LIMIT_KEYS.items():
        if what not in limits:
            raise ExtractError(f"{SRC}: read_function: limit check for {what!r} is missing")
        lim[key] = limits[what]
    lim["STRING_LEN"] = strlim
    lim["PTR"] = ptrlim
    for v in lim.values():
        if v not in c:
            raise ExtractError(f"{SRC}: limit constant {v} is not one of the MAX_* constants")
    out = [HEADER.format(src=SRC), "From Coq Require Import NArith List.\nImport ListNotations.\nLocal Open Scope N_scope.\n"]
    out.append("Definition MAGIC : list N := [%s].\n" % "; ".join(str(b) for b in magic))
    out.append(f"Definition VERSION : N := {c['VERSION'][0]}.\n")
    for n in maxes:
        out.append(f"Definition {n} : N := {c[n][0]}.\n")
    out.append("(* which limit guards which count in read_function / read_constant *)\n")
    for key in ["DEPTH", "NAME_LEN", "CONSTS", "CODE", "NESTED", "UPVALS", "LINES", "GLOBALS", "GLOBAL_NAME_LEN", "STRING_LEN", "PTR"]:
        out.append(f"Definition LIM_{key} : N := {lim[key]}.\n")
    wl = writer_checks(text, c)
    out.append("(* what the writer refuses to write (check_function), in its order *)\n")
    for key, _, _ in WCHECK_SHAPE:
        out.append(f"Definition WLIM_{key} : N := {wl[key]}.\n")
    out.append("(* constant tags: as written by write_constant / as accepted by read_constant *)\n")
    for k in ["null", "bool", "int", "float", "string", "func", "ptr"]:
        out.append(f"Definition TAGW_{k.upper()} : N := {wtags[k]}.\n")
    for k in ["null", "bool", "int", "float", "string", "func", "ptr"]:
        out.append(f"Definition TAGR_{k.upper()} : N := {rtags[k]}.\n")
    out.append("(* cache stripping in write_function *)\n")
    out.append(f"Definition OP_MONO : N := {op_mono}.\nDefinition OP_REWRITE : N := {op_rew}.\nDefinition SKIP_MONO : N := {sk_mono}.\n")
    out.append(f"Definition OP_CG : N := {op_cg}.\nDefinition SKIP_CG : N := {sk_cg}.\n")
    import json, os
    with open(os.path.join(extract.OUT, "AvbcLayout.warnings.json"), "w") as fh:
        json.dump(WARNINGS, fh)
    return write_if_changed("AvbcLayout.v", "".join(out))
