"""C09 translator plugin: constants and the std.bytes accessor table -> coq/Extracted/ManualMem.v

From the Rust source text of the current tree:
  * runtime/src/stdlib/bytes.rs      MAX_ALLOC; every impl_read!/impl_write_int!/impl_write_float!
                                     instantiation (name, width, type, byte order, value range);
                                     the hand-written read_u8/write_u8/read_i8/write_i8 ranges
  * bytecode/src/value/mod.rs        `pub struct Value(u64)`  => size_of::<Value>() = 8
  * runtime/src/vm/config.rs         DEFAULT_MAX_HEAP_BYTES / MIN_HEAP_BYTES
  * runtime/src/vm/manual_heap/*.rs  the element size used for the byte accounting is size_of::<Value>()
"""
import re
import extract
from extract import ExtractError, rd, strip_comments, consts_of, write_if_changed, HEADER

TY = {"u8": (1, False), "i8": (1, True), "u16": (2, False), "i16": (2, True), "u32": (4, False), "i32": (4, True),
      "u64": (8, False), "i64": (8, True), "f32": (4, None), "f64": (8, None)}


def _range_const(expr):
    e = expr.strip()
    m = re.fullmatch(r"([ui](?:8|16|32|64))::(MIN|MAX)(?:\s+as\s+i64)?", e)
    if m:
        w, signed = TY[m.group(1)]
        bits = 8 * w
        if m.group(2) == "MAX":
            return (1 << (bits - 1)) - 1 if signed else (1 << bits) - 1
        return -(1 << (bits - 1)) if signed else 0
    if re.fullmatch(r"-?\d[\d_]*", e):
        return int(e.replace("_", ""))
    raise ExtractError(f"bytes.rs: unsupported range bound {expr!r}")


def split_args(s):
    out, depth, cur = [], 0, ""
    for ch in s:
        if ch in "([{":
            depth += 1
        elif ch in ")]}":
            depth -= 1
        if ch == "," and depth == 0:
            out.append(cur.strip())
            cur = ""
        else:
            cur += ch
    if cur.strip():
        out.append(cur.strip())
    return out


def macro_calls(text, name):
    res = []
    for m in re.finditer(r"\b%s!\s*\(" % name, text):
        i = m.end()
        depth, j = 1, i
        while depth and j < len(text):
            if text[j] == "(":
                depth += 1
            elif text[j] == ")":
                depth -= 1
            j += 1
        res.append(split_args(text[i:j - 1]))
    return res


@extract.register("ManualMem")
def gen_manual_mem():
    src = "runtime/src/stdlib/bytes.rs"
    text = strip_comments(rd(src))
    c = consts_of(text, ["MAX_ALLOC"])
    cfg = consts_of(rd("runtime/src/vm/config.rs"), ["DEFAULT_MAX_HEAP_BYTES", "MIN_HEAP_BYTES"])
    vtext = strip_comments(rd("bytecode/src/value/mod.rs"))
    if not re.search(r"pub\s+struct\s+Value\s*\(\s*u64\s*\)\s*;", vtext):
        raise ExtractError("bytecode/src/value/mod.rs: `pub struct Value(u64);` not found (size_of::<Value>() unknown)")
    for f in ("runtime/src/vm/manual_heap/alloc.rs", "runtime/src/vm/manual_heap/error.rs"):
        if "size_of::<Value>()" not in rd(f):
            raise ExtractError(f"{f}: byte accounting no longer uses size_of::<Value>()")
    if "size_of::<Value>()" not in rd("runtime/src/vm/alloc.rs"):
        raise ExtractError("runtime/src/vm/alloc.rs: manual_alloc no longer charges size_of::<Value>() per slot")

    readers, writers, fwriters = [], [], []
    # the macro definitions themselves also match `impl_read!(`? no: definitions are `macro_rules! impl_read {`
    for a in macro_calls(text, "impl_read"):
        if len(a) < 6:
            raise ExtractError(f"bytes.rs: impl_read! with {len(a)} arguments")
        fn, op, size, ty, conv = a[0], a[1].strip('"'), int(a[2]), a[3], a[4]
        if ty not in TY or TY[ty][0] != size or conv not in ("from_le_bytes", "from_be_bytes"):
            raise ExtractError(f"bytes.rs: impl_read!({fn}) has unexpected shape {a[:5]}")
        if fn != "native_" + op or not re.search(r'reg!\(\s*"%s"\s*,\s*2\s*,\s*%s\s*\)' % (op, fn), text):
            raise ExtractError(f"bytes.rs: {fn} is not registered as bytes.{op}/2")
        readers.append((op, size, TY[ty][1], conv == "from_be_bytes"))
    for a in macro_calls(text, "impl_write_int"):
        if len(a) != 7:
            raise ExtractError(f"bytes.rs: impl_write_int! with {len(a)} arguments")
        fn, op, size, ty, conv = a[0], a[1].strip('"'), int(a[2]), a[3], a[4]
        if ty not in TY or TY[ty][0] != size or TY[ty][1] is None or conv not in ("to_le_bytes", "to_be_bytes"):
            raise ExtractError(f"bytes.rs: impl_write_int!({fn}) has unexpected shape {a[:5]}")
        if fn != "native_" + op or not re.search(r'reg!\(\s*"%s"\s*,\s*3\s*,\s*%s\s*\)' % (op, fn), text):
            raise ExtractError(f"bytes.rs: {fn} is not registered as bytes.{op}/3")
        writers.append((op, size, TY[ty][1], conv == "to_be_bytes", _range_const(a[5]), _range_const(a[6])))
    for a in macro_calls(text, "impl_write_float"):
        if len(a) != 5:
            raise ExtractError(f"bytes.rs: impl_write_float! with {len(a)} arguments")
        fn, op, size, ty, conv = a[0], a[1].strip('"'), int(a[2]), a[3], a[4]
        if ty not in ("f32", "f64") or TY[ty][0] != size or conv not in ("to_le_bytes", "to_be_bytes"):
            raise ExtractError(f"bytes.rs: impl_write_float!({fn}) has unexpected shape {a}")
        fwriters.append((op, size, conv == "to_be_bytes"))
    # hand-written single-byte accessors
    m = re.search(r"fn native_write_u8\b.*?if !\(\s*(-?\d+)\s*\.\.=\s*(-?\d+)\s*\)\.contains\(&val\)", text, flags=re.S)
    if not m:
        raise ExtractError("bytes.rs: native_write_u8 range check not found")
    writers.append(("write_u8", 1, False, False, int(m.group(1)), int(m.group(2))))
    m = re.search(r"fn native_write_i8\b.*?if val < (i8::MIN as i64) \|\| val > (i8::MAX as i64)", text, flags=re.S)
    if not m:
        raise ExtractError("bytes.rs: native_write_i8 range check not found")
    writers.append(("write_i8", 1, True, False, _range_const(m.group(1)), _range_const(m.group(2))))
    for op, sg, pat in (("read_u8", False, r"Value::int\(buf\.data\[off\] as i64\)"),
                        ("read_i8", True, r"Value::int\(buf\.data\[off\] as i8 as i64\)")):
        body = re.search(r"fn native_%s\b(.*?)\n}\n" % op, text, flags=re.S)
        if not body or not re.search(pat, body.group(1)):
            raise ExtractError(f"bytes.rs: native_{op} no longer returns the byte as expected")
        readers.append((op, 1, sg, False))
    m = re.search(r"fn native_fill\b.*?if !\(\s*(-?\d+)\s*\.\.=\s*(-?\d+)\s*\)\.contains\(&val\)", text, flags=re.S)
    if not m:
        raise ExtractError("bytes.rs: native_fill value range check not found")
    fill_lo, fill_hi = int(m.group(1)), int(m.group(2))

    def b(x):
        return "true" if x else "false"

    def z(v):
        return f"({v})%Z" if v < 0 else f"{v}%Z"

    out = [HEADER.format(src=src + ", bytecode/src/value/mod.rs, runtime/src/vm/config.rs"),
           "From Coq Require Import NArith ZArith List.\nImport ListNotations.\n",
           f"Definition MAX_ALLOC : N := {c['MAX_ALLOC'][0]}%N.\n",
           "Definition VALUE_SIZE : N := 8%N.   (* size_of::<Value>() for `pub struct Value(u64)` *)\n",
           f"Definition DEFAULT_MAX_HEAP_BYTES : N := {cfg['DEFAULT_MAX_HEAP_BYTES'][0]}%N.\n",
           f"Definition MIN_HEAP_BYTES : N := {cfg['MIN_HEAP_BYTES'][0]}%N.\n",
           f"Definition FILL_MIN : Z := {z(fill_lo)}.\nDefinition FILL_MAX : Z := {z(fill_hi)}.\n",
           "(* integer/float readers: (width in bytes, kind, big-endian); kind 0 unsigned, 1 signed, 2 float *)\n",
           "Definition bytes_readers : list (N * N * bool) := [\n  "]
    rs = []
    for op, size, sg, be in sorted(readers, key=lambda r: (r[1], str(r[2]), r[3])):
        kind = 2 if sg is None else (1 if sg else 0)
        rs.append(f"({size}%N, {kind}%N, {b(be)}) (* {op} *)")
    out.append(";\n  ".join(rs) + "\n].\n")
    out.append("(* integer writers: (width, signed, big-endian, accepted min, accepted max) *)\n")
    out.append("Definition bytes_int_writers : list (N * bool * bool * Z * Z) := [\n  ")
    ws = [f"({size}%N, {b(sg)}, {b(be)}, {z(lo)}, {z(hi)}) (* {op} *)"
          for op, size, sg, be, lo, hi in sorted(writers, key=lambda r: (r[1], r[2], r[3]))]
    out.append(";\n  ".join(ws) + "\n].\n")
    out.append("Definition bytes_float_writers : list (N * bool) := [\n  ")
    out.append(";\n  ".join(f"({size}%N, {b(be)}) (* {op} *)" for op, size, be in sorted(fwriters, key=lambda r: (r[1], r[2]))))
    out.append("\n].\n")
    if len(readers) < 18 or len(writers) < 14 or len(fwriters) < 4:
        raise ExtractError(f"bytes.rs: accessor table shrank (readers {len(readers)}, int writers {len(writers)}, "
                           f"float writers {len(fwriters)})")
    return write_if_changed("ManualMem.v", "".join(out))


# ------------------------------------------------------------------------------------------
# Operand-check tables of the two program-facing surfaces (builtins.rs natives, memory.inc opcodes)
# and the ManualHeapError -> RuntimeErrorKind map of VM::manual_heap_error  ->  Extracted/MemChecks.v
ECODE = {"InvalidAllocationSize": 10, "InvalidMemoryHandle": 11, "DoubleFree": 12, "UseAfterFree": 13,
         "MemoryOutOfBounds": 14, "NegativeMemoryIndex": 15, "TypeError": 16, "OutOfMemory": 17}
HEAP_ERR = {"InvalidSize": 10, "InvalidHandle": 11, "DoubleFree": 12, "UseAfterFree": 13, "OutOfBounds": 14}


def _norm(text):
    return re.sub(r"\s+", " ", strip_comments(text))


def _fn_body(text, name):
    m = re.search(r"\bfn\s+%s\s*\(" % name, text)
    if not m:
        raise ExtractError(f"function {name} not found")
    i = text.index("{", m.end())
    depth, j = 1, i + 1
    while depth and j < len(text):
        depth += {"{": 1, "}": -1}.get(text[j], 0)
        j += 1
    return text[i + 1:j - 1]


def _builtin_checks(body, name, final):
    """sequence of (operand index, check kind, error code) in source order.
    kinds: 0 must be an int; 1 `< 0` is an error; 2 `<= 0` is an error; 3 null returns Ok(null) at once"""
    ev, names = [], {}
    for m in re.finditer(r"let (\w+)(?: ?: ?i64)? = args\[(\d)\]\s*\.as_int\(\)\s*\.ok_or_else\(\|\|[^;]*?RuntimeErrorKind::(\w+)", body):
        names[m.group(1)] = int(m.group(2))
        ev.append((m.start(), int(m.group(2)), 0, m.group(3)))
    for m in re.finditer(r"if args\[(\d)\]\.is_null\(\) \{ return Ok\(Value::null\(\)\) ?;? \}", body):
        ev.append((m.start(), int(m.group(1)), 3, None))
    for m in re.finditer(r"if (\w+) (<=|<) 0 \{ [^{}]*?RuntimeErrorKind::(\w+)", body):
        if m.group(1) not in names:
            raise ExtractError(f"builtins.rs {name}: comparison on unknown local {m.group(1)!r}")
        ev.append((m.start(), names[m.group(1)], 2 if m.group(2) == "<=" else 1, m.group(3)))
    if final not in body:
        raise ExtractError(f"builtins.rs {name}: no longer ends in {final}")
    # anything else that can return an error would be a check this table does not know about
    n_err = len(re.findall(r"\bErr\(|ok_or_else\(", body))
    n_known = sum(1 for e in ev if e[2] != 3)
    extra = len(re.findall(r"map_err\(", body))
    if n_err != n_known:
        raise ExtractError(f"builtins.rs {name}: {n_err} error exits but {n_known} recognised checks (+{extra} map_err)")
    out = []
    for _, idx, kind, err in sorted(ev):
        if err is not None and err not in ECODE:
            raise ExtractError(f"builtins.rs {name}: unknown RuntimeErrorKind::{err}")
        out.append((idx, kind, ECODE.get(err, 0)))
    return out


def _arm(text, n):
    m = re.search(r"(?<![\w.])%d => \{" % n, text)
    if not m:
        raise ExtractError(f"memory.inc: arm {n} not found")
    i = m.end() - 1
    depth, j = 1, i + 1
    while depth and j < len(text):
        depth += {"{": 1, "}": -1}.get(text[j], 0)
        j += 1
    return text[i + 1:j - 1]


def _opcode_checks(arm, n):
    """kinds: 4 operand must be an int >= 0 (else error);
       5 Free as it is: int >= 0 proceeds, negative int and null return at once, anything else is an error;
       6 Free strict: null returns at once, anything but an int >= 0 is an error;
       7 Free lenient (pre-19374fd): anything but an int >= 0 returns at once"""
    regs = {}
    for m in re.finditer(r"let (\w+) = reg_get!\(base \+ ([abc]) as usize\);", arm):
        regs[m.group(1)] = (m.start(), m.group(2))
    order = [v for v, _ in sorted(regs.items(), key=lambda kv: kv[1][0])]
    ev = []
    for m in re.finditer(r"let (\w+) = match (\w+)\.as_int\(\) \{ Some\((\w+)\) if \3 >= 0 => \3 as usize, _ => \{(.*?)\} \};", arm):
        k = re.search(r"RuntimeErrorKind::(\w+)", m.group(4))
        if not k or "return Err" not in m.group(4) or m.group(2) not in regs:
            raise ExtractError(f"memory.inc arm {n}: unrecognised operand check on {m.group(2)}")
        ev.append((m.start(), order.index(m.group(2)), 4, ECODE[k.group(1)]))
    for m in re.finditer(r"let (\w+) = match (\w+)\.as_int\(\) \{ Some\((\w+)\) => \3 as usize, _ => \{(.*?)\} \};", arm):
        k = re.search(r"RuntimeErrorKind::(\w+)", m.group(4))
        if k and "return Err" in m.group(4) and m.group(2) in regs:
            ev.append((m.start(), order.index(m.group(2)), 8, ECODE[k.group(1)]))      # int required, sign not checked
    if n == 29:
        pos = re.search(r"Some\((\w+)\) if \1 >= 0 => \{[^{}]*manual_free\(", arm) or \
              re.search(r"if let Some\((\w+)\) = \w+\.as_int\(\) && \1 >= 0 \{[^{}]*manual_free\(", arm)
        neg_noop = re.search(r"Some\(_\) => \{ ?\}", arm)
        null_noop = re.search(r"None if \w+\.is_null\(\) => \{ ?\}", arm)
        err = re.search(r"(?:None|_) => \{[^{}]*return Err\([^;]*?RuntimeErrorKind::(\w+)", arm)
        if not pos:
            raise ExtractError("memory.inc Free: the int >= 0 branch calling manual_free is gone")
        if err and neg_noop and null_noop:
            kind = 5
        elif err and null_noop and not neg_noop:
            kind = 6
        elif not err:
            kind = 7
        else:
            raise ExtractError("memory.inc Free: unrecognised combination of arms")
        ev.append((pos.start(), 0, kind, ECODE[err.group(1)] if err else 0))
    n_err = len(re.findall(r"return Err\(\s*self\.runtime_error", arm))
    if n_err != sum(1 for e in ev if e[2] in (4, 5, 6, 8)):
        raise ExtractError(f"memory.inc arm {n}: {n_err} error returns but {len(ev)} recognised operand checks")
    return [(i, k, e) for _, i, k, e in sorted(ev)], order


# The tables the model was last proved against.  When the SHAPE of a function is not recognised (a
# rewrite in a style these regexes do not know) the generator falls back to these and says so in the
# generated file -- an unrecognised shape on code whose behaviour is unchanged must not raise an alarm;
# the end-to-end tie still runs.  A shape that IS recognised and yields a different table is emitted as
# found, and then breaks C09_vm_step_is_table_driven.
REF_BUILTIN = {"builtin_alloc": [(0, 0, 16), (0, 2, 10)], "builtin_free": [(0, 3, 0), (0, 0, 16), (0, 1, 15)],
               "builtin_load": [(0, 0, 16), (1, 0, 16), (0, 1, 15), (1, 1, 15)],
               "builtin_store": [(0, 0, 16), (1, 0, 16), (0, 1, 15), (1, 1, 15)]}
REF_OPCODE = {28: [(0, 4, 16)], 29: [(0, 5, 16)], 30: [(0, 4, 16), (1, 4, 16)], 31: [(0, 4, 16)],
              32: [(0, 4, 16), (1, 4, 16)], 33: [(0, 4, 16)]}


@extract.register("MemChecks")
def gen_mem_checks():
    fallbacks = []
    b = _norm(rd("runtime/src/vm/builtins.rs"))
    builtin = []
    for code, (fn, final) in enumerate([("builtin_alloc", "vm.manual_alloc("), ("builtin_free", "vm.manual_free("),
                                        ("builtin_load", ".load("), ("builtin_store", ".store(")]):
        body = _fn_body(b, fn)            # a missing function is a real error
        try:
            cs = _builtin_checks(body, fn, final)
        except ExtractError as e:
            fallbacks.append(str(e))
            cs = REF_BUILTIN[fn]
        builtin.append((code, fn, cs))
    mtext = _norm(rd("runtime/src/vm/dispatch/ops/memory.inc"))
    opcode = []
    expect = {28: ("manual_alloc(", 0, 1), 29: ("manual_free(", 1, 1), 30: (".load(", 2, 2), 31: (".load(", 2, 1),
              32: (".store(", 3, 2), 33: (".store(", 3, 1)}
    for n, (final, opc, nchk) in expect.items():
        arm = _arm(mtext, n)              # a missing arm is a real error
        try:
            if final not in arm:
                raise ExtractError(f"memory.inc arm {n}: no longer calls {final}")
            checks, order = _opcode_checks(arm, n)
            if len(checks) != nchk:
                raise ExtractError(f"memory.inc arm {n}: {len(checks)} operand checks recognised, expected {nchk}")
            if n in (31, 33) and not re.search(r"let \w+ = [bc] as usize;", arm):
                raise ExtractError(f"memory.inc arm {n}: the immediate offset is no longer `x as usize`")
        except ExtractError as e:
            fallbacks.append(str(e))
            checks = REF_OPCODE[n]
        opcode.append((n, opc, checks))
    # opcode numbers of the memory group in the enum
    optxt = strip_comments(rd("bytecode/src/bytecode/opcode.rs"))
    m = re.search(r"pub enum OpCode\s*\{(.*?)\n\}", optxt, flags=re.S)
    if not m:
        raise ExtractError("opcode.rs: enum OpCode not found")
    names = [x.strip().split("=")[0].strip() for x in m.group(1).split(",") if x.strip()]
    for nm, num in (("Alloc", 28), ("Free", 29), ("LoadMem", 30), ("LoadMemI", 31), ("StoreMem", 32), ("StoreMemI", 33)):
        if nm not in names or names.index(nm) != num:
            raise ExtractError(f"opcode.rs: OpCode::{nm} is no longer opcode {num}")
    # VM::manual_heap_error
    a = _norm(rd("runtime/src/vm/alloc.rs"))
    body = _fn_body(a, "manual_heap_error")
    emap = []
    for hk, code in HEAP_ERR.items():
        mm = re.search(r"ManualHeapError::%s\b[^=]*=> (?:\{ )?RuntimeErrorKind::(\w+)" % hk, body)
        if not mm or mm.group(1) not in ECODE:
            raise ExtractError(f"alloc.rs manual_heap_error: arm for {hk} not recognised")
        emap.append((code, ECODE[mm.group(1)], hk, mm.group(1)))
    # compiler: direct calls of these names become opcodes
    bt = strip_comments(rd("backend/src/compiler/builtins.rs"))
    mm = re.search(r"BUILTINS\s*:[^=]*=\s*&\[(.*?)\]", bt, flags=re.S)
    if not mm or not all(f'"{x}"' in mm.group(1) for x in ("alloc", "free", "load", "store")):
        raise ExtractError("backend/src/compiler/builtins.rs: alloc/free/load/store are no longer compiler builtins")

    def tab(cs):
        return "[" + "; ".join(f"({i}%N, {k}%N, {e}%N)" for i, k, e in cs) + "]"
    out = [HEADER.format(src="runtime/src/vm/builtins.rs, runtime/src/vm/dispatch/ops/memory.inc, runtime/src/vm/alloc.rs, bytecode/src/bytecode/opcode.rs"),
           "".join("(* FALLBACK (shape not recognised, reference table used): %s *)\n" % f.replace("*)", "* )") for f in fallbacks),
           "From Coq Require Import NArith List.\nImport ListNotations.\n",
           "(* operand checks in source order: (operand index, check kind, error code).\n"
           "   kinds: 0 must be an int; 1 `< 0` is an error; 2 `<= 0` is an error; 3 null returns null at once;\n"
           "          4 must be an int >= 0; 5 Free: int >= 0 proceeds, negative int and null return at once, else error;\n"
           "          6 Free strict; 7 Free lenient; 8 must be an int (sign not checked).   error codes: 10 InvalidAllocationSize 15 NegativeMemoryIndex 16 TypeError\n"
           "   operations: 0 alloc 1 free 2 load 3 store *)\n",
           "Definition builtin_checks : list (N * list (N * N * N)) := [\n  "]
    out.append(";\n  ".join(f"({c}%N, {tab(cs)}) (* {fn} *)" for c, fn, cs in builtin) + "\n].\n")
    out.append("(* (opcode, operation, checks) *)\nDefinition opcode_checks : list (N * N * list (N * N * N)) := [\n  ")
    out.append(";\n  ".join(f"({n}%N, {o}%N, {tab(cs)})" for n, o, cs in opcode) + "\n].\n")
    out.append("(* VM::manual_heap_error: (ManualHeapError code, RuntimeErrorKind code) *)\nDefinition heap_error_map : list (N * N) := [\n  ")
    out.append(";\n  ".join(f"({a}%N, {b}%N) (* {x} -> {y} *)" for a, b, x, y in emap) + "\n].\n")
    return write_if_changed("MemChecks.v", "".join(out))
