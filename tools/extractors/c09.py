"""C09 translator plugin: constants and the std.bytes accessor table -> coq/Extracted/ManualMem.v

From the Rust source text of the current tree:
  * runtime/src/stdlib/bytes.rs      MAX_ALLOC; every impl_read!/impl_write_int!/impl_write_float!
                                     instantiation (name, width, type, byte order, value range);
                                     the hand-written read_u8/write_u8/read_i8/write_i8 ranges
  * bytecode/src/value/mod.rs        `pub struct Value(u64)`  => size_of::<Value>() = 8
  * runtime/src/vm/config.rs         DEFAULT_MAX_HEAP_BYTES / MIN_HEAP_BYTES
  * runtime/src/vm/manual_heap/*.rs  the element size used for the byte accounting is size_of::<Value>()
"""
import re
import extract
from extract import ExtractError, rd, strip_comments, consts_of, write_if_changed, HEADER

TY = {"u8": (1, False), "i8": (1, True), "u16": (2, False), "i16": (2, True), "u32": (4, False), "i32": (4, True),
      "u64": (8, False), "i64": (8, True), "f32": (4, None), "f64": (8, None)}


def _range_const(expr):
    e = expr.strip()
    m = re.fullmatch(r"([ui](?:8|16|32|64))::(MIN|MAX)(?:\s+as\s+i64)?", e)
    if m:
        w, signed = TY[m.group(1)]
        bits = 8 * w
        if m.group(2) == "MAX":
            return (1 << (bits - 1)) - 1 if signed else (1 << bits) - 1
        return -(1 << (bits - 1)) if signed else 0
    if re.fullmatch(r"-?\d[\d_]*", e):
        return int(e.replace("_", ""))
    raise ExtractError(f"bytes.rs: unsupported range bound {expr!r}")


def split_args(s):
    out, depth, cur = [], 0, ""
    for ch in s:
        if ch in "([{":
            depth += 1
        elif ch in ")]}":
            depth -= 1
        if ch == "," and depth == 0:
            out.append(cur.strip())
            cur = ""
        else:
            cur += ch
    if cur.strip():
        out.append(cur.strip())
    return out


def macro_calls(text, name):
    res = []
    for m in re.finditer(r"\b%s!\s*\(" % name, text):
        i = m.end()
        depth, j = 1, i
        while depth and j < len(text):
            if text[j] == "(":
                depth += 1
            elif text[j] == ")":
                depth -= 1
            j += 1
        res.append(split_args(text[i:j - 1]))
    return res


@extract.register("ManualMem")
def gen_manual_mem():
    src = "runtime/src/stdlib/bytes.rs"
    text = strip_comments(rd(src))
    c = consts_of(text, ["MAX_ALLOC"])
    cfg = consts_of(rd("runtime/src/vm/config.rs"), ["DEFAULT_MAX_HEAP_BYTES", "MIN_HEAP_BYTES"])
    vtext = strip_comments(rd("bytecode/src/value/mod.rs"))
    if not re.search(r"pub\s+struct\s+Value\s*\(\s*u64\s*\)\s*;", vtext):
        raise ExtractError("bytecode/src/value/mod.rs: `pub struct Value(u64);` not found (size_of::<Value>() unknown)")
    for f in ("runtime/src/vm/manual_heap/alloc.rs", "runtime/src/vm/manual_heap/error.rs"):
        if "size_of::<Value>()" not in rd(f):
            raise ExtractError(f"{f}: byte accounting no longer uses size_of::<Value>()")
    if "size_of::<Value>()" not in rd("runtime/src/vm/alloc.rs"):
        raise ExtractError("runtime/src/vm/alloc.rs: manual_alloc no longer charges size_of::<Value>() per slot")

    readers, writers, fwriters = [], [], []
    # the macro definitions themselves also match `impl_read!(`? no: definitions are `macro_rules! impl_read {`
    for a in macro_calls(text, "impl_read"):
        if len(a) < 6:
            raise ExtractError(f"bytes.rs: impl_read! with {len(a)} arguments")
        fn, op, size, ty, conv = a[0], a[1].strip('"'), int(a[2]), a[3], a[4]
        if ty not in TY or TY[ty][0] != size or conv not in ("from_le_bytes", "from_be_bytes"):
            raise ExtractError(f"bytes.rs: impl_read!({fn}) has unexpected shape {a[:5]}")
        if fn != "native_" + op or not re.search(r'reg!\(\s*"%s"\s*,\s*2\s*,\s*%s\s*\)' % (op, fn), text):
            raise ExtractError(f"bytes.rs: {fn} is not registered as bytes.{op}/2")
        readers.append((op, size, TY[ty][1], conv == "from_be_bytes"))
    for a in macro_calls(text, "impl_write_int"):
        if len(a) != 7:
            raise ExtractError(f"bytes.rs: impl_write_int! with {len(a)} arguments")
        fn, op, size, ty, conv = a[0], a[1].strip('"'), int(a[2]), a[3], a[4]
        if ty not in TY or TY[ty][0] != size or TY[ty][1] is None or conv not in ("to_le_bytes", "to_be_bytes"):
            raise ExtractError(f"bytes.rs: impl_write_int!({fn}) has unexpected shape {a[:5]}")
        if fn != "native_" + op or not re.search(r'reg!\(\s*"%s"\s*,\s*3\s*,\s*%s\s*\)' % (op, fn), text):
            raise ExtractError(f"bytes.rs: {fn} is not registered as bytes.{op}/3")
        writers.append((op, size, TY[ty][1], conv == "to_be_bytes", _range_const(a[5]), _range_const(a[6])))
    for a in macro_calls(text, "impl_write_float"):
        if len(a) != 5:
            raise ExtractError(f"bytes.rs: impl_write_float! with {len(a)} arguments")
        fn, op, size, ty, conv = a[0], a[1].strip('"'), int(a[2]), a[3], a[4]
        if ty not in ("f32", "f64") or TY[ty][0] != size or conv not in ("to_le_bytes", "to_be_bytes"):
            raise ExtractError(f"bytes.rs: impl_write_float!({fn}) has unexpected shape {a}")
        fwriters.append((op, size, conv == "to_be_bytes"))
    # hand-written single-byte accessors
    m = re.search(r"fn native_write_u8\b.*?if !\(\s*(-?\d+)\s*\.\.=\s*(-?\d+)\s*\)\.contains\(&val\)", text, flags=re.S)
    if not m:
        raise ExtractError("bytes.rs: native_write_u8 range check not found")
    writers.append(("write_u8", 1, False, False, int(m.group(1)), int(m.group(2))))
    m = re.search(r"fn native_write_i8\b.*?if val < (i8::MIN as i64) \|\| val > (i8::MAX as i64)", text, flags=re.S)
    if not m:
        raise ExtractError("bytes.rs: native_write_i8 range check not found")
    writers.append(("write_i8", 1, True, False, _range_const(m.group(1)), _range_const(m.group(2))))
    for op, sg, pat in (("read_u8", False, r"Value::int\(buf\.data\[off\] as i64\)"),
                        ("read_i8", True, r"Value::int\(buf\.data\[off\] as i8 as i64\)")):
        body = re.search(r"fn native_%s\b(.*?)\n}\n" % op, text, flags=re.S)
        if not body or not re.search(pat, body.group(1)):
            raise ExtractError(f"bytes.rs: native_{op} no longer returns the byte as expected")
        readers.append((op, 1, sg, False))
    m = re.search(r"fn native_fill\b.*?if !\(\s*(-?\d+)\s*\.\.=\s*(-?\d+)\s*\)\.contains\(&val\)", text, flags=re.S)
    if not m:
        raise ExtractError("bytes.rs: native_fill value range check not found")
    fill_lo, fill_hi = int(m.group(1)), int(m.group(2))

    def b(x):
        return "true" if x else "false"

    def z(v):
        return f"({v})%Z" if v < 0 else f"{v}%Z"

    out = [HEADER.format(src=src + ", bytecode/src/value/mod.rs, runtime/src/vm/config.rs"),
           "From Coq Require Import NArith ZArith List.\nImport ListNotations.\n",
           f"Definition MAX_ALLOC : N := {c['MAX_ALLOC'][0]}%N.\n",
           "Definition VALUE_SIZE : N := 8%N.   (* size_of::<Value>() for `pub struct Value(u64)` *)\n",
           f"Definition DEFAULT_MAX_HEAP_BYTES : N := {cfg['DEFAULT_MAX_HEAP_BYTES'][0]}%N.\n",
           f"Definition MIN_HEAP_BYTES : N := {cfg['MIN_HEAP_BYTES'][0]}%N.\n",
           f"Definition FILL_MIN : Z := {z(fill_lo)}.\nDefinition FILL_MAX : Z := {z(fill_hi)}.\n",
           "(* integer/float readers: (width in bytes, kind, big-endian); kind 0 unsigned, 1 signed, 2 float *)\n",
           "Definition bytes_readers : list (N * N * bool) := [\n  "]
    rs = []
    for op, size, sg, be in sorted(readers, key=lambda r: (r[1], str(r[2]), r[3])):
        kind = 2 if sg is None else (1 if sg else 0)
        rs.append(f"({size}%N, {kind}%N, {b(be)}) (* {op} *)")
    out.append(";\n  ".join(rs) + "\n].\n")
    out.append("(* integer writers: (width, signed, big-endian, accepted min, accepted max) *)\n")
    out.append("Definition bytes_int_writers : list (N * bool * bool * Z * Z) := [\n  ")
    ws = [f"({size}%N, {b(sg)}, {b(be)}, {z(lo)}, {z(hi)}) (* {op} *)"
          for op, size, sg, be, lo, hi in sorted(writers, key=lambda r: (r[1], r[2], r[3]))]
    out.append(";\n  ".join(ws) + "\n].\n")
    out.append("Definition bytes_float_writers : list (N * bool) := [\n  ")
    out.append(";\n  ".join(f"({size}%N, {b(be)}) (* {op} *)" for op, size, be in sorted(fwriters, key=lambda r: (r[1], r[2]))))
    out.append("\n].\n")
    if len(readers) < 18 or len(writers) < 14 or len(fwriters) < 4:
        raise ExtractError(f"bytes.rs: accessor table shrank (readers {len(readers)}, int writers {len(writers)}, "
                           f"float writers {len(fwriters)})")
    return write_if_changed("ManualMem.v", "".join(out))
