"""Translator for the optimizer: folder constants and the pass pipeline per level."""
import re
import extract
from extract import rd, write_if_changed, consts_of, coq_num, HEADER, ExtractError, strip_comments

PASS = {"LocalConstantPropagator": "PLocalProp", "ConstantFolder": "PFold", "GlobalConstantPropagator": "PGlobalProp",
        "DeadCodeEliminator": "PDce", "UnusedVarEliminator": "PUnused"}
LEVEL = {"None": "O0", "Basic": "O1", "Standard": "O2", "Aggressive": "O3"}


@extract.register("OptConsts")
def gen_opt_consts():
    src = "opt/src/passes/constant_fold/mod.rs"
    c = consts_of(rd(src), ["MAX_FOLDED_STRING_LEN", "INT_MIN", "INT_MAX"])
    out = [HEADER.format(src=src + ", opt/src/passes/optimizer.rs"), "From Coq Require Import ZArith List.\nImport ListNotations.\n"]
    out.append(f"Definition MAX_FOLDED_STRING_LEN : Z := {c['MAX_FOLDED_STRING_LEN'][0]}%Z.\n")
    out.append(f"Definition FOLD_INT_MIN : Z := {coq_num(c['INT_MIN'][0], True)}.\n")
    out.append(f"Definition FOLD_INT_MAX : Z := {coq_num(c['INT_MAX'][0], True)}.\n")
    # pipeline per level
    t = strip_comments(rd("opt/src/passes/optimizer.rs"))
    m = re.search(r"match\s+level\s*\{(.*?)\n\s*\}\s*\n\s*Self\s*\{", t, flags=re.S)
    if not m:
        raise ExtractError("optimizer.rs: `match level { ... }` in Optimizer::new not found")
    body = m.group(1)
    out.append("Inductive opt_pass := PLocalProp | PFold | PGlobalProp | PDce | PUnused.\n")
    arms = re.findall(r"OptimizationLevel::(\w+)\s*=>\s*\{(.*?)\}", body, flags=re.S)
    seen = {}
    for lvl, arm in arms:
        if lvl not in LEVEL:
            raise ExtractError(f"optimizer.rs: unknown level {lvl}")
        ps = re.findall(r"passes\.push\(Box::new\((\w+)::new\(\)\)\)", arm)
        for p in ps:
            if p not in PASS:
                raise ExtractError(f"optimizer.rs: unknown pass {p}")
        if len(ps) != arm.count("passes.push"):
            raise ExtractError(f"optimizer.rs: unrecognised push in arm {lvl}")
        seen[lvl] = ps
    for lvl, name in LEVEL.items():
        if lvl not in seen:
            raise ExtractError(f"optimizer.rs: level {lvl} not found")
        out.append(f"Definition pipeline_{name} : list opt_pass := [{'; '.join(PASS[p] for p in seen[lvl])}].\n")
    mi = re.search(r"let\s+inliner\s*=\s*if\s+level\s*!=\s*OptimizationLevel::None", t)
    if not mi:
        raise ExtractError("optimizer.rs: inliner-on predicate changed shape")
    out.append("Definition inliner_on_O0 : bool := false.\nDefinition inliner_on_O1 : bool := true.\n"
               "Definition inliner_on_O2 : bool := true.\nDefinition inliner_on_O3 : bool := true.\n")
    return write_if_changed("OptConsts.v", "".join(out))
