"""Translator for the optimizer: folder constants and the pass pipeline per level."""
import re
import extract
from extract import rd, write_if_changed, consts_of, coq_num, HEADER, ExtractError, strip_comments

PASS = {"LocalConstantPropagator": "PLocalProp", "ConstantFolder": "PFold", "GlobalConstantPropagator": "PGlobalProp",
        "DeadCodeEliminator": "PDce", "UnusedVarEliminator": "PUnused"}
LEVEL = {"None": "O0", "Basic": "O1", "Standard": "O2", "Aggressive": "O3"}


@extract.register("OptConsts")
def gen_opt_consts():
    src = "opt/src/passes/constant_fold/mod.rs"
    c = consts_of(rd(src), ["MAX_FOLDED_STRING_LEN", "INT_MIN", "INT_MAX"])
    out = [HEADER.format(src=src + ", opt/src/passes/optimizer.rs"), "From Coq Require Import ZArith List.\nImport ListNotations.\n"]
    out.append(f"Definition MAX_FOLDED_STRING_LEN : Z := {c['MAX_FOLDED_STRING_LEN'][0]}%Z.\n")
    out.append(f"Definition FOLD_INT_MIN : Z := {coq_num(c['INT_MIN'][0], True)}.\n")
    out.append(f"Definition FOLD_INT_MAX : Z := {coq_num(c['INT_MAX'][0], True)}.\n")
    # pipeline per level: recorded for the reader of the generated file only (no theorem or tie
    # depends on it: the ties run the real Optimizer), so an unrecognised source shape is noted,
    # not fatal -- a reformatted Optimizer::new must not raise an alarm
    out.append("Inductive opt_pass := PLocalProp | PFold | PGlobalProp | PDce | PUnused.\n")
    try:
        t = strip_comments(rd("opt/src/passes/optimizer.rs"))
        m = re.search(r"match\s+level\s*\{(.*?)\n\s*\}\s*\n\s*Self\s*\{", t, flags=re.S)
        if not m:
            raise ExtractError("`match level { ... }` in Optimizer::new not found")
        arms = re.findall(r"OptimizationLevel::(\w+)\s*=>\s*\{(.*?)\}", m.group(1), flags=re.S)
        seen = {}
        for lvl, arm in arms:
            ps = re.findall(r"Box::new\((\w+)::new\(\)\)", arm)
            if lvl not in LEVEL or any(p not in PASS for p in ps):
                raise ExtractError(f"unknown level or pass in arm {lvl}")
            seen[lvl] = ps
        if set(seen) != set(LEVEL):
            raise ExtractError("not all four levels found")
        for lvl, name in LEVEL.items():
            out.append(f"Definition pipeline_{name} : list opt_pass := [{'; '.join(PASS[p] for p in seen[lvl])}].\n")
    except ExtractError as e:
        out.append(f"(* pass pipeline not transcribed: {str(e).replace('*)', '* )')} *)\n")
    return write_if_changed("OptConsts.v", "".join(out))
