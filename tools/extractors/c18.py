"""C18 translator: the primitive (size, align) table of `layout_of` in air/src/layout.rs and the
variant list of `AirType` in air/src/lib.rs  ->  coq/Extracted/LayoutTable.v

The generated file defines the inductive `prim` (one constructor per non-recursive layout class
of AirType) and `prim_layout : prim -> N * N`.  The recursive variants (Array, Struct) and the
variants whose payload is ignored by layout (Ptr, Slice, FnPtr, Param) are checked to be
present with the shape the hand model in Model/Layout.v assumes; anything else (a new variant,
a non-constant arm) raises ExtractError so that the tie is reported as broken.
"""
import hashlib, json, os, re
import extract
from extract import ExtractError, rd, strip_comments, write_if_changed, HEADER, eval_const_expr

# AirType variant -> constructor of `prim` in the Coq model
PRIMS = ["I8", "I16", "I32", "I64", "U8", "U16", "U32", "U64", "F32", "F64", "Bool", "Str",
         "Ptr", "FnPtr", "Slice", "Param", "Void"]
RECURSIVE = ["Array", "Struct"]


def side_path(kind):
    """Files exchanged with tools/props/c18.py (executed table in, notes / phase order / message fragments out)."""
    tag = "repo" if extract.REPO == "/repo" else "r" + hashlib.sha1(extract.REPO.encode()).hexdigest()[:10]
    d = os.path.join(os.path.dirname(os.path.abspath(__file__)), "..", "..", ".cache")
    os.makedirs(d, exist_ok=True)
    return os.path.join(d, f"c18-{kind}-{tag}.json")


def _body_of(text, header_re, what):
    m = re.search(header_re, text)
    if not m:
        raise ExtractError(f"{what} not found")
    i = text.index("{", m.end() - 1)
    depth, j = 0, i
    while j < len(text):
        if text[j] == "{":
            depth += 1
        elif text[j] == "}":
            depth -= 1
            if depth == 0:
                return text[i + 1:j]
        j += 1
    raise ExtractError(f"unbalanced braces in {what}")


def _split_top(s, sep=","):
    out, depth, cur = [], 0, []
    for ch in s:
        if ch in "([{<":
            depth += 1
        elif ch in ")]}>":
            depth -= 1
        if ch == sep and depth == 0:
            out.append("".join(cur))
            cur = []
        else:
            cur.append(ch)
    if "".join(cur).strip():
        out.append("".join(cur))
    return out


def strip_comments_keep_strings(s):
    """// and /* */ comments removed, string literals kept intact."""
    out, i, n = [], 0, len(s)
    while i < n:
        c = s[i]
        if c == '"':
            j = i + 1
            while j < n and s[j] != '"':
                j += 2 if s[j] == "\\" else 1
            out.append(s[i:j + 1])
            i = j + 1
        elif s.startswith("//", i):
            while i < n and s[i] != "\n":
                i += 1
        elif s.startswith("/*", i):
            j = s.find("*/", i + 2)
            i = n if j < 0 else j + 2
        else:
            out.append(c)
            i += 1
    return "".join(out)


def airtype_variants():
    txt = strip_comments(rd("air/src/lib.rs"))
    body = _body_of(txt, r"pub\s+enum\s+AirType\s*\{", "enum AirType in air/src/lib.rs")
    names = []
    for part in _split_top(body):
        m = re.match(r"\s*(?:#\[[^\]]*\]\s*)*([A-Z][A-Za-z0-9_]*)", part)
        if m:
            names.append(m.group(1))
    return names


def layout_table():
    txt = strip_comments(rd("air/src/layout.rs"))
    body = _body_of(txt, r"pub\s+fn\s+layout_of\s*\([^)]*\)\s*->\s*TypeLayout\s*\{", "fn layout_of in air/src/layout.rs")
    mbody = _body_of(body, r"match\s+\*?\s*ty\s*\{", "`match ty` in layout_of")
    table, seen_rec = {}, set()
    # arms: pattern => expr  (expr is either `TypeLayout { size: c, align: c }` or a block)
    pos = 0
    arm = re.compile(r"\s*((?:AirType::[A-Za-z0-9_]+(?:\s*\([^)]*\)|\s*\{[^}]*\})?\s*\|?\s*)+)=>\s*", re.S)
    while True:
        m = arm.match(mbody, pos)
        if not m:
            rest = mbody[pos:].strip()
            if rest:
                raise ExtractError(f"layout_of: unrecognised match arm near {rest[:60]!r}")
            break
        variants = re.findall(r"AirType::([A-Za-z0-9_]+)", m.group(1))
        p = m.end()
        if mbody[p] == "{":
            depth, q = 0, p
            while True:
                if mbody[q] == "{":
                    depth += 1
                elif mbody[q] == "}":
                    depth -= 1
                    if depth == 0:
                        break
                q += 1
            expr = mbody[p:q + 1]
            pos = q + 1
        else:
            depth, q = 0, p
            while q < len(mbody) and not (mbody[q] == "," and depth == 0):
                if mbody[q] in "({[":
                    depth += 1
                elif mbody[q] in ")}]":
                    depth -= 1
                q += 1
            expr = mbody[p:q]
            pos = q
        while pos < len(mbody) and mbody[pos] in ", \n\t":
            pos += 1
        c = None
        mm = re.fullmatch(r"\s*(?:Ok\s*\()?\s*TypeLayout\s*\{([^{}]*)\}\s*\)?\s*", expr)
        if mm:
            fields = dict((k.strip(), v.strip()) for k, _, v in (part.partition(":") for part in mm.group(1).split(",") if part.strip()))
            if set(fields) == {"size", "align"}:
                c = (fields["size"], fields["align"])
        for v in variants:
            if v in RECURSIVE:
                seen_rec.add(v)
                # the behaviour of the Array and Struct arms is tied by the QLayoutOf cases of hx_layout
                # (grid over every element type), not by their text
                if c:
                    raise ExtractError(f"layout_of: the {v} arm became a constant; extend Model/Layout.v")
                continue
            if v not in PRIMS:
                raise ExtractError(f"layout_of: arm for unknown AirType variant {v}; extend Model/Layout.v")
            if not c:
                raise ExtractError(f"layout_of: arm for {v} is not a constant TypeLayout: {expr.strip()[:80]!r}")
            if v in table:
                raise ExtractError(f"layout_of: duplicate arm for {v}")
            table[v] = (eval_const_expr(c[0], {}, 32), eval_const_expr(c[1], {}, 32))
    missing = [v for v in PRIMS if v not in table] + [v for v in RECURSIVE if v not in seen_rec]
    if missing:
        raise ExtractError(f"layout_of: no arm found for {missing} (wildcard arm or changed shape)")
    return table


def phase_order(txt):
    """Order in which try_compute_layouts runs its three phases (None when a phase is not called by
    the name the model documents: then only the end-to-end tie speaks)."""
    try:
        body = _body_of(txt, r"pub\s+fn\s+try_compute_layouts\s*\([^)]*\)\s*->\s*Result<[^{]*\{", "try_compute_layouts")
    except ExtractError:
        return None
    pos = [(body.find(n + "("), n) for n in ("detect_self_references", "topological_order", "struct_layout")]
    if any(p < 0 for p, _ in pos):
        return None
    return [n for _, n in sorted(pos)]


def message_fragments(txt):
    """Longest literal fragment of the Display text of each LayoutError variant (used by the harness
    to recognise the error kind behind compute_layouts' panic)."""
    try:
        body = _body_of(txt, r"impl\s+(?:std::)?fmt::Display\s+for\s+LayoutError\s*\{", "Display for LayoutError")
    except ExtractError:
        return {}
    out = {}
    kinds = {"InfiniteSize": "ODiagSelf", "RecursiveCycle": "ODiagCycle", "UnresolvedStruct": "OUnresolved", "TooLarge": "OTooLarge"}
    arms = list(re.finditer(r"LayoutError::([A-Za-z0-9_]+)", body))
    for i, m in enumerate(arms):
        if m.group(1) not in kinds:
            continue
        seg = body[m.end(): arms[i + 1].start() if i + 1 < len(arms) else len(body)]
        lits = re.findall(r'"((?:[^"\\]|\\.)*)"', seg)
        frags = [f for lit in lits for f in re.split(r"\{[^}]*\}", lit)]
        frags = [f.strip("` ") for f in frags if len(f.strip("` ")) >= 6]
        if frags:
            out[kinds[m.group(1)]] = max(frags, key=len)
    return out


def _fn_arms(txt, fn_name):
    """spelling -> InferType variant for the string-literal arms `"a" | "b" => InferType::X` of a function."""
    try:
        body = _body_of(txt, r"pub\s+fn\s+" + fn_name + r"\s*\([^)]*\)\s*->\s*Self\s*\{", fn_name)
    except ExtractError:
        return None
    out = {}
    for m in re.finditer(r'((?:"[^"]*"\s*\|?\s*)+)=>\s*(?:InferType::([A-Za-z0-9_]+)|\{)', body):
        for lit in re.findall(r'"([^"]*)"', m.group(1)):
            out.setdefault(lit, m.group(2) or "<block>")
    return out


def expected_scalar(sp):
    """What a type spelling means, from the spelling alone (independent of any table)."""
    m = re.fullmatch(r"(u?)int(8|16|32|64)|([iu])(8|16|32|64)", sp)
    if m:
        unsigned = (m.group(1) == "u") if m.group(2) else (m.group(3) == "u")
        return ("U" if unsigned else "I") + (m.group(2) or m.group(4))
    return {"int": "I64", "float": "F64", "f64": "F64", "float64": "F64", "f32": "F32", "float32": "F32",
            "bool": "Bool", "string": "Str"}.get(sp)


def spelling_tables():
    """Every scalar type spelling the front end knows (KNOWN_TYPE_NAMES, from_name, from_annotation),
    what each table makes of it, and the inconsistencies between the tables."""
    inf = strip_comments_keep_strings(rd("sema/src/infer.rs"))
    ity = strip_comments_keep_strings(rd("sema/src/types/infer_type.rs"))
    m = re.search(r"KNOWN_TYPE_NAMES\s*:\s*&\[&str\]\s*=\s*&\[(.*?)\];", inf, flags=re.S)
    known = re.findall(r'"([^"]*)"', m.group(1)) if m else None
    ann = _fn_arms(ity, "from_annotation")
    nam = _fn_arms(ity, "from_name")
    tables = {"known": known, "from_annotation": ann, "from_name": nam}
    spellings = sorted(set(known or []) | set(ann or {}) | set(nam or {}))
    norm = {"String": "Str", "Null": "Void"}
    rows, bad = {}, []
    for sp in spellings:
        a = (ann or {}).get(sp)
        n = (nam or {}).get(sp)
        exp = expected_scalar(sp)
        rows[sp] = {"known": (sp in known) if known is not None else None, "from_annotation": a, "from_name": n, "expected": exp}
        if exp is None:
            continue            # array / vec / null / void / a spelling this check has no meaning for
        for tname, got in (("from_annotation", a), ("from_name", n)):
            tab = tables[tname]
            if tab is None:
                continue
            if got is None:
                bad.append(f"`{sp}` is a known type spelling but {tname} has no arm for it (it falls through to Dynamic/struct)")
            elif norm.get(got, got) != exp:
                bad.append(f"{tname} resolves `{sp}` to {got}, the spelling means {exp}")
        if known is not None and sp not in known:
            bad.append(f"`{sp}` is resolved by from_annotation/from_name but is not in KNOWN_TYPE_NAMES")
    for tname in ("from_annotation", "from_name"):
        for sp in (tables[tname] or {}):
            if expected_scalar(sp) is None and sp not in ("null", "void", "array", "vec"):
                bad.append(f"{tname} has an arm for `{sp}`, which this check does not know: extend expected_scalar")
    return {"rows": rows, "inconsistencies": bad, "parsed": {k: v is not None for k, v in tables.items()}}


@extract.register("LayoutTable")
def gen_layout_table():
    variants = airtype_variants()
    want = sorted(PRIMS + RECURSIVE)
    if sorted(variants) != want:
        raise ExtractError(f"AirType variants changed: got {sorted(variants)}, model knows {want}")
    side = {"notes": []}
    executed = None
    if os.path.exists(side_path("executed")):
        try:
            executed = {k: tuple(v) for k, v in json.load(open(side_path("executed"))).items()}
        except Exception:
            executed = None
    try:
        table = layout_table()
    except ExtractError as e:
        # the arms of layout_of are no longer in a shape the text parser understands: that alone is
        # not a defect.  Fall back to the table obtained by executing layout_of on every variant
        # (hx_layout), and say so.
        if not executed or sorted(executed) != sorted(PRIMS):
            raise
        table = dict(executed)
        side["notes"].append(f"layout_of arms not parsed ({e}); table taken from executing layout_of")
    if executed and any(tuple(table[k]) != tuple(executed.get(k, ())) for k in PRIMS):
        diff = {k: (table[k], executed.get(k)) for k in PRIMS if tuple(table[k]) != tuple(executed.get(k, ()))}
        raise ExtractError(f"table read from the source text differs from executing layout_of: {diff}")
    ltxt = strip_comments_keep_strings(rd("air/src/layout.rs"))
    side["phase_order"] = phase_order(ltxt)
    side["fragments"] = message_fragments(ltxt)
    try:
        side["spellings"] = spelling_tables()
    except ExtractError as e:
        side["spellings"] = {"rows": {}, "inconsistencies": [], "parsed": {}, "error": str(e)}
    json.dump(side, open(side_path("side"), "w"))
    out = [HEADER.format(src="air/src/layout.rs (layout_of) and air/src/lib.rs (AirType)"),
           "From Coq Require Import NArith.\n",
           "(* one constructor per AirType variant whose layout does not depend on other types *)\n",
           "Inductive prim : Set :=\n"]
    out += [f"  | P{v}\n" for v in PRIMS]
    out[-1] = out[-1].rstrip("\n") + ".\n"
    out.append("(* (size, align) exactly as written in the match arms of layout_of *)\n")
    out.append("Definition prim_layout (p : prim) : N * N :=\n  match p with\n")
    for v in PRIMS:
        s, a = table[v]
        out.append(f"  | P{v} => ({s}%N, {a}%N)\n")
    out.append("  end.\n")
    out.append("Definition all_prims : list prim :=\n  (" + " :: ".join("P" + v for v in PRIMS) + " :: nil)%list.\n")
    return write_if_changed("LayoutTable.v", "".join(out))
