"""C18 translator: the primitive (size, align) table of `layout_of` in air/src/layout.rs and the
variant list of `AirType` in air/src/lib.rs  ->  coq/Extracted/LayoutTable.v

The generated file defines the inductive `prim` (one constructor per non-recursive layout class
of AirType) and `prim_layout : prim -> N * N`.  The recursive variants (Array, Struct) and the
variants whose payload is ignored by layout (Ptr, Slice, FnPtr, Param) are checked to be
present with the shape the hand model in Model/Layout.v assumes; anything else (a new variant,
a non-constant arm) raises ExtractError so that the tie is reported as broken.
"""
import re
import extract
from extract import ExtractError, rd, strip_comments, write_if_changed, HEADER, eval_const_expr

# AirType variant -> constructor of `prim` in the Coq model
PRIMS = ["I8", "I16", "I32", "I64", "U8", "U16", "U32", "U64", "F32", "F64", "Bool", "Str",
         "Ptr", "FnPtr", "Slice", "Param", "Void"]
RECURSIVE = ["Array", "Struct"]


def _body_of(text, header_re, what):
    m = re.search(header_re, text)
    if not m:
        raise ExtractError(f"{what} not found")
    i = text.index("{", m.end() - 1)
    depth, j = 0, i
    while j < len(text):
        if text[j] == "{":
            depth += 1
        elif text[j] == "}":
            depth -= 1
            if depth == 0:
                return text[i + 1:j]
        j += 1
    raise ExtractError(f"unbalanced braces in {what}")


def _split_top(s, sep=","):
    out, depth, cur = [], 0, []
    for ch in s:
        if ch in "([{<":
            depth += 1
        elif ch in ")]}>":
            depth -= 1
        if ch == sep and depth == 0:
            out.append("".join(cur))
            cur = []
        else:
            cur.append(ch)
    if "".join(cur).strip():
        out.append("".join(cur))
    return out


def airtype_variants():
    txt = strip_comments(rd("air/src/lib.rs"))
    body = _body_of(txt, r"pub\s+enum\s+AirType\s*\{", "enum AirType in air/src/lib.rs")
    names = []
    for part in _split_top(body):
        m = re.match(r"\s*(?:#\[[^\]]*\]\s*)*([A-Z][A-Za-z0-9_]*)", part)
        if m:
            names.append(m.group(1))
    return names


def layout_table():
    txt = strip_comments(rd("air/src/layout.rs"))
    body = _body_of(txt, r"pub\s+fn\s+layout_of\s*\([^)]*\)\s*->\s*TypeLayout\s*\{", "fn layout_of in air/src/layout.rs")
    mbody = _body_of(body, r"match\s+ty\s*\{", "`match ty` in layout_of")
    table, seen_rec = {}, set()
    # arms: pattern => expr  (expr is either `TypeLayout { size: c, align: c }` or a block)
    pos = 0
    arm = re.compile(r"\s*((?:AirType::[A-Za-z0-9_]+(?:\s*\([^)]*\)|\s*\{[^}]*\})?\s*\|?\s*)+)=>\s*", re.S)
    while True:
        m = arm.match(mbody, pos)
        if not m:
            rest = mbody[pos:].strip()
            if rest:
                raise ExtractError(f"layout_of: unrecognised match arm near {rest[:60]!r}")
            break
        variants = re.findall(r"AirType::([A-Za-z0-9_]+)", m.group(1))
        p = m.end()
        if mbody[p] == "{":
            depth, q = 0, p
            while True:
                if mbody[q] == "{":
                    depth += 1
                elif mbody[q] == "}":
                    depth -= 1
                    if depth == 0:
                        break
                q += 1
            expr = mbody[p:q + 1]
            pos = q + 1
        else:
            depth, q = 0, p
            while q < len(mbody) and not (mbody[q] == "," and depth == 0):
                if mbody[q] in "({[":
                    depth += 1
                elif mbody[q] in ")}]":
                    depth -= 1
                q += 1
            expr = mbody[p:q]
            pos = q
        while pos < len(mbody) and mbody[pos] in ", \n\t":
            pos += 1
        c = re.fullmatch(r"\s*TypeLayout\s*\{\s*size\s*:\s*([^,{}]+),\s*align\s*:\s*([^,{}]+?),?\s*\}\s*", expr)
        for v in variants:
            if v in RECURSIVE:
                seen_rec.add(v)
                if v == "Array" and not re.search(r"array_layout\s*\(\s*layout_of\s*\(\s*inner\s*\)\s*,\s*\*n\s*\)", expr):
                    raise ExtractError("layout_of: Array arm is no longer `array_layout(layout_of(inner), *n)` (checked u32 size)")
                if v == "Array":
                    ab = _body_of(txt, r"fn\s+array_layout\s*\([^)]*\)\s*->\s*Option<TypeLayout>\s*\{", "fn array_layout in air/src/layout.rs")
                    if not (re.search(r"checked_mul\s*\(\s*n\s*\)", ab) and "u32::try_from" in ab and re.search(r"align\s*:\s*\w+\.align\b", ab)):
                        raise ExtractError("array_layout is no longer a checked u64 multiplication narrowed with u32::try_from, inheriting the element alignment")
                if v == "Struct" and "panic!" not in expr:
                    raise ExtractError("layout_of: Struct arm no longer panics (model assumes it needs program context)")
                continue
            if v not in PRIMS:
                raise ExtractError(f"layout_of: arm for unknown AirType variant {v}; extend Model/Layout.v")
            if not c:
                raise ExtractError(f"layout_of: arm for {v} is not a constant TypeLayout: {expr.strip()[:80]!r}")
            if v in table:
                raise ExtractError(f"layout_of: duplicate arm for {v}")
            table[v] = (eval_const_expr(c.group(1), {}, 32), eval_const_expr(c.group(2), {}, 32))
    missing = [v for v in PRIMS if v not in table] + [v for v in RECURSIVE if v not in seen_rec]
    if missing:
        raise ExtractError(f"layout_of: no arm found for {missing} (wildcard arm or changed shape)")
    return table


@extract.register("LayoutTable")
def gen_layout_table():
    variants = airtype_variants()
    want = sorted(PRIMS + RECURSIVE)
    if sorted(variants) != want:
        raise ExtractError(f"AirType variants changed: got {sorted(variants)}, model knows {want}")
    table = layout_table()
    out = [HEADER.format(src="air/src/layout.rs (layout_of) and air/src/lib.rs (AirType)"),
           "From Coq Require Import NArith.\n",
           "(* one constructor per AirType variant whose layout does not depend on other types *)\n",
           "Inductive prim : Set :=\n"]
    out += [f"  | P{v}\n" for v in PRIMS]
    out[-1] = out[-1].rstrip("\n") + ".\n"
    out.append("(* (size, align) exactly as written in the match arms of layout_of *)\n")
    out.append("Definition prim_layout (p : prim) : N * N :=\n  match p with\n")
    for v in PRIMS:
        s, a = table[v]
        out.append(f"  | P{v} => ({s}%N, {a}%N)\n")
    out.append("  end.\n")
    out.append("Definition all_prims : list prim :=\n  (" + " :: ".join("P" + v for v in PRIMS) + " :: nil)%list.\n")
    return write_if_changed("LayoutTable.v", "".join(out))
