"""C06 translator plugin: bytecode/src/bytecode/opcode.rs `enum OpCode` -> coq/Extracted/Opcodes.v

Generates one constructor `O_<Name>` per Rust variant (in declaration order), the discriminant
function `opcode_num` and a decidable equality.  The hand-written models (Model/VmArith.v,
Model/OpcodeSelect.v) mention the constructors by name, so a renamed/removed variant makes the
Coq build fail and a renumbered one changes `opcode_num` (checked against the VM dispatch
numbers in Model/VmArith.v by `dispatch_numbers_ok`)."""
import re
import extract


@extract.register("Opcodes")
def gen_opcodes():
    src = "bytecode/src/bytecode/opcode.rs"
    text = extract.strip_comments(extract.rd(src))
    m = re.search(r"#\[repr\(u8\)\]\s*pub\s+enum\s+OpCode\s*\{(.*?)\}", text, flags=re.S)
    if not m:
        raise extract.ExtractError("enum OpCode with #[repr(u8)] not found in " + src)
    variants, nxt = [], 0
    for item in m.group(1).split(","):
        item = item.strip()
        if not item:
            continue
        mm = re.fullmatch(r"([A-Z][A-Za-z0-9]*)(?:\s*=\s*([0-9_xXa-fA-F]+))?", item)
        if not mm:
            raise extract.ExtractError(f"unexpected OpCode variant syntax: {item!r}")
        if mm.group(2):
            nxt = int(mm.group(2).replace("_", ""), 0)
        variants.append((mm.group(1), nxt))
        nxt += 1
    if len(variants) < 100 or any(n > 255 for _, n in variants):
        raise extract.ExtractError("OpCode enum shape changed (too few variants or discriminant > 255)")
    if len({n for _, n in variants}) != len(variants):
        raise extract.ExtractError("duplicate OpCode discriminants")
    out = [extract.HEADER.format(src=src), "From Coq Require Import NArith List.\nImport ListNotations.\n",
           "Inductive opcode : Set :=\n"]
    out += [f"| O_{n}\n" for n, _ in variants]
    out.append(".\n\nDefinition opcode_num (o : opcode) : N :=\n  match o with\n")
    out += [f"  | O_{n} => {v}%N\n" for n, v in variants]
    out.append("  end.\n\nDefinition all_opcodes : list opcode :=\n  [" + "; ".join(f"O_{n}" for n, _ in variants) + "].\n")
    out.append("\nDefinition opcode_eqb (a b : opcode) : bool := N.eqb (opcode_num a) (opcode_num b).\n")
    return extract.write_if_changed("Opcodes.v", "".join(out))


# ---------------------------------------------------------------------------------------------
# backend/src/opcode_select.rs tables, syntax BinaryOp, sema ResolvedType predicates
def _enum_variants(text, name):
    m = re.search(r"pub\s+enum\s+%s\s*\{(.*?)\n\}" % name, text, flags=re.S)
    if not m:
        raise extract.ExtractError(f"enum {name} not found")
    body = m.group(1)
    out, depth, cur = [], 0, ""
    for ch in body:                      # split on top-level commas (variants may carry fields)
        if ch in "({<[":
            depth += 1
        elif ch in ")}>]":
            depth -= 1
        if ch == "," and depth == 0:
            out.append(cur)
            cur = ""
        else:
            cur += ch
    out.append(cur)
    names = []
    for item in out:
        item = re.sub(r"#\[[^\]]*\]", "", item).strip()
        if not item:
            continue
        mm = re.match(r"([A-Z][A-Za-z0-9]*)", item)
        if not mm:
            raise extract.ExtractError(f"unexpected variant syntax in enum {name}: {item[:40]!r}")
        names.append((mm.group(1), item[len(mm.group(1)):].strip()))
    return names


def _fn_body(text, name):
    m = re.search(r"fn\s+%s\s*\([^)]*\)\s*(?:->\s*[^{]+)?\{" % name, text)
    if not m:
        raise extract.ExtractError(f"fn {name} not found")
    i, depth = m.end(), 1
    while depth and i < len(text):
        depth += {"{": 1, "}": -1}.get(text[i], 0)
        i += 1
    return text[m.end():i - 1]


RT_KNOWN = {"I8", "I16", "I32", "I64", "U8", "U16", "U32", "U64", "F32", "F64", "Bool", "String", "Null",
            "Function", "Array", "Vec", "Tuple", "Range", "Struct", "Dynamic", "Uncertain"}
RT_MODELLED = ["I8", "I16", "I32", "I64", "U8", "U16", "U32", "U64", "F32", "F64", "Bool", "String", "Null", "Dynamic"]


@extract.register("OpcodeSelectTables")
def gen_select_tables():
    src_sel = "backend/src/opcode_select.rs"
    src_op = "syntax/src/ast/expr.rs"
    src_rt = "sema/src/types/resolved_type.rs"
    sel = extract.strip_comments(extract.rd(src_sel))
    ops = [n for n, rest in _enum_variants(extract.strip_comments(extract.rd(src_op)), "BinaryOp")]
    if len(ops) < 10 or len(set(ops)) != len(ops):
        raise extract.ExtractError("enum BinaryOp has an unexpected shape")
    rt_text = extract.strip_comments(extract.rd(src_rt))
    rts = _enum_variants(rt_text, "ResolvedType")
    unknown = [n for n, _ in rts if n not in RT_KNOWN]
    missing = [n for n in RT_KNOWN if n not in [x for x, _ in rts]]
    if unknown or missing:
        raise extract.ExtractError(f"enum ResolvedType changed (new {unknown}, gone {missing}): update Model/OpcodeSelect.v rtype")

    def pred(fn):
        body = _fn_body(rt_text, fn)
        m = re.search(r"matches!\s*\(\s*self\s*,(.*)\)", body, flags=re.S)
        if not m:
            raise extract.ExtractError(f"ResolvedType::{fn}: expected a single matches!(self, ...) body")
        names = re.findall(r"ResolvedType::([A-Za-z0-9]+)", m.group(1))
        rest = re.sub(r"ResolvedType::[A-Za-z0-9]+|\||\s", "", m.group(1))
        if rest or not names or any(n not in RT_MODELLED for n in names):
            raise extract.ExtractError(f"ResolvedType::{fn}: pattern list not understood: {m.group(1).strip()[:80]!r}")
        return names

    out = [extract.HEADER.format(src=f"{src_sel}, {src_op}, {src_rt}"),
           "From Aelys Require Import Extracted.Opcodes.\n\n",
           "(* syntax::ast::BinaryOp *)\nInductive binop : Set :=\n", "".join(f"| Op{n}\n" for n in ops), ".\n",
           "Definition all_binops : list binop := (" + " :: ".join(f"Op{n}" for n in ops) + " :: nil)%list.\n\n",
           "(* sema::ResolvedType; Function/Array/Vec/Tuple/Range/Struct carry no information for selection: ROther *)\n",
           "Inductive rtype : Set :=\n", "".join(f"| R{n}\n" for n in RT_MODELLED if n != "Dynamic"),
           "| ROther | RDynamic\n| RUncertain (inner : rtype).\n\n"]
    for fn, coq in (("is_integer", "is_integer"), ("is_float", "is_float_ty")):
        names = pred(fn)
        out.append(f"(* ResolvedType::{fn} *)\nDefinition {coq} (t : rtype) : bool :=\n  match t with " +
                   " | ".join("R" + n for n in names) + " => true | _ => false end.\n\n")
    roles = ["select_typed_int_opcode", "select_typed_float_opcode", "select_guarded_int_opcode",
             "select_guarded_float_opcode", "select_generic_opcode"]
    # every `fn NAME(<x>: BinaryOp) -> OpCode` is an operator -> opcode table, whatever it is called
    found = re.findall(r"fn\s+([A-Za-z_0-9]+)\s*\(\s*[A-Za-z_0-9]+\s*:\s*BinaryOp\s*\)\s*->\s*OpCode", sel)
    if all(r in found for r in roles):
        role_fn = {r: r for r in roles}
    else:
        # renamed helpers: recognise the roles by the order in which select_opcode calls them
        # (guarded int, typed int, guarded float, typed float, [guarded float,] generic)
        body = _fn_body(sel, "select_opcode")
        calls = []
        for c in re.findall(r"\b([A-Za-z_0-9]+)\s*\(\s*op\s*\)", body):
            if c in found and c not in calls:
                calls.append(c)
        if len(calls) != 5 or len(found) != 5:
            raise extract.ExtractError(f"opcode_select.rs: cannot identify the five operator tables (tables {found}, called {calls})")
        role_fn = dict(zip(["select_guarded_int_opcode", "select_typed_int_opcode", "select_guarded_float_opcode",
                            "select_typed_float_opcode", "select_generic_opcode"], calls))
    from_opc = extract.strip_comments(extract.rd("bytecode/src/bytecode/opcode.rs"))
    arm_re = r"((?:BinaryOp::[A-Za-z0-9]+\s*\|?\s*)+)=>\s*OpCode::([A-Za-z0-9]+)\s*,?"
    for fn in roles:
        body = _fn_body(sel, role_fn[fn])
        m = re.search(r"match\s+[A-Za-z_0-9]+\s*\{(.*)\}", body, flags=re.S)
        if not m:
            raise extract.ExtractError(f"{role_fn[fn]}: expected `match op {{ ... }}`")
        table = {}
        for arm in re.finditer(arm_re, m.group(1)):
            for o in re.findall(r"BinaryOp::([A-Za-z0-9]+)", arm.group(1)):
                if o in table:
                    raise extract.ExtractError(f"{role_fn[fn]}: operator {o} listed twice")
                table[o] = arm.group(2)
        leftover = re.sub(arm_re, "", m.group(1)).strip()
        if leftover or sorted(table) != sorted(ops):
            raise extract.ExtractError(f"{role_fn[fn]}: arms not understood or not exhaustive (leftover {leftover[:60]!r}, "
                                       f"missing {sorted(set(ops) - set(table))})")
        for v in table.values():
            if not re.search(r"\b%s\b" % v, from_opc):
                raise extract.ExtractError(f"{role_fn[fn]}: unknown OpCode::{v}")
        out.append(f"(* fn {role_fn[fn]} *)\nDefinition {fn} (op : binop) : opcode :=\n  match op with\n" +
                   "".join(f"  | Op{o} => O_{table[o]}\n" for o in ops) + "  end.\n\n")
    return extract.write_if_changed("OpcodeSelectTables.v", "".join(out))


# ---------------------------------------------------------------------------------------------
# dispatch arms of the arithmetic / comparison / bitwise / control-flow opcodes
ACCESSORS = ["as_int_unchecked", "as_float_unchecked", "as_int", "as_float", "as_bool", "as_ptr", "is_int", "is_float", "is_null"]


@extract.register("DispatchArms")
def gen_dispatch_arms():
    files = ["arithmetic", "comparison", "bitwise", "control_flow"]
    arms = []      # (file, [numbers], set(accessors))
    for f in files:
        src = f"runtime/src/vm/dispatch/ops/{f}.inc"
        text = extract.strip_comments(extract.rd(src))
        m = re.search(r"match\s+opcode_byte\s*\{", text)
        if not m:
            raise extract.ExtractError(f"{src}: `match opcode_byte {{` not found")
        i, n = m.end(), len(text)
        while i < n:
            mm = re.compile(r"\s*((?:\d+\s*\|\s*)*\d+|_)\s*=>\s*").match(text, i)
            if not mm:
                if text[i:].strip().startswith("}"):
                    break
                raise extract.ExtractError(f"{src}: arm pattern not understood near {text[i:i + 40]!r}")
            j = mm.end()
            if text[j] == "{":
                depth, k = 1, j + 1
                while depth and k < n:
                    depth += {"{": 1, "}": -1}.get(text[k], 0)
                    k += 1
                body = text[j:k]
            else:
                k = text.index(",", j) + 1
                body = text[j:k]
            if mm.group(1) != "_":
                nums = [int(x) for x in re.findall(r"\d+", mm.group(1))]
                acc = sorted({a for a in ACCESSORS if re.search(r"\.%s\s*\(" % a, body)})
                arms.append((f, nums, acc))
            i = k
            while i < n and text[i] in " \t\n,":
                i += 1
    if len(arms) < 40:
        raise extract.ExtractError("too few dispatch arms found")
    seen = {}
    for f, nums, _ in arms:
        for x in nums:
            if x in seen:
                raise extract.ExtractError(f"opcode {x} handled by two arms ({seen[x]}, {f})")
            seen[x] = f
    out = [extract.HEADER.format(src="runtime/src/vm/dispatch/ops/{arithmetic,comparison,bitwise,control_flow}.inc"),
           "From Coq Require Import NArith List String.\nImport ListNotations.\nOpen Scope string_scope.\n\n",
           "(* one entry per match arm: the opcode numbers it handles and the Value accessors its body calls *)\n",
           "Definition dispatch_arms : list (list N * list string) :=\n  [\n"]
    out.append(";\n".join("   ([" + "; ".join(f"{x}%N" for x in nums) + "], [" + "; ".join(f'"{a}"' for a in acc) + "])"
                          for _, nums, acc in arms))
    out.append("\n  ].\n")
    return extract.write_if_changed("DispatchArms.v", "".join(out))
