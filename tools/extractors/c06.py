"""C06 translator plugin: bytecode/src/bytecode/opcode.rs `enum OpCode` -> coq/Extracted/Opcodes.v

Generates one constructor `O_<Name>` per Rust variant (in declaration order), the discriminant
function `opcode_num` and a decidable equality.  The hand-written models (Model/VmArith.v,
Model/OpcodeSelect.v) mention the constructors by name, so a renamed/removed variant makes the
Coq build fail and a renumbered one changes `opcode_num` (checked against the VM dispatch
numbers in Model/VmArith.v by `dispatch_numbers_ok`)."""
import re
import extract


@extract.register("Opcodes")
def gen_opcodes():
    src = "bytecode/src/bytecode/opcode.rs"
    text = extract.strip_comments(extract.rd(src))
    m = re.search(r"#\[repr\(u8\)\]\s*pub\s+enum\s+OpCode\s*\{(.*?)\}", text, flags=re.S)
    if not m:
        raise extract.ExtractError("enum OpCode with #[repr(u8)] not found in " + src)
    variants, nxt = [], 0
    for item in m.group(1).split(","):
        item = item.strip()
        if not item:
            continue
        mm = re.fullmatch(r"([A-Z][A-Za-z0-9]*)(?:\s*=\s*([0-9_xXa-fA-F]+))?", item)
        if not mm:
            raise extract.ExtractError(f"unexpected OpCode variant syntax: {item!r}")
        if mm.group(2):
            nxt = int(mm.group(2).replace("_", ""), 0)
        variants.append((mm.group(1), nxt))
        nxt += 1
    if len(variants) < 100 or any(n > 255 for _, n in variants):
        raise extract.ExtractError("OpCode enum shape changed (too few variants or discriminant > 255)")
    if len({n for _, n in variants}) != len(variants):
        raise extract.ExtractError("duplicate OpCode discriminants")
    out = [extract.HEADER.format(src=src), "From Coq Require Import NArith List.\nImport ListNotations.\n",
           "Inductive opcode : Set :=\n"]
    out += [f"| O_{n}\n" for n, _ in variants]
    out.append(".\n\nDefinition opcode_num (o : opcode) : N :=\n  match o with\n")
    out += [f"  | O_{n} => {v}%N\n" for n, v in variants]
    out.append("  end.\n\nDefinition all_opcodes : list opcode :=\n  [" + "; ".join(f"O_{n}" for n, _ in variants) + "].\n")
    out.append("\nDefinition opcode_eqb (a b : opcode) : bool := N.eqb (opcode_num a) (opcode_num b).\n")
    return extract.write_if_changed("Opcodes.v", "".join(out))
