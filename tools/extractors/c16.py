"""C16 translator: stage lists of the standard pipelines, stage names / cacheable flags,
the name at which compile_internal stops, and what `Heap::clone` does
-> coq/Extracted/PipelineStages.v"""
import re
import extract
from extract import ExtractError, rd, strip_comments, write_if_changed, HEADER


def _fn_body(text, name):
    m = re.search(r"\bfn\s+" + re.escape(name) + r"\s*(?:<[^>]*>)?\s*\(", text)
    if not m:
        raise ExtractError(f"fn {name} not found")
    i = text.index("{", m.end())
    depth, j = 0, i
    while j < len(text):
        if text[j] == "{":
            depth += 1
        elif text[j] == "}":
            depth -= 1
            if depth == 0:
                return text[i + 1:j]
        j += 1
    raise ExtractError(f"fn {name}: unbalanced braces")


def _impl_body(text, trait, ty):
    m = re.search(r"\bimpl\s+" + trait + r"\s+for\s+" + ty + r"\s*\{", text)
    if not m:
        return None
    i = m.end() - 1
    depth, j = 0, i
    while j < len(text):
        if text[j] == "{":
            depth += 1
        elif text[j] == "}":
            depth -= 1
            if depth == 0:
                return text[i + 1:j]
        j += 1
    return None


def stage_table():
    """type name -> (stage name, cacheable) from driver/src/pipeline/stages/*.rs"""
    mod = strip_comments(rd("driver/src/pipeline/stages/mod.rs"))
    files = re.findall(r"^\s*mod\s+([a-z_]+)\s*;", mod, flags=re.M)
    if not files:
        raise ExtractError("stages/mod.rs: no stage modules")
    # trait default
    types = strip_comments(rd("driver/src/pipeline/types.rs"))
    m = re.search(r"fn\s+cacheable\s*\(&self\)\s*->\s*bool\s*\{\s*(true|false)\s*\}", types)
    if not m:
        raise ExtractError("types.rs: default of Stage::cacheable not found")
    default = m.group(1) == "true"
    table = {}
    for f in files:
        t = strip_comments(rd(f"driver/src/pipeline/stages/{f}.rs"))
        for ty in re.findall(r"\bimpl\s+Stage\s+for\s+([A-Za-z0-9_]+)", t):
            body = _impl_body(t, "Stage", ty)
            nm = re.search(r"fn\s+name\s*\(&self\)\s*->\s*&str\s*\{\s*\"([^\"]*)\"\s*\}", body or "")
            if not nm:
                raise ExtractError(f"{f}.rs: name() of {ty} is not a string literal")
            c = re.search(r"fn\s+cacheable\s*\(&self\)\s*->\s*bool\s*\{\s*(true|false)\s*\}", body)
            if "fn cacheable" in body and not c:
                raise ExtractError(f"{f}.rs: cacheable() of {ty} is not a literal")
            cach = (c.group(1) == "true") if c else default
            # a cacheable stage must not keep state between calls: its execute() may read
            # self but not write it (crude syntactic check; VMStage does `self.vm.take()`)
            exe = _fn_body(body, "execute")
            writes = re.search(r"self\.\w+(\.\w+)*\s*(=[^=]|\+=|-=)|&mut\s+self\.|self\.\w+\.(insert|push|extend|clear|take|replace|remove|entry)\s*\(", exe)
            table[ty] = (nm.group(1), cach, bool(writes))
    return table


def stage_list(fn, table):
    std = strip_comments(rd("driver/src/pipeline/standard.rs"))
    body = _fn_body(std, fn)
    tys = re.findall(r"add_stage\s*\(\s*Box::new\s*\(\s*([A-Za-z0-9_]+)", body)
    if not tys:
        raise ExtractError(f"standard.rs::{fn}: no add_stage calls")
    if len(tys) != body.count("add_stage"):
        raise ExtractError(f"standard.rs::{fn}: add_stage call of unexpected shape")
    out = []
    for ty in tys:
        if ty not in table:
            raise ExtractError(f"standard.rs::{fn}: unknown stage type {ty}")
        out.append(table[ty])
    return out


def stateless_ok(l):
    return all((not w) for (_, c, w) in l if c)


@extract.register("PipelineStages")
def gen_pipeline_stages():
    table = stage_table()
    lists = {
        "standard_stages": stage_list("standard_pipeline_with_opt", table),
        "compilation_stages": stage_list("compilation_pipeline_with_opt", table),
        "modules_stages": stage_list("compilation_pipeline_with_modules", table),
    }
    pl = strip_comments(rd("driver/src/pipeline/pipeline.rs"))
    ci = _fn_body(pl, "compile_internal")
    m = re.search(r"if\s+[a-z_.()]+\s*==\s*\"([^\"]*)\"\s*\{\s*break\s*;\s*\}", ci)
    if not m:
        raise ExtractError("pipeline.rs::compile_internal: `if stage_name == \"..\" { break; }` not found")
    brk = m.group(1)
    # the cache stores and serves clones -- wherever in pipeline.rs that happens (helpers allowed)
    inserts = [m.start() for m in re.finditer(r"\.cache\s*\.\s*insert\s*\(", pl)]
    gets = [m.start() for m in re.finditer(r"\.cache\s*\.\s*get\s*\(", pl)]
    if not inserts or not gets:
        raise ExtractError("pipeline.rs: cache insert / lookup not found")
    if len(re.findall(r"output\s*:\s*[a-z_]+\.clone\(\)", pl)) < len(inserts):
        raise ExtractError("pipeline.rs: a cache insert no longer stores a clone of the output")
    if not re.search(r"\.output\s*\.clone\(\)", pl):
        raise ExtractError("pipeline.rs: a cache hit no longer clones the cached output")
    # StageOutput derives Clone and Compiled carries a Heap
    ty = strip_comments(rd("driver/src/pipeline/types.rs"))
    # is a Compiled output ever put into the cache?  every insert must sit under a test of both
    # stage.cacheable() and <output>.cacheable(), and StageOutput::cacheable() must exclude Compiled
    guarded = []
    for pos in inserts:
        k = pl.rfind("if ", 0, pos)
        if k < 0 or pos - k > 400:
            raise ExtractError("pipeline.rs: a cache insertion is not under an `if`")
        before = pl[max(0, pos - 700):pos]
        if not re.search(r"\bstage\s*\.\s*cacheable\(\)", before):
            raise ExtractError("pipeline.rs: a cache insertion is not under a stage.cacheable() test")
        guarded.append(bool(re.search(r"\b(?!stage\b)[a-z_]+\s*\.\s*cacheable\(\)", before)))
    oc = re.search(r"fn\s+cacheable\s*\(&self\)\s*->\s*bool\s*\{\s*(?:!\s*matches!\(\s*self\s*,\s*(?:StageOutput|Self)::Compiled\s*\([^)]*\)\s*\)"
                   r"|match\s+self\s*\{[^}]*Compiled\s*\([^)]*\)\s*=>\s*false[^}]*_\s*=>\s*true[^}]*\})\s*\}", ty)
    if all(guarded) and oc:
        compiled_cached = False
    elif not any(guarded):
        compiled_cached = True
    else:
        raise ExtractError("pipeline.rs/types.rs: only some cache insertions test output.cacheable(), or StageOutput::cacheable changed")
    if not re.search(r"#\[derive\([^)]*\bClone\b[^)]*\)\]\s*pub\s+enum\s+StageOutput", ty):
        raise ExtractError("types.rs: StageOutput no longer derives Clone")
    if not re.search(r"enum\s+StageOutput\s*\{[^}]*Compiled\s*\(\s*Box<Function>\s*,\s*Heap\s*,", ty, flags=re.S):
        raise ExtractError("types.rs: StageOutput::Compiled no longer carries (Box<Function>, Heap, ..)")
    # the cache key: every component of the source (name, content) must go into the hasher WITH a delimiter --
    # `<str>.hash(&mut h)` (str::hash appends a terminator byte) or a length written before the raw bytes;
    # raw `h.write(x.as_bytes())` of two components in a row only hashes their concatenation
    ch = strip_comments(rd("driver/src/pipeline/cache.rs"))
    sh = _fn_body(ch, "source_hash")
    comps = {}
    for comp in ("name", "content"):
        via_hash = bool(re.search(r"source\s*\.\s*" + comp + r"\s*\.\s*hash\s*\(", sh))
        raw = re.search(r"\.write\s*\(\s*source\s*\.\s*" + comp + r"\s*\.\s*as_bytes\(\)", sh)
        with_len = bool(raw and re.search(r"source\s*\.\s*" + comp + r"\s*\.\s*len\(\)[^;]*;[^;]*source\s*\.\s*" + comp + r"\s*\.\s*as_bytes", sh, flags=re.S))
        if not via_hash and not raw:
            raise ExtractError(f"cache.rs::source_hash: the source {comp} no longer reaches the hasher in a recognised way")
        comps[comp] = via_hash or with_len
    key_delimited = all(comps.values())
    # VMStage: a VM per executed source unless the caller handed one in (repair of KF-C16-4)
    vmrs = strip_comments(rd("driver/src/pipeline/stages/vm.rs"))
    vexe = _fn_body(_impl_body(vmrs, "Stage", "VMStage") or "", "execute")
    takes = re.search(r"if\s+self\s*\.\s*([a-z_]+)\s*\{\s*self\s*\.\s*vm\s*\.\s*take\(\)\s*\}\s*else\s*\{\s*None\s*\}", vexe)
    flag_ok = bool(takes and re.search(r"fn\s+new\s*\(\)[^}]*" + takes.group(1) + r"\s*:\s*false", vmrs, flags=re.S)
                   and re.search(r"fn\s+with_vm\s*\([^)]*\)[^}]*" + takes.group(1) + r"\s*:\s*true", vmrs, flags=re.S))
    if not flag_ok and not re.search(r"self\s*\.\s*vm\s*\.\s*take\(\)", vexe):
        raise ExtractError("stages/vm.rs: VMStage::execute no longer recognisable")
    heap = strip_comments(rd("bytecode/src/heap/mod.rs"))
    body = _impl_body(heap, "Clone", "Heap")
    if body is None:
        if re.search(r"#\[derive\([^)]*\bClone\b[^)]*\)\]\s*pub\s+struct\s+Heap", heap):
            empty = False
        else:
            raise ExtractError("heap/mod.rs: no Clone impl for Heap")
    else:
        cb = _fn_body(body, "clone")
        empty = bool(re.fullmatch(r"\s*(Self|Heap)::(new|default)\(\)\s*", cb))
    out = [HEADER.format(src="driver/src/pipeline/{standard,pipeline,types}.rs, stages/*.rs, bytecode/src/heap/mod.rs"),
           "From Coq Require Import List String.\nImport ListNotations.\nLocal Open Scope string_scope.\n"]
    for n, l in lists.items():
        out.append(f"Definition {n} : list (string * bool) :=\n  [" +
                   "; ".join(f'("{a}", {"true" if b else "false"})' for a, b, _ in l) + "].\n")
    ok = all(stateless_ok(l) for l in lists.values())
    out.append("(* no cacheable stage writes to `self` inside execute() (syntactic check) *)\n"
               f"Definition cacheable_stages_stateless : bool := {'true' if ok else 'false'}.\n")
    out.append(f'Definition compile_break_name : string := "{brk}".\n')
    out.append(f"(* `impl Clone for Heap`: clone() is `Self::new()` *)\nDefinition heap_clone_is_empty : bool := {'true' if empty else 'false'}.\n")
    out.append("(* source_hash feeds the name and the content to the hasher each with a delimiter (str::hash / length prefix) *)\n"
               f"Definition cache_key_components_delimited : bool := {'true' if key_delimited else 'false'}.\n")
    out.append("(* VMStage::new() runs every source in a VM of its own; only a VM supplied with with_vm() is reused *)\n"
               f"Definition vm_stage_fresh_vm_per_run : bool := {'true' if flag_ok else 'false'}.\n")
    out.append("(* does the cache ever hold a StageOutput::Compiled (whose clone is not faithful)? *)\n"
               f"Definition compiled_outputs_are_cached : bool := {'true' if compiled_cached else 'false'}.\n")
    return write_if_changed("PipelineStages.v", "".join(out))


# ------------------------------------------------------------------------------------------------
# every place where the compile path walks a hash table (iteration order is per-process random)
HASH_SCOPE = ["modules/src", "frontend/src", "sema/src", "opt/src", "backend/src", "bytecode/src", "driver/src/modules",
              "driver/src/pipeline", "cli/src/cli/commands/compile.rs", "air/src", "syntax/src"]
_HT = r"(?:std::collections::)?(?:HashMap|HashSet)"
_DECL = re.compile(r"\b([a-z_][a-z0-9_]*)\s*:\s*(?:&\s*(?:'[a-z_]+\s+)?(?:mut\s+)?)?(?:Rc<|Arc<|Option<|RefCell<|Box<)*\s*" + _HT + r"\s*<")
_DECL_NESTED = re.compile(r"\b([a-z_][a-z0-9_]*)\s*:\s*(?:&\s*(?:mut\s+)?)?(?:Vec|Option|Rc|Box|VecDeque)\s*<\s*(?:Vec<\s*)?" + _HT + r"\s*<")
_LET = re.compile(r"\blet\s+(?:mut\s+)?([a-z_][a-z0-9_]*)\s*(?::\s*[^=;]*?)?=\s*" + _HT + r"::(?:new|with_capacity|from|default)")
_LETTY = re.compile(r"\blet\s+(?:mut\s+)?([a-z_][a-z0-9_]*)\s*:\s*" + _HT + r"\s*<")
_FNRET = re.compile(r"\bfn\s+([a-z_][a-z0-9_]*)\s*(?:<[^>]*>)?\s*\([^)]*\)\s*->\s*&?\s*(?:'[a-z_]+\s+)?(?:mut\s+)?" + _HT + r"\s*<")
_ITER = r"(?:\.iter\(\)|\.iter_mut\(\)|\.keys\(\)|\.values\(\)|\.values_mut\(\)|\.drain\(\)|\.into_iter\(\)|\.into_keys\(\)|\.into_values\(\))"


def _scope_files():
    import os
    out = []
    for c in HASH_SCOPE:
        p = os.path.join(extract.REPO, c)
        if os.path.isfile(p):
            out.append(p)
            continue
        if not os.path.isdir(p):
            raise ExtractError(f"hash-site scan: {c} is gone")
        for r, _, fs in os.walk(p):
            for f in sorted(fs):
                if f.endswith(".rs") and "/tests" not in r:
                    out.append(os.path.join(r, f))
    return sorted(out)


def _shape(txt):
    """what the loop binds: kv = key and value (tuple pattern), keys / values = one side only, elem = a single binding;
    the class of a site depends on it (a merge that re-uses the stored value is KeyedMerge, one that walks .keys() and
    recomputes the value is not)"""
    if re.search(r"\.(?:keys|into_keys)\(\)", txt):
        return "keys"
    if re.search(r"\.(?:values|values_mut|into_values)\(\)", txt):
        return "values"
    m = re.match(r"\s*for\s+(\([^)]*\)|[^ ]+)\s+in\b", txt)
    if m:
        return "kv" if m.group(1).startswith("(") and "," in m.group(1) else "elem"
    return "iter"


def hash_sites():
    """-> (iteration sites [(file, fn, name)], serialized hash fields [(file, Struct.field)])"""
    import os
    rel = lambda f: os.path.relpath(f, extract.REPO)
    texts, local, fields, accessors, nested_fields = {}, {}, {}, set(), {}
    for f in _scope_files():
        t = strip_comments(open(f, encoding="utf-8").read())
        texts[f] = t
        local[f] = set()
        for rx in (_DECL, _LET, _LETTY):
            local[f].update(m.group(1) for m in rx.finditer(t))
        for sm in re.finditer(r"\bstruct\s+\w+[^{;]*\{(.*?)\n\}", t, flags=re.S):
            for m in _DECL.finditer(sm.group(1)):
                fields.setdefault(rel(f).split("/")[0], set()).add(m.group(1))
            for m in _DECL_NESTED.finditer(sm.group(1)):
                nested_fields.setdefault(rel(f).split("/")[0], set()).add(m.group(1))
        accessors.update(m.group(1) for m in _FNRET.finditer(t))
    # accessors defined in the runtime that hand out hash tables to the compile path
    try:
        accessors.update(m.group(1) for m in _FNRET.finditer(strip_comments(rd("runtime/src/vm/repl.rs"))))
    except ExtractError:
        pass
    sites, ser = set(), set()
    for f, t in texts.items():
        fns = [(m.start(), m.group(1)) for m in re.finditer(r"\bfn\s+([a-z_][a-z0-9_]*)", t)]

        def fn_at(pos):
            n = "<top>"
            for s, name in fns:
                if s <= pos:
                    n = name
                else:
                    break
            return n
        names = set(local[f]) | fields.get(rel(f).split("/")[0], set())
        # loop variables that range over a container of hash tables
        nested = set(m.group(1) for m in _DECL_NESTED.finditer(t)) | nested_fields.get(rel(f).split("/")[0], set())
        for nm in nested:
            for m in re.finditer(r"\bfor\s+(?:\(?\s*[a-z_0-9, ]*?)?([a-z_][a-z0-9_]*)\s*\)?\s+in\s+&?(?:mut\s+)?(?:[a-z_][a-z0-9_]*\.)*" + nm + r"\b(?:\.iter\(\)|\.iter_mut\(\))?(?:\.rev\(\))?\s*\{", t):
                names.add(m.group(1))
        for nm in sorted(names):
            pat = re.compile(r"(?:\bfor\s+[^;{]*?\bin\s+&?(?:mut\s+)?(?:\*?[a-z_][a-z0-9_]*\.)*" + nm + r"\b(?!\s*\.(?:get|contains|contains_key|len|is_empty|insert|remove|entry))(?=[^;{]*\{))"
                             r"|(?:\b(?:[a-z_][a-z0-9_]*\.)*" + nm + _ITER + ")")
            for m in pat.finditer(t):
                sites.add((rel(f), fn_at(m.start()), nm + "#" + _shape(m.group(0))))
        for nm in sorted(accessors):
            pat = re.compile(r"\b" + nm + r"\(\s*\)" + _ITER + r"|\bin\s+&?(?:[a-z_][a-z0-9_]*\.)*" + nm + r"\(\s*\)\s*\{")
            for m in pat.finditer(t):
                ctx_txt = t[max(0, t.rfind("for ", 0, m.start())):m.end()] if "for " in t[max(0, m.start() - 80):m.start()] else m.group(0)
                sites.add((rel(f), fn_at(m.start()), nm + "()#" + _shape(ctx_txt)))
        # structs that are serialized (serde) and own a hash table
        for sm in re.finditer(r"#\[derive\(([^)]*)\)\]\s*(?:#\[[^\]]*\]\s*)*pub\s+struct\s+(\w+)[^{;]*\{(.*?)\n\}", t, flags=re.S):
            if "Serialize" in sm.group(1):
                for m in _DECL.finditer(sm.group(3)):
                    ser.add((rel(f), f"{sm.group(2)}.{m.group(1)}"))
    return sorted(sites), sorted(ser)


@extract.register("HashSites")
def gen_hash_sites():
    sites, ser = hash_sites()
    if len(sites) < 10:
        raise ExtractError("hash-site scan found almost nothing: the scanner no longer understands the source")
    out = [HEADER.format(src=", ".join(HASH_SCOPE)),
           "From Coq Require Import List String.\nImport ListNotations.\nLocal Open Scope string_scope.\n",
           "(* (file, enclosing fn, hash-typed name) of every iteration over a HashMap/HashSet on the compile path *)\n",
           "Definition hash_iteration_sites : list (string * string * string) :=\n  [" +
           ";\n   ".join(f'("{a}", "{b}", "{c}")' for a, b, c in sites) + "].\n",
           "(* serde-serialized structs that own a hash table (their serialization order is the table's) *)\n",
           "Definition serialized_hash_fields : list (string * string) :=\n  [" +
           "; ".join(f'("{a}", "{b}")' for a, b in ser) + "].\n"]
    return write_if_changed("HashSites.v", "".join(out))
