"""C17 translator: constants of air/src/mono.rs used by Model/Mono.v."""
import extract


@extract.register("MonoConsts")
def gen_mono_consts():
    src = "air/src/mono.rs"
    c = extract.consts_of(extract.rd(src), ["MAX_MONO_ROUNDS"])
    v, _ = c["MAX_MONO_ROUNDS"]
    if not (0 < v <= 4096):
        raise extract.ExtractError(f"MAX_MONO_ROUNDS = {v}: outside the range the model evaluates with nat fuel")
    out = [extract.HEADER.format(src=src), "From Coq Require Import NArith.\n",
           f"Definition MAX_MONO_ROUNDS : N := {v}%N.\n"]
    return extract.write_if_changed("MonoConsts.v", "".join(out))
