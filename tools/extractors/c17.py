"""C17 translator: constants, match-arm lists, check orders and guard conditions of air/src/mono.rs and
air/src/lower.rs that the hand models (Model/Mono.v, Model/AirTypes.v, Model/AirLower.v) depend on.

Everything is recovered from the *structure* of the source (which variants a function recurses
under, in which order two checks occur, whether a condition mentions a field), not from its layout:
comments, formatting, renamed locals, merged or reordered match arms and if-let vs match do not
matter.  ExtractError is raised only when a function or a construct can no longer be found."""
import re
import extract


def all_fns(text):
    """[(name, body)] of every `fn` in the (comment-free) text, brace matched."""
    out = []
    for m in re.finditer(r"\bfn\s+(\w+)\s*(?:<[^>]*>)?\s*\(", text):
        depth, j = 0, m.end() - 1
        while j < len(text):
            if text[j] == "(":
                depth += 1
            elif text[j] == ")":
                depth -= 1
                if depth == 0:
                    break
            j += 1
        i = j
        while i < len(text) and text[i] not in "{;":
            i += 1
        if i >= len(text) or text[i] == ";":
            continue
        depth, k = 0, i
        while k < len(text):
            if text[k] == "{":
                depth += 1
            elif text[k] == "}":
                depth -= 1
                if depth == 0:
                    out.append((m.group(1), text[i + 1:k]))
                    break
            k += 1
    return out


def fn_body(text, name, marks=()):
    """Body of function `name`; if it was renamed, the unique function whose body contains every
    string of `marks` (what the function is recognised by structurally)."""
    fns = all_fns(text)
    for n, b in fns:
        if n == name:
            return b
    if marks:
        cand = [(n, b) for n, b in fns if all(re.search(mk, b) for mk in marks)]
        if len(cand) == 1:
            return cand[0][1]
        raise extract.ExtractError(f"function {name} not found and {len(cand)} functions look like it")
    raise extract.ExtractError(f"function {name} not found")


VARIANTS = ["Param", "Ptr", "Array", "Slice", "FnPtr"]


def recursion_under(body, self_call):
    """For each AirType variant: does the function handle it by calling itself / doing the work?
    The body is cut into regions that start where a variant is named in a *pattern* position for the
    scrutinee (first mention of `AirType::V` after the previous region's `=>` / `if let`); a region
    belongs to every variant named in its pattern.  A region 'recurses' if it contains self_call."""
    # pattern heads: sequences `AirType::V ... (| AirType::W ...)* =>`  or  `if let AirType::V ... = <expr>`
    heads = []
    for m in re.finditer(r"((?:AirType::\w+\s*(?:\([^()]*\)|\{[^{}]*\})?\s*\|?\s*)+)=>", body):
        heads.append((m.start(), m.end(), re.findall(r"AirType::(\w+)", m.group(1))))
    if not heads:
        for m in re.finditer(r"if\s+let\s+((?:AirType::\w+\s*(?:\([^()]*\)|\{[^{}]*\})?\s*\|?\s*)+)=", body):
            heads.append((m.start(), m.end(), re.findall(r"AirType::(\w+)", m.group(1))))
    if not heads:
        raise extract.ExtractError("no pattern over AirType found")
    heads.sort()
    res = {v: False for v in VARIANTS}
    seen = set()
    for idx, (st, en, vs) in enumerate(heads):
        # the arm's text: up to the next arm of the SAME match (next head at brace depth 0 relative to here)
        depth, k, end = 0, en, len(body)
        nxt = [h[0] for h in heads[idx + 1:]]
        while k < len(body):
            c = body[k]
            if c == "{":
                depth += 1
            elif c == "}":
                depth -= 1
                if depth < 0:
                    end = k
                    break
            elif depth == 0 and k in nxt:
                end = k
                break
            k += 1
        region = body[en:end]
        for v in vs:
            if v in res:
                seen.add(v)
                if re.search(self_call, region):
                    res[v] = True
    return res, seen


@extract.register("MonoConsts")
def gen_mono_consts():
    src = "air/src/mono.rs"
    text = extract.rd(src)
    c = extract.consts_of(text, ["MAX_MONO_ROUNDS"])
    v, _ = c["MAX_MONO_ROUNDS"]
    if not (0 < v <= 4096):
        raise extract.ExtractError(f"MAX_MONO_ROUNDS = {v}: outside the range the model evaluates with nat fuel")
    code = extract.strip_comments(text)
    sub, _ = recursion_under(fn_body(code, "substitute_type", [r"\*\s*\w+\s*=\s*\w+\.clone\(\)", r"AirType::Param", r"\.position\("]), r"\bsubstitute_type\s*\(|\*\s*ty\s*=")
    uni, _ = recursion_under(fn_body(code, "unify_param", [r"or_insert_with", r"AirType::Param"]), r"\bunify_param\s*\(|\.entry\s*\(|\.insert\s*\(")
    t2s = fn_body(code, "type_to_string", [r'"ptr_\{\}"', r'"slice_\{\}"'])
    m = re.search(r"AirType::FnPtr\s*\{([^{}]*)\}\s*=>", t2s)
    if not m:
        raise extract.ExtractError("type_to_string: FnPtr arm not found")
    fnptr_structured = bool(re.search(r"\bparams\b", m.group(1))) and bool(re.search(r"\bret\b", m.group(1)))
    rename = bool(re.search(r"StructInit", fn_body(code, "substitute_rvalue", [r"Rvalue::Cast", r"substitute_type"])))
    mono = fn_body(code, "monomorphize", [r"MonoContext::new", r"\.retain\("])
    loops = bool(re.search(r"\bfor\b[^{]*MAX_MONO_ROUNDS", mono)) and bool(re.search(r"\.instantiate\s*\(", mono))
    rw = fn_body(code, "rewrite_call_sites", [r"Callee::Named\(", r"edits|mangled"])
    per_site = bool(re.search(r"infer_type_args|_for_call\s*\(", rw))
    infer_body = fn_body(code, "infer_type_args", [r"\.zip\(", r"type_params", r"resolved"])
    skips_env = "__env" in infer_body
    b = lambda x: "true" if x else "false"
    out = [extract.HEADER.format(src=src), "From Coq Require Import NArith.\n",
           f"Definition MAX_MONO_ROUNDS : N := {v}%N.\n",
           "(* substitute_type: variants under which the substitution descends *)\n",
           f"Definition SUBST_PARAM : bool := {b(sub['Param'])}.\n",
           f"Definition SUBST_PTR : bool := {b(sub['Ptr'])}.\n",
           f"Definition SUBST_ARRAY : bool := {b(sub['Array'])}.\n",
           f"Definition SUBST_SLICE : bool := {b(sub['Slice'])}.\n",
           f"Definition SUBST_FNPTR : bool := {b(sub['FnPtr'])}.\n",
           "(* unify_param: variants through which type arguments are inferred *)\n",
           f"Definition UNIFY_PARAM : bool := {b(uni['Param'])}.\n",
           f"Definition UNIFY_PTR : bool := {b(uni['Ptr'])}.\n",
           f"Definition UNIFY_ARRAY : bool := {b(uni['Array'])}.\n",
           f"Definition UNIFY_SLICE : bool := {b(uni['Slice'])}.\n",
           f"Definition UNIFY_FNPTR : bool := {b(uni['FnPtr'])}.\n",
           "(* type_to_string prints a FnPtr with its parameter and result types *)\n",
           f"Definition KEY_FNPTR_STRUCTURED : bool := {b(fnptr_structured)}.\n",
           "(* substitute_rvalue touches StructInit names *)\n",
           f"Definition STRUCTINIT_RENAMED : bool := {b(rename)}.\n",
           "(* monomorphize repeats instantiate + collect over new instances; call sites are rewritten per site *)\n",
           f"Definition MONO_ROUNDS_LOOP : bool := {b(loops)}.\n",
           f"Definition REWRITE_PER_CALL_SITE : bool := {b(per_site)}.\n",
           "(* infer_type_args leaves the closure environment parameter out of the parameter/argument pairing *)\n",
           f"Definition INFER_SKIPS_ENV : bool := {b(skips_env)}.\n"]
    return extract.write_if_changed("MonoConsts.v", "".join(out))


@extract.register("LowerFlags")
def gen_lower_flags():
    src = "air/src/lower.rs"
    code = extract.strip_comments(extract.rd(src))
    # order of the two name checks in lower_type_from_infer's Struct arm
    body = fn_body(code, "lower_type_from_infer", [r"InferType::Struct", r"AirType::Slice"])
    m = re.search(r"InferType::Struct\s*\(\s*(\w+)\s*\)\s*=>", body)
    if not m:
        raise extract.ExtractError("lower_type_from_infer: Struct arm not found")
    arm = body[m.end():]
    p_tp = arm.find("type_params_map")
    p_st = arm.find("is_struct_name")
    if p_tp < 0:
        raise extract.ExtractError("lower_type_from_infer: no type parameter lookup in the Struct arm")
    has_struct_check = p_st >= 0
    param_first = (not has_struct_check) or p_tp < p_st
    fin = fn_body(code, "finalize_function_body", [r"AirTerminator::Return\(None\)", r"current_blocks\.is_empty\(\)"])
    fin_pending = "pending_block_id" in fin
    noop = fn_body(code, "fixup_block_id_noop", [r"self\.pending_block_id\s*=\s*Some\("])
    noop_seals = "seal_block" in noop
    lf = fn_body(code, "lower_function", [r"alloc_function_id\(\)", r"lower_closure|captures"])
    saves = lambda field: bool(re.search(r"(take\s*\(\s*&mut\s+self\.%s\s*\)|self\.%s\s*\.\s*(take|clone)\s*\(\s*\))" % (field, field), lf)) \
        and bool(re.search(r"self\.%s\s*=" % field, lf))
    stmt = fn_body(code, "lower_stmt", [r"TypedStmtKind::Break", r"TypedStmtKind::Let"])
    nested_struct = bool(re.search(r"StructDecl\s*\{[^{}]*\}\s*=>\s*\{[^{}]*\w*struct_decl\s*\(", stmt, flags=re.S))
    m_blk = re.search(r"TypedStmtKind::Block\s*\(\s*\w+\s*\)\s*=>\s*\{", stmt)
    blk_scoped = False
    if m_blk:
        depth, k = 1, m_blk.end()
        while k < len(stmt) and depth:
            depth += {"{": 1, "}": -1}.get(stmt[k], 0)
            k += 1
        blk_scoped = "truncate" in stmt[m_blk.end():k]
    loops_scoped = all("truncate" in fn_body(code, n, mk) for n, mk in
                       (("lower_for", [r"BinOp::Le", r"incr"]), ("lower_foreach", [r"__aelys_len"])))
    b = lambda x: "true" if x else "false"
    out = [extract.HEADER.format(src=src),
           "(* lower_type_from_infer, Struct(name): the type-parameter lookup comes before the struct check *)\n",
           f"Definition NAME_PARAM_FIRST : bool := {b(param_first)}.\n",
           f"Definition NAME_STRUCT_CHECKED : bool := {b(has_struct_check)}.\n",
           "(* finalize_function_body looks at pending_block_id; fixup_block_id_noop seals a pending block *)\n",
           f"Definition FINALIZE_CHECKS_PENDING : bool := {b(fin_pending)}.\n",
           f"Definition NOOP_SEALS_PENDING : bool := {b(noop_seals)}.\n",
           "(* lower_function saves and restores these per-function fields *)\n",
           f"Definition SAVES_LOOP_STACK : bool := {b(saves('loop_stack'))}.\n",
           f"Definition SAVES_TYPE_PARAMS : bool := {b(saves('type_params_map'))}.\n",
           f"Definition SAVES_PENDING : bool := {b(saves('pending_block_id'))}.\n",
           f"Definition SAVES_ALIASES : bool := {b(saves('block_aliases'))}.\n",
           f"Definition SAVES_NAMES : bool := {b(saves('locals_by_name'))}.\n",
           "(* lower_stmt lowers a struct declared inside a function body *)\n",
           f"Definition LOWERS_NESTED_STRUCT_DECL : bool := {b(nested_struct)}.\n",
           "(* the name table is cut back at the end of a block statement / of a for and for-each loop *)\n",
           f"Definition BLOCK_SCOPES_NAMES : bool := {b(blk_scoped)}.\n",
           f"Definition LOOP_SCOPES_NAMES : bool := {b(loops_scoped)}.\n"]
    return extract.write_if_changed("LowerFlags.v", "".join(out))
