"""C08 translator plugin for the assembly text format: the per-opcode operand table of BOTH sides.

  bytecode/src/bytecode/opcode.rs   enum OpCode            -> opcode numbers
  bytecode/src/asm/disasm.rs        disassemble_instruction -> what is PRINTED for each opcode:
                                    the operand list (kind + which instruction field it shows)
  bytecode/src/asm/opcodes.rs       parse_instruction (+ collection_opcode) -> what is PARSED for
                                    each mnemonic: operand list, which field each goes to, which
                                    opcode is encoded, how many cache words are appended
  bytecode/src/asm/disasm.rs        the opcodes after which two cache words are skipped

Output coq/Extracted/AasmTable.v: `aasm_table : list row`.  Nothing is checked here beyond "the arm
is of a form I can read" (ExtractError otherwise): that printed and parsed shapes agree for every
opcode is a Coq theorem over the table (Props/C08.v, C08_aasm_table_consistent), so a mnemonic the
disassembler prints and the assembler lacks, or operands in a different order, breaks the proof
and names the opcode.
"""
import re
import extract
from extract import ExtractError, rd, strip_comments, write_if_changed, HEADER

DIS = "bytecode/src/asm/disasm.rs"
ASM = "bytecode/src/asm/opcodes.rs"
OPC = "bytecode/src/bytecode/opcode.rs"


def opcode_enum():
    t = strip_comments(rd(OPC))
    m = re.search(r"pub enum OpCode \{(.*?)\n\}", t, flags=re.S)
    if not m:
        raise ExtractError(f"{OPC}: enum OpCode not found")
    v, out = -1, {}
    for line in m.group(1).split("\n"):
        line = line.strip().rstrip(",")
        if not line:
            continue
        mm = re.fullmatch(r"(\w+)(?:\s*=\s*(\d+))?", line)
        if not mm:
            raise ExtractError(f"{OPC}: cannot read enum line {line!r}")
        v = int(mm.group(2)) if mm.group(2) else v + 1
        out[mm.group(1)] = v
    return out


def split_top(s):
    out, depth, cur = [], 0, ""
    for ch in s:
        if ch in "([{":
            depth += 1
        elif ch in ")]}":
            depth -= 1
        if ch == "," and depth == 0:
            out.append(cur.strip())
            cur = ""
        else:
            cur += ch
    if cur.strip():
        out.append(cur.strip())
    return out


FIELDS_A = ["FA", "FB", "FC"]
FIELDS_B = ["FA", "FImm"]


def print_shapes():
    s = strip_comments(rd(DIS))
    try:
        body = s[s.index("fn disassemble_instruction"):s.index("fn format_constant")]
    except ValueError:
        raise ExtractError(f"{DIS}: disassemble_instruction / format_constant not found")
    arms = re.split(r"\n\s*(?=OpCode::\w+(?:\s*\|\s*OpCode::\w+)*\s*=>)", body)[1:]
    out = {}
    for a in arms:
        m = re.match(r"((?:OpCode::\w+\s*\|?\s*)+)=>", a)
        names = re.findall(r"OpCode::(\w+)", m.group(1))
        if len(names) != 1:
            raise ExtractError(f"{DIS}: arm for several opcodes {names} not supported")
        name = names[0]
        rest = a[m.end():]
        m0 = re.match(r"\s*\"(\w+)\"\.to_string\(\)", rest)
        if m0:
            if m0.group(1) != name:
                raise ExtractError(f"{DIS}: {name} prints mnemonic {m0.group(1)}")
            out[name] = []
            continue
        dec = re.findall(r"let \(([^)]*)\) = (decode_[abc])\(instr\)\s*;", rest)
        fmts = re.findall(r"format!\(\s*\"([^\"]*)\"\s*((?:,[^;]*?)?)\)", rest, flags=re.S)
        if len(dec) != 1 or not fmts:
            raise ExtractError(f"{DIS}: arm of {name} not of the form `let (..) = decode_x(instr); format!(..)`")
        vars_ = [v.strip() for v in dec[0][0].split(",")][1:]
        fields = FIELDS_B if dec[0][1] == "decode_b" else FIELDS_A
        if len(vars_) != len(fields):
            raise ExtractError(f"{DIS}: {name}: {dec[0][1]} destructured into {len(vars_) + 1} parts")
        fmap = {v: f for v, f in zip(vars_, fields) if v != "_"}
        shapes = []
        for fmt, args in fmts:
            text = fmt.split(";")[0].rstrip()
            mn = re.match(r"(\w+)\s*", text)
            if not mn or mn.group(1) != name:
                raise ExtractError(f"{DIS}: {name} prints mnemonic {text.split()[0] if text.split() else ''!r}")
            ops = [o.strip() for o in text[mn.end():].split(",") if o.strip()]
            argl = split_top(args.lstrip(","))[:len(ops)]
            if len(argl) != len(ops):
                raise ExtractError(f"{DIS}: {name}: {len(ops)} operands printed from {len(argl)} arguments")
            sh = []
            for o, ar in zip(ops, argl):
                mb = re.fullmatch(r"(\w+)\s*!=\s*0", ar)
                var = mb.group(1) if mb else ar
                if var in ("label",):
                    sh.append(("KLabel", "FImm"))
                    continue
                if var == "target" and o == "@{}":
                    sh.append(("KLabel", "FImm"))
                    continue
                if var not in fmap:
                    raise ExtractError(f"{DIS}: {name}: operand argument {ar!r} is not a decoded field")
                f = fmap[var]
                kind = {"r{}": "KReg", "upval[{}]": "KUpval", "k{}": "KKonst", "{}": None}.get(o, "?")
                if kind == "?":
                    raise ExtractError(f"{DIS}: {name}: operand syntax {o!r} not recognised")
                if kind is None:
                    kind = "KBool" if mb else ("KI16" if f == "FImm" else "KU8")
                sh.append((kind, f))
            shapes.append(sh)
        if any(k == "KLabel" for sh in shapes for k, _ in sh):
            # label / @target variants of a jump: same operands, the target shown symbolically
            shapes = [shapes[0]]
        if len({tuple(x) for x in shapes}) != 1:
            raise ExtractError(f"{DIS}: {name}: its format! variants show different operands")
        out[name] = shapes[0]
    mc = re.search(r"if let Some\(((?:OpCode::\w+\s*\|?\s*)+)\)\s*=\s*opcode\s*\{\s*skip_cache_words = (\d+);", s)
    if not mc:
        raise ExtractError(f"{DIS}: cache-word skipping in disassemble_function not recognised")
    cache = {n: int(mc.group(2)) for n in re.findall(r"OpCode::(\w+)", mc.group(1))}
    return out, cache


PARSERS = {"parse_register": "KReg", "parse_u8": "KU8", "parse_i16": "KI16", "parse_upval_index": "KUpval"}


def parse_shapes():
    s = strip_comments(rd(ASM))
    try:
        body = s[s.index("let instr = match opcode_name.as_str() {"):s.index("other => match collection_opcode(other)")]
    except ValueError:
        raise ExtractError(f"{ASM}: parse_instruction's mnemonic match not found")
    arms = re.split(r"\n\s*(?=\"\w+\"\s*=>)", body)[1:]
    out = {}
    for a in arms:
        name = re.match(r"\"(\w+)\"", a).group(1)
        mt = re.match(r"\"\w+\"\s*=>\s*self\.parse_ternary_reg\(OpCode::(\w+)\)\?", a)
        if mt:
            out[name] = (mt.group(1), [("KReg", "FA"), ("KReg", "FB"), ("KReg", "FC")], 0)
            continue
        enc = re.findall(r"(encode_[ab])\(OpCode::(\w+),\s*([^)]*)\)", a)
        if len(enc) != 1:
            raise ExtractError(f"{ASM}: arm of {name} has {len(enc)} encode calls")
        fields = FIELDS_B if enc[0][0] == "encode_b" else FIELDS_A
        eargs = [x.strip() for x in enc[0][2].split(",")]
        if len(eargs) != len(fields):
            raise ExtractError(f"{ASM}: {name}: {enc[0][0]} with {len(eargs)} arguments")
        fmap = {v: f for v, f in zip(eargs, fields) if v != "0"}
        seq = []
        for m in re.finditer(r"let\s+(\w+)\s*=\s*self\.(parse_\w+)\(\)\?\s*;|let\s+\((\w+),\s*label\)\s*=\s*self\.parse_jump_target\(\)\?\s*;"
                             r"|let\s+(\w+)\s*=\s*match\s+self\.advance\(\)\?\s*\{\s*Token::Bool"
                             r"|let\s+(\w+)\s*=\s*if let Token::Ident\(s\)\s*=\s*&self\.current\s*\{\s*if let Some\(num_str\)\s*=\s*s\.strip_prefix\('k'\)", a):
            if m.group(1):
                if m.group(2) not in PARSERS:
                    raise ExtractError(f"{ASM}: {name}: parser {m.group(2)} not recognised")
                seq.append((m.group(1), PARSERS[m.group(2)]))
            elif m.group(3):
                seq.append((m.group(3), "KLabel"))
            elif m.group(4):
                seq.append((m.group(4), "KBool"))
            else:
                seq.append((m.group(5), "KKonst"))
        sh = []
        for var, kind in seq:
            if var not in fmap:
                raise ExtractError(f"{ASM}: {name}: parsed operand {var} is not encoded")
            sh.append((kind, fmap[var]))
        if len(sh) != len(fmap):
            raise ExtractError(f"{ASM}: {name}: encodes {sorted(fmap)} but parses {[v for v, _ in seq]}")
        mcw = re.search(r"extra_cache_words\s*=\s*(\d+)\s*;", a)
        out[name] = (enc[0][1], sh, int(mcw.group(1)) if mcw else 0)
    # collection_opcode: mnemonics by operand shape
    try:
        cb = s[s.index("fn collection_opcode"):s.index("pub(super) fn encode_a")]
    except ValueError:
        return out
    shapes = {"TwoRegs": [("KReg", "FA"), ("KReg", "FB")], "ThreeRegs": [("KReg", "FA"), ("KReg", "FB"), ("KReg", "FC")],
              "RegRegCount": [("KReg", "FA"), ("KReg", "FB"), ("KU8", "FC")], "RegOffset": [("KReg", "FA"), ("KI16", "FImm")]}
    blocks = re.findall(r"let (\w+) = match name \{(.*?)\n\s*_ => OpCode::Move,\s*\};\s*if \1 != OpCode::Move \{\s*return Some\(\(\1, CollectionShape::(\w+)\)\);", cb, flags=re.S)
    for _, arms_, shp in blocks:
        for n, op in re.findall(r"\"(\w+)\"\s*=>\s*OpCode::(\w+),", arms_):
            out[n] = (op, shapes[shp], 0)
    for n, op, shp in re.findall(r"\"(\w+)\"\s*=>\s*Some\(\(OpCode::(\w+),\s*CollectionShape::(\w+)\)\),", cb):
        out[n] = (op, shapes[shp], 0)
    # the interpretation of the shapes in parse_instruction
    for shp, pat in (("TwoRegs", r"let a = self\.parse_register\(\)\?;\s*self\.skip_comma\(\)\?;\s*let b = self\.parse_register\(\)\?;\s*encode_a\(op, a, b, 0\)"),
                     ("ThreeRegs", r"self\.parse_ternary_reg\(op\)\?"),
                     ("RegRegCount", r"let c = self\.parse_u8\(\)\?;\s*encode_a\(op, a, b, c\)"),
                     ("RegOffset", r"let offset = self\.parse_i16\(\)\?;\s*encode_b\(op, a, offset\)")):
        if not re.search(r"CollectionShape::%s\)\)? => \{?\s*(?:.*?)%s" % (shp, pat), s, flags=re.S):
            raise ExtractError(f"{ASM}: handling of CollectionShape::{shp} not recognised")
    return out


def coq_shape(sh):
    return "[" + "; ".join(f"({k}, {f})" for k, f in sh) + "]"


@extract.register("AasmTable")
def gen_aasm_table():
    ops = opcode_enum()
    prints, cache = print_shapes()
    parses = parse_shapes()
    missing = [n for n in ops if n not in prints]
    if missing:
        raise ExtractError(f"{DIS}: no disassembly arm for {missing[:5]}")
    out = [HEADER.format(src=f"{OPC}, {DIS}, {ASM}"),
           "From Coq Require Import NArith List String.\nFrom Aelys Require Import Model.AasmTypes.\nImport ListNotations.\nLocal Open Scope N_scope.\nLocal Open Scope string_scope.\n",
           "Definition aasm_table : list row := [\n"]
    rows = []
    for n, v in sorted(ops.items(), key=lambda x: x[1]):
        if n in parses:
            pop, psh, pcw = parses[n]
            if pop not in ops:
                raise ExtractError(f"{ASM}: {n} encodes unknown opcode {pop}")
            par = f"(Some (Parse {ops[pop]} {coq_shape(psh)} {pcw}))"
        else:
            par = "None"
        rows.append(f"  Row {v} \"{n}\" {coq_shape(prints[n])} {cache.get(n, 0)} {par}")
    out.append(";\n".join(rows) + "\n].\n")
    extra = sorted(n for n in parses if n not in ops)
    out.append("(* mnemonics the assembler accepts that are not opcodes: %s *)\n" % (", ".join(extra) or "none"))
    return write_if_changed("AasmTable.v", "".join(out))


LEX = "bytecode/src/asm/lexer.rs"
CH = {"\\n": 10, "\\r": 13, "\\t": 9, "\\\\": 92, "\\0": 0, "\"": 34, "\\\"": 34, "\\'": 39}


def char_code(lit):
    if lit in CH:
        return CH[lit]
    if len(lit) == 1:
        return ord(lit)
    raise ExtractError(f"character literal {lit!r} not recognised")


@extract.register("AasmEscapes")
def gen_aasm_escapes():
    """escape_string (disasm.rs) and read_string (lexer.rs): the two escape tables and the \\xNN rule"""
    d = rd(DIS)
    try:
        body = d[d.index("pub fn escape_string"):]
        body = body[:body.index("\n}\n") + 3]
    except ValueError:
        raise ExtractError(f"{DIS}: escape_string not found")
    esc = []
    for m in re.finditer(r"'((?:\\.|[^'\\]))'\s*=>\s*result\.push_str\(\"\\\\((?:\\.|[^\"\\]))\"\)", body):
        esc.append((char_code(m.group(1)), char_code(m.group(2))))
    if not esc:
        raise ExtractError(f"{DIS}: escape_string: no `'c' => result.push_str(\"\\\\x\")` arms recognised")
    mh = re.search(r"c if c\.(is_ascii_control|is_control)\(\)\s*=>\s*\{(.*?)\n\s*\}", body, flags=re.S)
    if not mh:
        raise ExtractError(f"{DIS}: escape_string: control-character arm not recognised")
    if mh.group(1) != "is_ascii_control" or 'format!("\\\\x{:02x}", c as u32)' not in mh.group(2):
        raise ExtractError(f"{DIS}: escape_string: control characters are not spelled `\\\\x{{:02x}}` of an ASCII code point "
                           f"(guard {mh.group(1)}): the model was written for is_ascii_control + `c as u32`")
    if not re.search(r"\n\s*c => result\.push\(c\),", body):
        raise ExtractError(f"{DIS}: escape_string: pass-through arm not recognised")
    l = rd(LEX)
    try:
        lb = l[l.index("fn read_string"):]
        lb = lb[:lb.index("\n    }\n") + 6]
    except ValueError:
        raise ExtractError(f"{LEX}: read_string not found")
    une = []
    for m in re.finditer(r"Some\(\(_, '((?:\\.|[^'\\]))'\)\) => result\.push\('((?:\\.|[^'\\]))'\),", lb):
        une.append((char_code(m.group(1)), char_code(m.group(2))))
    need = ["Some((_, '\"')) => break,", "Some((_, 'x')) => {", "for _ in 0..2 {", "c.is_ascii_hexdigit()", "u8::from_str_radix(&hex, 16)", "result.push(byte as char);",
            "Some((_, c)) => result.push(c),"]
    flat = " ".join(lb.split())
    for n in need:
        if " ".join(n.split()) not in flat:
            raise ExtractError(f"{LEX}: read_string: `{n}` not found (shape changed)")
    une = [(a, b) for a, b in une if not (a == 10 and b == 10)]     # the raw-newline arm also bumps the line counter
    out = [HEADER.format(src=f"{DIS} (escape_string), {LEX} (read_string)"),
           "From Coq Require Import NArith List.\nImport ListNotations.\nLocal Open Scope N_scope.\n",
           "(* character -> letter written after the backslash *)\n",
           "Definition ESC_TABLE : list (N * N) := [%s].\n" % "; ".join(f"({a}, {b})" for a, b in esc),
           "(* letter after the backslash -> character *)\n",
           "Definition UNESC_TABLE : list (N * N) := [%s].\n" % "; ".join(f"({a}, {b})" for a, b in une)]
    return write_if_changed("AasmEscapes.v", "".join(out))
