"""C02 translator: which registers each dispatch arm reads and writes -> coq/Extracted/RegUse.v

Reads (current working tree) runtime/src/vm/dispatch/ops/*.inc: for every arm of the
`match opcode_byte` the operands that appear in `reg_get!(base + X as usize [+ k])` (read) and
`reg_set!(base + X as usize [+ k], ..)` (written), through local aliases
(`let iter_idx = base + a as usize;`, `let end_idx = iter_idx + 1;`), and whether the arm moves
`ip` by its immediate (conditionally or always).  An access the translator cannot resolve to an
operand is recorded as such: the liveness model (Model/CallLive.v) then errs on the side that can
only lose alarms (an unresolved read is no read, an unresolved write writes everything).
The calling convention itself (callee frame at dest + 1 / callee register + 1, result written by
the callee's Return into caller_base + dest) is checked by shape and reported as call_shapes.
"""
import glob, os, re
import extract
from extract import ExtractError, rd, write_if_changed, HEADER

OPS = "runtime/src/vm/dispatch/ops"


def _arms(text):
    i = text.find("match opcode_byte")
    if i < 0:
        return
    pos = text.index("{", i) + 1
    n = len(text)
    head = re.compile(r"\s*((?://[^\n]*\n\s*)*)((?:\d+(?:\s*\.\.=\s*\d+)?\s*\|\s*)*\d+(?:\s*\.\.=\s*\d+)?)\s*=>\s*\{")
    while pos < n:
        m = head.match(text, pos)
        if m:
            bs = []
            for part in m.group(2).split("|"):
                part = part.strip()
                if "..=" in part:
                    a, b = part.split("..=")
                    bs += list(range(int(a), int(b) + 1))
                else:
                    bs.append(int(part))
            j, d = m.end(), 1
            while d > 0:
                c = text[j]
                if c == "{":
                    d += 1
                elif c == "}":
                    d -= 1
                elif c == "/" and text[j + 1] == "/":
                    j = text.index("\n", j)
                elif c == '"':
                    j += 1
                    while text[j] != '"':
                        if text[j] == "\\":
                            j += 1
                        j += 1
                j += 1
            yield bs, text[m.end():j - 1]
            pos = re.compile(r"\s*,?").match(text, j).end()
        else:
            nl = text.find("\n", pos)
            if nl < 0:
                break
            if text[pos:nl].strip().startswith("}"):
                break
            pos = nl + 1


def _strip(s):
    return re.sub(r"//[^\n]*", "", s)


def _resolve(expr, aliases, ren):
    """-> (field, offset) or None"""
    e = re.sub(r"\s+", " ", expr.strip())
    for _ in range(4):
        m = re.fullmatch(r"(\w+)(?: \+ (\d+))?", e)
        if m and m.group(1) in aliases:
            base, k = aliases[m.group(1)]
            e = base if not (k or m.group(2)) else f"{base} + {k + int(m.group(2) or 0)}"
            e = re.sub(r"\+ (\d+) \+ (\d+)$", lambda mm: f"+ {int(mm.group(1)) + int(mm.group(2))}", e)
        else:
            break
    m = re.fullmatch(r"base \+ (\w+) as usize(?: \+ (\d+))?", e)
    if not m:
        return None
    f = ren.get(m.group(1), m.group(1))
    if f not in ("a", "b", "c"):
        return None
    return (f, int(m.group(2) or 0))


HAND_RULED = ["Call", "CallCached", "CallGlobal", "CallGlobalMono", "CallUpval", "CallGlobalNative",
              "Return", "Return0", "TailCallUpval"]     # Model/CallLive.v node_of writes their rule out


def analyse():
    table = {}
    from extractors.c04 import parse_opcodes
    nums = dict(parse_opcodes()[0])
    absent = [n for n in HAND_RULED if n not in nums]
    if absent:
        raise ExtractError(f"opcode.rs: no opcode named {absent} (Model/CallLive.v has a hand rule for it)")
    hand = {nums[n] for n in HAND_RULED}
    files = sorted(glob.glob(os.path.join(extract.REPO, OPS, "*.inc")))
    if not files:
        raise ExtractError(f"no dispatch files under {OPS}")
    for path in files:
        text = open(path, encoding="utf-8").read()
        for bs, body in _arms(text):
            b = _strip(body)
            if re.fullmatch(r"\s*include!\([^)]*\);?\s*", b):
                continue
            dec = re.search(r"let \(([^)]*)\) = decode_(\w+)\(instr\)", b)
            ren = {}
            if dec:
                names = [x.strip() for x in dec.group(1).split(",")]
                fields = {"abc": ["a", "b", "c"], "aimm": ["a", None]}.get(dec.group(2))
                if fields and len(fields) == len(names):
                    ren = {n: f for n, f in zip(names, fields) if f}
            aliases = {}
            for m in re.finditer(r"let (?:mut )?(\w+)(?:\s*:\s*usize)? = ([^;]+);", b):
                e = re.sub(r"\s+", " ", m.group(2).strip())
                mm = re.fullmatch(r"(base \+ \w+ as usize)(?: \+ (\d+))?", e) or re.fullmatch(r"(\w+)(?: \+ (\d+))?", e)
                if mm and (mm.group(1).startswith("base +") or mm.group(1) in aliases):
                    if mm.group(1) in aliases:
                        b0, k0 = aliases[mm.group(1)]
                        aliases[m.group(1)] = (b0, k0 + int(mm.group(2) or 0))
                    else:
                        aliases[m.group(1)] = (mm.group(1), int(mm.group(2) or 0))
            gets, sets = set(), set()
            bad_get = bad_set = False
            for m in re.finditer(r"reg_get!\(\s*([^;]*?)\s*\)\s*[;.,)\n]", b):
                r = _resolve(m.group(1), aliases, ren)
                if r:
                    gets.add(r)
                else:
                    bad_get = True
            for m in re.finditer(r"reg_set!\(\s*([^,]*?)\s*,", b):
                r = _resolve(m.group(1), aliases, ren)
                if r:
                    sets.add(r)
                else:
                    bad_set = True
            raw = bool(re.search(r"regs_ptr|self\.registers|registers\[", b))
            # the frame base handed to anything but the two macros (a helper that may read or write
            # registers on the arm's behalf): nothing is assumed about what that does.  capture_upvalue
            # only records a register's address (runtime/src/vm/closures.rs)
            rest = re.sub(r"reg_get!\([^;]*?\)\s*[;.,)\n]", "", b)
            rest = re.sub(r"reg_set!\(\s*[^,]*?,", "", rest)
            rest = re.sub(r"let (?:mut )?\w+(?:\s*:\s*usize)? = base \+ \w+ as usize(?: \+ \d+)?;", "", rest)
            rest = re.sub(r"self\.capture_upvalue\(base, ", "", rest)
            if not any(x in hand for x in bs) and re.search(r"\bbase\b", rest):
                raw = True
            # ip = (ip as isize + imm as isize) as usize;  at brace depth 0 of the arm = always taken
            jump = "JNone"
            REL = r"\(ip as isize \+ \w+ as isize\) as usize"
            # names bound to the relative target: `let target = (ip as isize + imm as isize) as usize;`
            targets = set(m.group(1) for m in re.finditer(r"let (\w+)(?:\s*:\s*usize)? = " + REL + r";", b))
            for m in re.finditer(r"(?<![\w.])ip\s*([-+*]?=)(?!=)\s*([^;]*);", b):
                rhs = re.sub(r"\s+", " ", m.group(2).strip())
                if m.group(1) == "=" and (re.fullmatch(REL, rhs) or rhs in targets):
                    depth = b[:m.start()].count("{") - b[:m.start()].count("}")
                    jump = "JAlways" if depth == 0 and jump == "JNone" else "JCond"
                elif not any(x in hand for x in bs):
                    # an arm that moves ip in a way this translator does not understand would get
                    # wrong successors in the flow graph (and the analysis a path that does not exist)
                    raise ExtractError(f"{os.path.basename(path)}: arm {bs} moves ip in an unrecognised way: `ip {m.group(1)} {rhs}`")
            for x in bs:
                table[x] = dict(file=os.path.basename(path), gets=sorted(gets), sets=sorted(sets),
                                unresolved_write=bad_set or raw, unresolved_read=bad_get or raw, jump=jump)
    return table


def call_shapes():
    """The convention the hand-written call rules of Model/CallLive.v rely on."""
    want = {
        "calls.inc": [r"checked_add\(func_reg as usize\)", r"reg_set!\(\s*caller_base \+ dest as usize"],
        "call_global.inc": [r"checked_add\(dest as usize\)"],
        "call_global_mono.inc": [r"checked_add\(dest as usize\)"],
        "call_upval.inc": [r"checked_add\(dest as usize\)"],
    }
    missing = []
    for f, pats in want.items():
        t = _strip(rd(f"{OPS}/{f}"))
        for p in pats:
            if not re.search(p, t):
                missing.append(f"{f}: {p}")
    return missing


@extract.register("RegUse")
def gen_reguse():
    table = analyse()
    if len(table) < 100:
        raise ExtractError(f"only {len(table)} dispatch arms recognised")
    missing = call_shapes()
    if missing:
        raise ExtractError("calling convention shape not recognised: " + "; ".join(missing))
    F = {"a": "FA", "b": "FB", "c": "FC"}

    def lst(xs):
        return "[" + "; ".join(f"({F[f]}, {k})" for f, k in xs) + "]"
    rows = []
    for op in sorted(table):
        t = table[op]
        rows.append(f"  ({op}, ({lst(t['gets'])}, {lst(t['sets'])}, {'true' if t['unresolved_write'] else 'false'}, "
                    f"{'true' if t['unresolved_read'] else 'false'}, {t['jump']}))")
    text = HEADER.format(src=OPS + "/*.inc") + (
        "From Coq Require Import NArith List.\nImport ListNotations.\nLocal Open Scope N_scope.\n"
        "Inductive fld := FA | FB | FC.\nInductive jk := JNone | JCond | JAlways.\n"
        "(* opcode byte -> (register operands read (operand, offset), register operands written, the arm also writes a\n"
        "   register the translator could not resolve, it also reads one it could not resolve, how it moves ip by its immediate) *)\n"
        "Definition reguse : list (N * (list (fld * N) * list (fld * N) * bool * bool * jk)) := [\n"
        + ";\n".join(rows) + "\n].\n")
    write_if_changed("RegUse.v", text)
