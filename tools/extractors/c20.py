"""C20 translator: which opcode the compiler selects for for-each / indexing / len from the static
type of the operand, and which of those opcodes' VM arms have a case for a string object.

Reads  backend/src/compiler/stmt/looping.rs          (compile_typed_for_each, compile_string_for_each)
       backend/src/compiler/expr/typed/array.rs      (compile_typed_index_access)
       bytecode/src/bytecode/opcode.rs               (opcode numbers)
       runtime/src/vm/dispatch/ops/{control_flow,arrays}.inc  (the arms)
Writes coq/Extracted/Utf8Select.v."""
import re
import extract

ITY = ["String", "Vec", "Array", "Dynamic", "Var"]


def fn_body(text, name):
    m = re.search(r"fn\s+%s\s*(<[^>]*>)?\s*\(" % name, text)
    if not m:
        raise extract.ExtractError(f"fn {name} not found")
    i = text.index("{", text.index(")", m.end()))
    # skip a return type that may contain braces-free text: first `{` after the parameter list's `)` ... find the body start
    depth, j = 1, i + 1
    while j < len(text) and depth:
        if text[j] == "{":
            depth += 1
        elif text[j] == "}":
            depth -= 1
        j += 1
    return text[i + 1:j - 1]


def params_end(text, start):
    depth = 0
    for j in range(start, len(text)):
        if text[j] == "(":
            depth += 1
        elif text[j] == ")":
            depth -= 1
            if depth == 0:
                return j
    raise extract.ExtractError("unbalanced parameter list")


def fn_body2(text, name):
    m = re.search(r"fn\s+%s\b" % name, text)
    if not m:
        raise extract.ExtractError(f"fn {name} not found")
    pe = params_end(text, text.index("(", m.end()))
    i = text.index("{", pe)
    depth, j = 1, i + 1
    while j < len(text) and depth:
        if text[j] == "{":
            depth += 1
        elif text[j] == "}":
            depth -= 1
        j += 1
    return text[i + 1:j - 1]


def match_arms(body, scrutinee_re):
    """[(list of InferType names or ['_'], arm text)] of `match <scrutinee> { ... }` on InferType."""
    m = re.search(r"match\s+" + scrutinee_re + r"\s*\{", body)
    if not m:
        raise extract.ExtractError("match on the operand's type not found")
    i = m.end()
    depth, j = 1, i
    while j < len(body) and depth:
        if body[j] == "{":
            depth += 1
        elif body[j] == "}":
            depth -= 1
        j += 1
    mb = body[i:j - 1]
    pat = re.compile(r"(?:^|[,}\n])\s*((?:InferType::\w+(?:\([^)]*\))?\s*\|?\s*)+|_)\s*=>", re.M)
    heads = list(pat.finditer(mb))
    arms = []
    for n, h in enumerate(heads):
        end = heads[n + 1].start() if n + 1 < len(heads) else len(mb)
        names = re.findall(r"InferType::(\w+)", h.group(1)) or ["_"]
        arms.append((names, mb[h.end():end]))
    if not arms:
        raise extract.ExtractError("no arms found in the match on the operand's type")
    return arms


def opcode_numbers(text):
    m = re.search(r"pub\s+enum\s+OpCode\s*\{(.*?)\n\}", text, flags=re.S)
    if not m:
        raise extract.ExtractError("enum OpCode not found")
    nums, cur = {}, -1
    for item in extract.strip_comments(m.group(1)).split(","):
        item = item.strip()
        if not item:
            continue
        mm = re.match(r"(\w+)\s*(?:=\s*(\d+))?$", item)
        if not mm:
            raise extract.ExtractError(f"cannot read OpCode variant {item!r}")
        cur = int(mm.group(2)) if mm.group(2) else cur + 1
        nums[mm.group(1)] = cur
    return nums


def vm_arm(texts, n):
    for t in texts:
        # an arm may be shared by several opcodes: `177 | 178 | 179 => {`
        m = re.search(r"^\s*(?:\d+\s*\|\s*)*%d(?:\s*\|\s*\d+)*\s*=>\s*\{" % n, t, flags=re.M)
        if m:
            i = m.end()
            depth, j = 1, i
            while j < len(t) and depth:
                if t[j] == "{":
                    depth += 1
                elif t[j] == "}":
                    depth -= 1
                j += 1
            return t[i:j - 1]
    raise extract.ExtractError(f"no dispatch arm for opcode {n}")


@extract.register("Utf8Select")
def gen_utf8_select():
    loop = extract.strip_comments(extract.rd("backend/src/compiler/stmt/looping.rs"))
    fe = fn_body2(loop, "compile_typed_for_each")
    string_fn_op = re.findall(r"OpCode::(\w*ForLoop)", fn_body2(loop, "compile_string_for_each"))
    if len(set(string_fn_op)) != 1:
        raise extract.ExtractError("compile_string_for_each does not emit exactly one *ForLoop opcode")
    sel = {}
    for names, arm in match_arms(fe, r"&?iterable\.ty"):
        ops = set(re.findall(r"OpCode::(\w*ForLoop)", arm))
        if "compile_string_for_each" in arm:
            ops.add(string_fn_op[0])
        if len(ops) > 1:
            raise extract.ExtractError(f"for-each arm {names} names several loop opcodes {sorted(ops)}")
        op = ops.pop() if ops else None
        if op is None and "Err(" not in arm:
            raise extract.ExtractError(f"for-each arm {names} neither selects a loop opcode nor is an error")
        for nm in names:
            sel[nm] = op
    arr = extract.strip_comments(extract.rd("backend/src/compiler/expr/typed/array.rs"))
    ia = fn_body2(arr, "compile_typed_index_access")
    isel = {}
    for names, arm in match_arms(ia, r"&?object\.ty"):
        ops = re.findall(r"OpCode::(\w+)", arm)
        if not ops:
            raise extract.ExtractError(f"index arm {names} names no opcode")
        # typed families (VecLoadI/F/B/P, ArrayLoadI/...): the pointer variant serves strings-as-elements; keep the family's P member
        op = ops[0] if len(ops) == 1 else [o for o in ops if o.endswith("P")][0]
        for nm in names:
            isel[nm] = op
    nums = opcode_numbers(extract.rd("bytecode/src/bytecode/opcode.rs"))
    incs = [extract.strip_comments(extract.rd("runtime/src/vm/dispatch/ops/control_flow.inc")),
            extract.strip_comments(extract.rd("runtime/src/vm/dispatch/ops/arrays.inc"))]
    loop_ops = sorted({o for o in sel.values() if o})
    load_ops = sorted(set(isel.values()))
    for o in loop_ops + load_ops + ["VecLen"]:
        if o not in nums:
            raise extract.ExtractError(f"opcode {o} not in enum OpCode")
    handles = {o: ("ObjectKind::String" in vm_arm(incs, nums[o])) for o in loop_ops + load_ops + ["VecLen"]}

    def ity(nm):
        return "I" + nm if nm in ITY else None
    out = [extract.HEADER.format(src="backend/src/compiler/stmt/looping.rs, expr/typed/array.rs, bytecode opcode.rs, runtime dispatch arms"),
           "From Coq Require Import Bool.\n\n",
           "(* static type of the operand as the backend's match sees it *)\n",
           "Inductive ity := " + " | ".join("I" + n for n in ITY) + " | IOther.\n",
           "Inductive loop_op := " + " | ".join("Op" + o for o in loop_ops) + ".\n",
           "Inductive load_op := " + " | ".join("Op" + o for o in load_ops) + ".\n\n"]
    default = sel.get("_")
    out.append("Definition foreach_select (t : ity) : option loop_op :=\n  match t with\n")
    for nm in ITY:
        op = sel.get(nm, default)
        out.append(f"  | I{nm} => " + (f"Some Op{op}" if op else "None") + "\n")
    out.append("  | IOther => " + (f"Some Op{default}" if default else "None") + "\n  end.\n\n")
    idefault = isel.get("_")
    if idefault is None:
        raise extract.ExtractError("index access has no default arm")
    out.append("Definition index_select (t : ity) : load_op :=\n  match t with\n")
    for nm in ITY:
        out.append(f"  | I{nm} => Op{isel.get(nm, idefault)}\n")
    out.append(f"  | IOther => Op{idefault}\n  end.\n\n")
    out.append("(* does the VM arm of the opcode have a case for a string object? *)\n")
    out.append("Definition loop_op_handles_string (o : loop_op) : bool :=\n  match o with\n"
               + "".join(f"  | Op{o} => {'true' if handles[o] else 'false'}\n" for o in loop_ops) + "  end.\n\n")
    out.append("Definition load_op_handles_string (o : load_op) : bool :=\n  match o with\n"
               + "".join(f"  | Op{o} => {'true' if handles[o] else 'false'}\n" for o in load_ops) + "  end.\n\n")
    out.append(f"Definition dynamic_len_handles_string : bool := {'true' if handles['VecLen'] else 'false'}.\n")
    return extract.write_if_changed("Utf8Select.v", "".join(out))
