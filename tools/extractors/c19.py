"""C19 translator: the tables, match-arm lists, guard conditions and the order of checks of the
module loader  ->  coq/Extracted/ModulesTables.v

  modules/src/resolution/patterns.rs   full_search_patterns(): the Script patterns, in order, and the
                                       path each builds (to_path)                 -> script_patterns
  driver/src/modules/loader/exports.rs collect_exports: which statements export and whether the insert
                                       is guarded by is_pub                       -> fn/let_export_needs_pub
                                       register_exports: bare binding guarded by alias.is_none(),
                                       selected symbols checked against exports   -> bare_unless_aliased,
                                                                                     symbols_checked
  driver/src/modules/loader/load.rs    the same two guards in the memo-hit re-binding (must agree);
                                       order: std short-circuit < resolution < cycle check ? memo
                                       < push, all on the key made by module_key   -> cycle_before_memo
  driver/src/modules/needs.rs          what each import form adds to known_globals (entry; both copies
                                       must agree)                                -> entry_grant
  driver/src/modules/loader/compile.rs the same for a non-entry module            -> module_grant
                                       registered before the nested imports, body after them,
                                       register_exports last (asserted)
  driver/src/modules/loader/resolution.rs  containment check, entry-directory fallback condition (asserted)
  driver/src/modules/loader/needs.rs   get_load_result: Symbols -> first symbol; fallback needs > 1 segment

Everything is found by structure (function bodies by brace matching, match arms split at top level,
variable names captured from the source), never by line numbers or layout; a shape that is gone raises
ExtractError so that the check reports the tie as broken instead of silently trusting the hand model."""
import re
import extract
from extract import ExtractError, rd, strip_comments, write_if_changed, HEADER

FORMS = ["FModule", "FAlias", "FSymbols", "FWildcard"]


# ------------------------------------------------------------------ small Rust structure helpers
def block_at(text, i, what):
    """text[i] == '{' : returns (inside, index after the closing brace)"""
    if text[i] != "{":
        raise ExtractError(f"expected '{{' for {what}")
    depth, j = 0, i
    while j < len(text):
        c = text[j]
        if c == '"':                      # skip string literals
            j += 1
            while j < len(text) and text[j] != '"':
                j += 2 if text[j] == "\\" else 1
        elif c == "{":
            depth += 1
        elif c == "}":
            depth -= 1
            if depth == 0:
                return text[i + 1:j], j + 1
        j += 1
    raise ExtractError(f"unbalanced braces in {what}")


def fn_body(text, name, what=None):
    m = re.search(r"\bfn\s+%s\b[^{;]*" % re.escape(name), text)
    if not m:
        raise ExtractError(f"fn {name} not found" + (f" in {what}" if what else ""))
    return block_at(text, text.index("{", m.end() - 1) if text[m.end() - 1] != "{" else m.end() - 1, f"fn {name}")[0]


def all_fn_bodies(text, name):
    out = []
    for m in re.finditer(r"\bfn\s+%s\b[^{;]*" % re.escape(name), text):
        i = text.index("{", m.end() - 1)
        out.append(block_at(text, i, f"fn {name}")[0])
    return out


def matches_on(text, scrutinee_re):
    """bodies of every `match <scrutinee> {`"""
    out = []
    for m in re.finditer(r"\bmatch\s+" + scrutinee_re + r"\s*\{", text):
        out.append(block_at(text, m.end() - 1, "match")[0])
    return out


def arms(body):
    """split a match body into (pattern, arm body) at nesting depth 0"""
    res, i, n = [], 0, len(body)
    while i < n:
        # pattern: up to '=>' at depth 0
        depth, j = 0, i
        while j < n:
            c = body[j]
            if c in "([{":
                depth += 1
            elif c in ")]}":
                depth -= 1
            elif c == "=" and depth == 0 and body[j:j + 2] == "=>":
                break
            j += 1
        if j >= n:
            break
        pat = body[i:j].strip().lstrip(",").strip()
        k = j + 2
        while k < n and body[k].isspace():
            k += 1
        if k < n and body[k] == "{":
            inner, end = block_at(body, k, "match arm")
            res.append((pat, inner))
            i = end
        else:
            depth, e = 0, k
            while e < n:
                c = body[e]
                if c in "([{":
                    depth += 1
                elif c in ")]}":
                    depth -= 1
                elif c == "," and depth == 0:
                    break
                e += 1
            res.append((pat, body[k:e]))
            i = e
        while i < n and (body[i].isspace() or body[i] == ","):
            i += 1
    return res


def forms_of_pattern(pat, remaining):
    """import forms an ImportKind pattern covers"""
    out = []
    for alt in re.split(r"\|", pat):
        a = alt.strip()
        if a == "_":
            out += [f for f in remaining if f not in out]
        elif "Wildcard" in a:
            out.append("FWildcard")
        elif "Symbols" in a:
            out.append("FSymbols")
        elif "Module" in a:
            if re.search(r"alias\s*:\s*None", a):
                out.append("FModule")
            elif re.search(r"alias\s*:\s*Some", a):
                out.append("FAlias")
            else:
                out += ["FModule", "FAlias"]
        else:
            raise ExtractError(f"unknown ImportKind pattern {a!r}")
    return out


# ------------------------------------------------------------------ the pieces
def script_patterns():
    src = strip_comments(rd("modules/src/resolution/patterns.rs"))
    body = fn_body(src, "full_search_patterns")
    m = re.search(r"&\s*\[", body)
    if not m:
        raise ExtractError("full_search_patterns: no array literal")
    depth, j = 0, m.end() - 1
    while j < len(body):
        if body[j] == "[":
            depth += 1
        elif body[j] == "]":
            depth -= 1
            if depth == 0:
                break
        j += 1
    entries, cur, depth = [], [], 0
    for ch in body[m.end():j]:
        if ch in "{([":
            depth += 1
        elif ch in "})]":
            depth -= 1
        if ch == "," and depth == 0:
            entries.append("".join(cur).strip())
            cur = []
        else:
            cur.append(ch)
    if "".join(cur).strip():
        entries.append("".join(cur).strip())
    out = []
    for e in entries:
        mm = re.match(r"(?:ExtensionPattern::)?(\w+)\s*\{(.*)\}\s*$", e, flags=re.S)
        if not mm:
            raise ExtractError(f"full_search_patterns: cannot parse entry {e!r}")
        variant, fields = mm.group(1), mm.group(2)
        kind = re.search(r"kind\s*:\s*(?:ModuleKind::)?(\w+)", fields)
        if not kind:
            raise ExtractError(f"full_search_patterns: entry without kind: {e!r}")
        if kind.group(1) != "Script":
            continue
        ext = re.search(r'ext\s*:\s*"([^"]*)"', fields)
        if not ext or ext.group(1) != "aelys":
            raise ExtractError(f"script pattern with an extension the model does not know: {e!r}")
        if variant not in ("Direct", "ModFile"):
            raise ExtractError(f"script pattern variant the model does not know: {variant}")
        out.append("P" + variant)
    if not out:
        raise ExtractError("full_search_patterns: no script pattern")
    # the path each variant builds
    tp = fn_body(src, "to_path")
    ms = matches_on(tp, r"self")
    if not ms:
        raise ExtractError("ExtensionPattern::to_path: no match on self")
    got = {}
    for pat, b in arms(ms[0]):
        v = re.search(r"ExtensionPattern::(\w+)", pat)
        if v:
            got[v.group(1)] = b
    d, mf = got.get("Direct", ""), got.get("ModFile", "")
    if not re.search(r"with_extension\s*\(\s*ext\s*\)", d):
        raise ExtractError("ExtensionPattern::Direct no longer builds base_path.with_extension(ext)")
    if not (re.search(r"\.join\s*\(", mf) and re.search(r'"mod\.\{\}"', mf)):
        raise ExtractError('ExtensionPattern::ModFile no longer builds base_path.join("mod.<ext>")')
    return out


def export_rule():
    src = strip_comments(rd("driver/src/modules/loader/exports.rs"))
    body = fn_body(src, "collect_exports")
    ms = matches_on(body, r"&?\s*\w+\.kind")
    if not ms:
        raise ExtractError("collect_exports: no match on the statement kind")
    res = {}
    for pat, b in arms(ms[0]):
        which = "fn" if "StmtKind::Function" in pat else "let" if "StmtKind::Let" in pat else None
        if which is None:
            if re.search(r"\.insert\s*\(", b):
                raise ExtractError(f"collect_exports exports from a statement kind the model does not know: {pat!r}")
            continue
        if not re.search(r"\bexports\s*\.\s*insert\s*\(", b):
            raise ExtractError(f"collect_exports: the {which} arm no longer inserts into exports")
        # the flag may be read through the statement (`func.is_pub`), bound by the pattern (`is_pub`)
        # or bound under another name (`is_pub: public`)
        names = ["is_pub"] + re.findall(r"\bis_pub\s*:\s*(\w+)", pat)
        guard = None
        for nm_ in names:
            guard = guard or re.search(r"\bif\s+\*?\s*(?:\w+\s*\.\s*)?%s\b([^{]*)\{" % re.escape(nm_), b)
        res[which] = bool(guard and not re.search(r"\|\|", guard.group(1)))
    if set(res) != {"fn", "let"}:
        raise ExtractError("collect_exports: Function / Let arms not found")
    return res["fn"], res["let"]


def binding_guards(text, where):
    """-> (bare binding guarded by alias.is_none(), selected symbols checked against the exports)"""
    bare, checked = None, None
    for ms in matches_on(text, r"&?\s*\w+\.kind"):
        for pat, b in arms(ms):
            if "ImportKind" not in pat:
                continue
            fs = forms_of_pattern(pat, FORMS)
            if "FModule" in fs and "FAlias" in fs and "set_global" in b:
                g = re.search(r"\bif\s+(\w+)\s*\.\s*is_none\s*\(\s*\)\s*\{", b)
                if g:
                    inner, _ = block_at(b, g.end() - 1, "alias guard")
                    ok = "set_global" in inner and len(re.findall(r"set_global\s*\(", b)) == 2
                    bare = ok if bare is None else (bare and ok)
                else:
                    bare = False
            if fs == ["FSymbols"] and "set_global" in b:
                ok = bool(re.search(r"!\s*[\w\.]*exports\s*\.\s*contains_key\s*\(", b)) and "SymbolNotFound" in b
                checked = ok if checked is None else (checked and ok)
    if bare is None or checked is None:
        raise ExtractError(f"{where}: Module / Symbols binding arms not found")
    return bare, checked


def grant_table(text, where):
    """import form -> what its arm inserts into known_globals: GExports | GSymbols | GNone.
    Looks at every `match <x>.kind` of the file whose arms are ImportKind patterns and insert into
    known_globals (needs.rs has two copies of the loop; a helper function is fine); they must agree."""
    tables = []
    for ms in matches_on(text, r"&?\s*[\w\.]*kind"):
        a = arms(ms)
        if not any("ImportKind" in p for p, _ in a):
            continue
        if not any(re.search(r"(?<![\w])known_globals\s*\.\s*insert\s*\(", b) for _, b in a):
            continue
        table, remaining = {}, list(FORMS)
        for pat, b in a:
            fs = forms_of_pattern(pat, remaining)
            ins = re.search(r"(?<![\w])known_globals\s*\.\s*insert\s*\(", b)
            if not ins:
                g = "GNone"
            else:
                loops = [(m.start(), m.group(2)) for m in re.finditer(r"\bfor\s+(\w+)\s+in\s+([^{]+)\{", b) if m.start() < ins.start()]
                src_expr = loops[-1][1] if loops else ""
                if re.search(r"exports", src_expr):
                    g = "GExports"
                elif re.search(r"\bsymbols\b", src_expr):
                    g = "GSymbols"
                else:
                    raise ExtractError(f"{where}: cannot tell what the {fs} arm inserts into known_globals")
            for f in fs:
                if f in remaining:
                    remaining.remove(f)
                    table[f] = g
        for f in remaining:
            table[f] = "GNone"
        tables.append(table)
    if not tables:
        raise ExtractError(f"{where}: no match on the import kind that fills known_globals")
    if any(t != tables[0] for t in tables):
        raise ExtractError(f"{where}: the loops that fill known_globals no longer treat the import forms alike")
    return tables[0]


def load_order():
    src = strip_comments(rd("driver/src/modules/loader/load.rs"))
    body = fn_body(src, "load_module")
    pos = {}
    m = re.search(r"is_std_module\s*\(", body)
    pos["std"] = m.start() if m else None
    m = re.search(r"resolve_path_with_fallback\s*\(", body)
    pos["resolve"] = m.start() if m else None
    mk = re.search(r"let\s+(\w+)\s*=\s*(?:Self|self)\s*(?:::|\.)\s*module_key\s*\(", body)
    if not mk:
        raise ExtractError("load_module: the module key is no longer made by module_key(resolution, ..)")
    key = mk.group(1)
    pos["key"] = mk.start()
    m = re.search(r"loading_stack\s*\.\s*contains\s*\(\s*&\s*%s\s*\)" % key, body)
    pos["cycle"] = m.start() if m else None
    m = re.search(r"loaded_modules\s*\.\s*contains_key\s*\(\s*&\s*%s\s*\)" % key, body)
    pos["memo"] = m.start() if m else None
    m = re.search(r"loading_stack\s*\.\s*push\s*\(\s*%s\b" % key, body)
    pos["push"] = m.start() if m else None
    m = re.search(r"loading_stack\s*\.\s*pop\s*\(", body)
    pos["pop"] = m.start() if m else None
    missing = [k for k, v in pos.items() if v is None]
    if missing:
        raise ExtractError(f"load_module: steps not found on the module key `{key}`: {missing}")
    if not (pos["std"] < pos["resolve"] < pos["key"] < min(pos["cycle"], pos["memo"]) and max(pos["cycle"], pos["memo"]) < pos["push"] < pos["pop"]):
        raise ExtractError("load_module: std short-circuit / resolution / key / checks / push / pop are no longer in that order")
    # the cycle check must return the CircularDependency error
    cb, _ = block_at(body, body.index("{", pos["cycle"]), "cycle check")
    if "CircularDependency" not in cb or "return" not in cb:
        raise ExtractError("load_module: the loading-stack check no longer returns CircularDependency")
    return pos["cycle"] < pos["memo"], body


def compile_order():
    src = strip_comments(rd("driver/src/modules/loader/compile.rs"))
    fn_body(src, "compile_module")          # must exist; its steps may live in helper functions of the file
    body = src
    def at(rx, what):
        m = re.search(rx, body)
        if not m:
            raise ExtractError(f"compile_module: {what} not found")
        return m.start()
    reg = at(r"loaded_modules\s*\.\s*insert\s*\(", "registration in loaded_modules")
    nested = at(r"self\s*\.\s*load_module\s*\(", "nested load_module")
    swap = at(r"self\s*\.\s*base_dir\s*=", "base_dir swap")
    execute = at(r"\.\s*execute\s*\(", "execution of the body")
    sync = at(r"sync_globals_to_hashmap\s*\(", "sync_globals_to_hashmap")
    regexp = at(r"self\s*\.\s*register_exports\s*\(", "register_exports")
    if not (reg < nested and swap < nested < execute < sync < regexp):
        raise ExtractError("compile_module: registration / base_dir swap / nested imports / body / sync / register_exports are no longer in that order")
    return body


def resolution_shape():
    src = strip_comments(rd("driver/src/modules/loader/resolution.rs"))
    if not re.search(r"!\s*canonical\s*\.\s*starts_with\s*\(", src):
        raise ExtractError("resolution.rs: the containment check (canonical.starts_with(root)) is gone")
    rmp = fn_body(src, "resolve_module_path")
    if not re.search(r"self\s*\.\s*base_dir\s*!=\s*self\s*\.\s*entry_dir|self\s*\.\s*entry_dir\s*!=\s*self\s*\.\s*base_dir", rmp):
        raise ExtractError("resolve_module_path: the entry-directory lookup is no longer conditional on base_dir != entry_dir")
    if not re.search(r"\.\s*module\s*\(\s*&\s*\w+\s*\)", rmp) or "explicit_path" not in rmp and ".path" not in rmp:
        raise ExtractError("resolve_module_path: the manifest's explicit path is no longer consulted")
    src2 = strip_comments(rd("driver/src/modules/loader/needs.rs"))
    fb = fn_body(src2, "resolve_path_with_fallback")
    if not re.search(r"\.\s*len\s*\(\s*\)\s*>\s*1", fb):
        raise ExtractError("resolve_path_with_fallback: the parent+symbol fallback is no longer limited to paths of more than one segment")
    glr = fn_body(src2, "get_load_result")
    sym = [b for p, b in arms(matches_on(glr, r"&?\s*\w+\.kind")[0]) if "Symbols" in p]
    if not sym or not re.search(r"\.\s*first\s*\(", sym[0]):
        raise ExtractError("get_load_result: a symbols import no longer yields its first symbol")


def repl_memo():
    """driver/src/api/repl.rs: is the session's loaded-module record, taken out of the VM with
    take_repl_session(), put back when loading the input's imports FAILS as well?"""
    src = strip_comments(rd("driver/src/api/repl.rs"))
    body = fn_body(src, "run_with_vm_and_opt")
    take = re.search(r"take_repl_session\s*\(", body)
    call = re.search(r"\bload_modules_with_memo\s*\(", body)
    if not take or not call or call.start() < take.start():
        raise ExtractError("run_with_vm_and_opt: take_repl_session / load_modules_with_memo not found in that order")
    # end of the call expression
    depth, j = 0, call.end() - 1
    while j < len(body):
        if body[j] == "(":
            depth += 1
        elif body[j] == ")":
            depth -= 1
            if depth == 0:
                break
        j += 1
    after = body[j + 1:]
    sets = [m.start() for m in re.finditer(r"set_repl_session\s*\(", after)]
    if not sets:
        raise ExtractError("run_with_vm_and_opt: the session record is never put back")
    if re.match(r"\s*\?", after):
        return False                       # `load(..)?` : the error leaves before anything is put back
    # `match load(..) { Ok(..) => .., Err(..) => .. }`
    before = body[:call.start()]
    mm = re.search(r"\bmatch\s*$", before.rstrip() + " ") or re.search(r"\bmatch\s+$", before)
    if re.search(r"\bmatch\s*$", before.rstrip()):
        k = after.index("{")
        inner, _ = block_at(after, k, "match on the load result")
        oks = [b for p_, b in arms(inner) if p_.startswith("Ok")]
        errs = [b for p_, b in arms(inner) if p_.startswith("Err")]
        if not oks or not errs:
            raise ExtractError("run_with_vm_and_opt: match on the load result without Ok / Err arms")
        return all("set_repl_session" in b for b in errs)
    # `let r = load(..); <put back>; let imports = r?;`
    var = re.search(r"\blet\s+(?:mut\s+)?(\w+)\s*(?::[^=]+)?=\s*$", before.rstrip() + " ")
    var = re.search(r"\blet\s+(?:mut\s+)?(\w+)\s*(?::[^=;]+)?=\s*$", before.rstrip())
    if var:
        use = re.search(r"\b%s\s*\?" % re.escape(var.group(1)), after)
        ret = re.search(r"\breturn\b", after)
        first_exit = min([x.start() for x in (use, ret) if x] or [len(after)])
        return sets[0] < first_exit
    raise ExtractError("run_with_vm_and_opt: cannot tell whether the session record is put back when loading fails")


def repl_memo_on_reject():
    """driver/src/api/repl.rs: when the input's imports LOADED but the input is then rejected (type inference, compiler:
    every `?` / `return` after the load), is the session's record back in the VM by then?  True iff on the success path of
    the load the first set_repl_session(..) comes before the first later exit."""
    src = strip_comments(rd("driver/src/api/repl.rs"))
    body = re.sub(r'"(?:[^"\\]|\\.)*"', '""', fn_body(src, "run_with_vm_and_opt"))
    call = re.search(r"\bload_modules_with_memo\s*\(", body)
    if not call:
        raise ExtractError("run_with_vm_and_opt: load_modules_with_memo not found")
    depth, j = 0, call.end() - 1
    while j < len(body):
        if body[j] == "(":
            depth += 1
        elif body[j] == ")":
            depth -= 1
            if depth == 0:
                break
        j += 1
    after = body[j + 1:]
    before = body[:call.start()]
    if re.search(r"\bmatch\s*$", before.rstrip()):
        k = after.index("{")
        inner, end = block_at(after, k, "match on the load result")
        oks = [b for p_, b in arms(inner) if p_.startswith("Ok")]
        if any("set_repl_session" in b for b in oks):
            return True
        succ = after[end:]
    elif re.match(r"\s*\?", after):
        succ = after[re.match(r"\s*\?", after).end():]
    else:
        succ = after        # `let r = load(..); ...; r?`: the `r?` is an exit as well, a set before it counts
    sets = [m.start() for m in re.finditer(r"set_repl_session\s*\(", succ)]
    exits = [m.start() for m in re.finditer(r"\?|\breturn\b", succ)]
    if not sets:
        return False
    return not exits or sets[0] < exits[0]


def unfinished_forgotten():
    """compile.rs: a module that was registered but whose top level did not complete is removed from
    loaded_modules again, under a flag that is set only after the body ran and its globals were synced"""
    src = strip_comments(rd("driver/src/modules/loader/compile.rs"))
    rm = re.search(r"\bif\s+([^{]*)\{\s*[^}]*loaded_modules\s*\.\s*remove\s*\(", src)
    if not rm:
        raise ExtractError("compile.rs: an unfinished module is no longer removed from loaded_modules")
    flag = re.search(r"!\s*\*?\s*(\w+)", rm.group(1))
    if not flag or not re.search(r"is_err\s*\(\s*\)", rm.group(1)):
        raise ExtractError("compile.rs: the removal is no longer conditional on `failed and not initialised`")
    sync = re.search(r"sync_globals_to_hashmap\s*\(", src)
    setf = [m.start() for m in re.finditer(r"\*?\s*%s\s*=\s*true" % re.escape(flag.group(1)), src)]
    reg = re.search(r"self\s*\.\s*register_exports\s*\(", src)
    if not sync or not setf or not reg or not (sync.start() < setf[0] < reg.start()):
        raise ExtractError("compile.rs: the `initialised` flag is no longer set between sync_globals_to_hashmap and register_exports")


@extract.register("ModulesTables")
def gen_modules_tables():
    pats = script_patterns()
    fn_pub, let_pub = export_rule()
    exports_src = strip_comments(rd("driver/src/modules/loader/exports.rs"))
    bare1, chk1 = binding_guards(fn_body(exports_src, "register_exports"), "register_exports")
    cycle_first, load_body = load_order()
    bare2, chk2 = binding_guards(load_body, "load_module (memo hit)")
    if (bare1, chk1) != (bare2, chk2):
        raise ExtractError("register_exports and the memo-hit re-binding of load_module no longer treat aliases / selected symbols alike")
    needs_src = strip_comments(rd("driver/src/modules/needs.rs"))
    entry_t = grant_table(needs_src, "needs.rs")
    compile_order()
    module_t = grant_table(strip_comments(rd("driver/src/modules/loader/compile.rs")), "compile.rs")
    resolution_shape()
    restored = repl_memo()
    unfinished_forgotten()

    def tbl(name, t):
        return (f"Definition {name} (f : form_kind) : grant :=\n  match f with\n"
                + "".join(f"  | K{k[1:]} => {t[k]}\n" for k in FORMS) + "  end.\n")
    b = lambda x: "true" if x else "false"
    text = HEADER.format(src="modules/src/resolution/patterns.rs, driver/src/modules/{needs.rs,loader/{load,compile,exports,resolution,needs}.rs}")
    text += ("From Coq Require Import List.\nImport ListNotations.\n\n"
             "(* script search patterns of full_search_patterns(), in order *)\n"
             "Inductive spat := PDirect | PModFile.\n"
             f"Definition script_patterns : list spat := [{'; '.join(pats)}].\n\n"
             "(* collect_exports: is the insert guarded by is_pub *)\n"
             f"Definition fn_export_needs_pub : bool := {b(fn_pub)}.\n"
             f"Definition let_export_needs_pub : bool := {b(let_pub)}.\n\n"
             "(* register_exports and the memo-hit re-binding *)\n"
             f"Definition bare_unless_aliased : bool := {b(bare1)}.\n"
             f"Definition symbols_checked : bool := {b(chk1)}.\n\n"
             "(* load_module: the loading-stack check comes before the memo lookup *)\n"
             f"Definition cycle_before_memo : bool := {b(cycle_first)}.\n\n"
             "(* what an import form adds to the importer's known_globals *)\n"
             "Inductive form_kind := KModule | KAlias | KSymbols | KWildcard.\n"
             "Inductive grant := GExports | GSymbols | GNone.\n"
             + tbl("entry_grant", entry_t) + tbl("module_grant", module_t)
             + "\n(* run_with_vm: the session's loaded-module record is put back when an input's imports fail *)\n"
             f"Definition memo_restored_on_error : bool := {b(restored)}.\n"
             "(* ... and when the imports loaded but the input is then rejected by inference / the compiler *)\n"
             f"Definition memo_restored_on_reject : bool := {b(repl_memo_on_reject())}.\n")
    write_if_changed("ModulesTables.v", text)
