"""C15 translator: token alphabet, statement-ending token kinds and bracket-depth arms of the lexer.

Reads  syntax/src/token.rs            (enum TokenKind, fn can_end_statement)
       frontend/src/lexer/scanner/scan.rs   (which single-char arms change nesting_depth)
       frontend/src/lexer/scanner/cursor.rs (the characters next_token_is_else skips)
Writes coq/Extracted/AsiTokens.v."""
import re
import extract


def enum_variants(text, name):
    m = re.search(r"pub\s+enum\s+%s\s*\{(.*?)\n\}" % name, text, flags=re.S)
    if not m:
        raise extract.ExtractError(f"enum {name} not found")
    body = extract.strip_comments(m.group(1))
    out = []
    depth = 0
    cur = ""
    for ch in body:
        if ch in "([{<":
            depth += 1
        elif ch in ")]}>":
            depth -= 1
        if ch == "," and depth == 0:
            out.append(cur)
            cur = ""
        else:
            cur += ch
    out.append(cur)
    names = []
    for v in out:
        v = v.strip()
        if not v:
            continue
        mm = re.match(r"([A-Z][A-Za-z0-9]*)", v)
        if not mm:
            raise extract.ExtractError(f"cannot read enum variant {v!r}")
        names.append(mm.group(1))
    return names


def fn_body(text, name):
    m = re.search(r"fn\s+%s\s*\([^)]*\)[^{]*\{" % name, text)
    if not m:
        raise extract.ExtractError(f"fn {name} not found")
    i = m.end()
    depth = 1
    j = i
    while j < len(text) and depth:
        if text[j] == "{":
            depth += 1
        elif text[j] == "}":
            depth -= 1
        j += 1
    return text[i:j - 1]


def char_arm(scan, ch):
    """Body of the match arm for the single character ch in scan_token."""
    lit = re.escape("'" + ch + "'")
    m = re.search(lit + r"\s*=>\s*", scan)
    if not m:
        raise extract.ExtractError(f"no arm for {ch!r} in scan_token")
    i = m.end()
    if scan[i] == "{":
        depth, j = 1, i + 1
        while j < len(scan) and depth:
            if scan[j] == "{":
                depth += 1
            elif scan[j] == "}":
                depth -= 1
            j += 1
        return scan[i:j]
    j = scan.index(",", i)
    return scan[i:j]


@extract.register("AsiTokens")
def gen_asi_tokens():
    tok = extract.rd("syntax/src/token.rs")
    names = enum_variants(tok, "TokenKind")
    if len(names) < 40 or "Semicolon" not in names or "Else" not in names or "Eof" not in names:
        raise extract.ExtractError("TokenKind enum has an unexpected shape")
    body = extract.strip_comments(fn_body(tok, "can_end_statement"))
    mm = re.search(r"matches!\s*\(\s*\*?self\s*,(.*)\)", body, flags=re.S)
    if mm:
        pats = mm.group(1)
    else:
        # `match self { A | B(_) => true, _ => false }`
        m3 = re.search(r"match\s+\*?self\s*\{(.*)\}", body, flags=re.S)
        if not m3:
            raise extract.ExtractError("can_end_statement is neither matches!(self, ...) nor match self { ... }")
        arms = re.findall(r"((?:(?:Self|TokenKind)::\w+(?:\s*\(\s*_\s*\))?\s*\|?\s*)+)=>\s*(true|false)", m3.group(1))
        if not arms or not re.search(r"_\s*=>\s*false", m3.group(1)):
            raise extract.ExtractError("can_end_statement: cannot read the arms of the match")
        pats = " | ".join(a for a, v in arms if v == "true")
    enders = re.findall(r"(?:Self|TokenKind)::([A-Za-z0-9]+)", pats)
    rest = re.sub(r"(?:Self|TokenKind)::[A-Za-z0-9]+(\s*\(\s*_\s*\))?", "", pats)
    if rest.replace("|", "").strip():
        raise extract.ExtractError(f"can_end_statement has patterns this translator does not understand: {rest.strip()!r}")
    for e in enders:
        if e not in names:
            raise extract.ExtractError(f"can_end_statement names unknown kind {e}")
    scan = extract.strip_comments(fn_body(extract.rd("frontend/src/lexer/scanner/scan.rs"), "scan_token"))
    opens, closes, saves, restores, char_kind = [], [], [], [], {}
    for ch in "()[]{}":
        arm = char_arm(scan, ch)
        k = re.search(r"TokenKind::([A-Za-z0-9]+)", arm)
        if not k:
            raise extract.ExtractError(f"arm for {ch!r} adds no token")
        char_kind[ch] = k.group(1)
        flat = re.sub(r"\s+", "", arm)
        inc = "self.nesting_depth+=1" in flat
        dec = "self.nesting_depth=self.nesting_depth.saturating_sub(1)" in flat
        # `{`: save the ( [ depth of the enclosing code and start the block at depth 0
        save = "self.brace_stack.push(" in flat and "self.nesting_depth=0" in flat
        if save and re.search(r"\b(if|match|while|for)\b", arm):
            # the model saves and resets unconditionally; a guarded save is a different machine
            raise extract.ExtractError(f"arm for {ch!r} saves the ( [ depth under a condition; Model/Asi.v saves it at every `{{`")
        # `}`: restore it (nothing happens when there is no open `{`)
        restore = "self.brace_stack.pop()" in flat and re.search(r"self\.nesting_depth=\w+", flat) is not None and not save
        if ("nesting_depth" in arm or "brace_stack" in arm) and [inc, dec, save, restore].count(True) != 1:
            raise extract.ExtractError(f"arm for {ch!r} changes nesting_depth / brace_stack in a way this translator does not understand")
        if inc:
            opens.append(k.group(1))
        if dec:
            closes.append(k.group(1))
        if save:
            saves.append(k.group(1))
        if restore:
            restores.append(k.group(1))
    # the newline arm: the three-condition rule must still be there (shape sentinel; the model
    # in Model/Asi.v is written for exactly this conjunction)
    nl = char_arm(scan, "\\n")
    cond = re.sub(r"\s+", "", nl)
    mc = re.search(r"if(.*?)\{", cond)
    conj = set(mc.group(1).split("&&")) if mc else set()
    if conj != {"self.pending_semicolon", "self.nesting_depth==0", "!self.next_token_is_else()"}:
        raise extract.ExtractError("the newline arm of scan_token is no longer the conjunction of "
                                   "pending_semicolon, nesting_depth == 0, !next_token_is_else() (found: %s)" % sorted(conj))
    cur = extract.strip_comments(fn_body(extract.rd("frontend/src/lexer/scanner/cursor.rs"), "next_token_is_else"))
    skipped = re.findall(r"c\s*==\s*'(\\?.)'", cur)
    sk = sorted(set(skipped))
    flatcur = re.sub(r"\s+", "", cur)
    skips_line_comment = "c=='/'&&next==Some('/')" in flatcur
    skips_block_comment = "c=='/'&&next==Some('*')" in flatcur
    out = [extract.HEADER.format(src="syntax/src/token.rs, frontend/src/lexer/scanner/{scan,cursor}.rs"),
           "From Coq Require Import NArith Bool List.\nImport ListNotations.\n\n",
           "Inductive tkind :=\n" + "".join(f"| T{n}\n" for n in names) + ".\n\n",
           "Definition tkind_code (k : tkind) : N :=\n  match k with\n"
           + "".join(f"  | T{n} => {i}%N\n" for i, n in enumerate(names)) + "  end.\n\n",
           "Definition all_tkinds : list tkind := [" + "; ".join("T" + n for n in names) + "].\n\n",
           "Definition can_end_statement (k : tkind) : bool :=\n  match k with\n  | "
           + " | ".join("T" + e for e in enders) + " => true\n  | _ => false\n  end.\n\n"]
    for nm, lst in (("depth_open", opens), ("depth_close", closes), ("depth_save", saves), ("depth_restore", restores)):
        if lst:
            out.append(f"Definition {nm} (k : tkind) : bool :=\n  match k with\n  | " + " | ".join("T" + e for e in lst)
                       + " => true\n  | _ => false\n  end.\n\n")
        else:
            out.append(f"Definition {nm} (k : tkind) : bool := false.\n\n")
    # which whitespace the else-lookahead skips: newline (\\n) and blanks (space, tab, CR)
    out.append("Definition else_lookahead_skips_newline : bool := %s.\n" % ("true" if "\\n" in sk else "false"))
    out.append("Definition else_lookahead_skips_blank : bool := %s.\n"
               % ("true" if all(x in sk for x in (" ", "\\t", "\\r")) else "false"))
    out.append("Definition else_lookahead_skips_line_comment : bool := %s.\n" % ("true" if skips_line_comment else "false"))
    out.append("Definition else_lookahead_skips_block_comment : bool := %s.\n" % ("true" if skips_block_comment else "false"))
    return extract.write_if_changed("AsiTokens.v", "".join(out))


@extract.register("ParserSets")
def gen_parser_sets():
    """Token sets of the expression parser: which kinds is_expression_start() lists (the decision
    whether the next item of a value block is an expression), which kinds primary() accepts,
    which kinds unary() consumes as prefix operators."""
    tok = extract.rd("syntax/src/token.rs")
    names = enum_variants(tok, "TokenKind")
    atom = extract.rd("frontend/src/parser/expr/atom.rs")
    body = extract.strip_comments(fn_body(atom, "is_expression_start"))
    mm = re.search(r"matches!\s*\(\s*self\.peek\(\)\.kind\s*,(.*)\)", body, flags=re.S)
    if not mm:
        raise extract.ExtractError("is_expression_start is no longer a single matches!(self.peek().kind, ...)")
    starts = re.findall(r"TokenKind::([A-Za-z0-9]+)", mm.group(1))
    rest = re.sub(r"TokenKind::[A-Za-z0-9]+(\s*\(\s*_\s*\))?", "", mm.group(1))
    if rest.replace("|", "").strip():
        raise extract.ExtractError(f"is_expression_start has patterns this translator does not understand: {rest.strip()!r}")
    prim = extract.strip_comments(fn_body(atom, "primary"))
    m2 = re.search(r"match\s+token_kind\s*\{", prim)
    if not m2:
        raise extract.ExtractError("primary() no longer matches on token_kind")
    arms = re.findall(r"^\s*TokenKind::([A-Za-z0-9]+)", prim[m2.end():], flags=re.M)
    prims = []
    for a in arms:
        if a not in prims:
            prims.append(a)
    if "Int" not in prims or "Identifier" not in prims:
        raise extract.ExtractError("cannot read the arms of primary()")
    # prefix operators: every kind some function of unary.rs consumes with match_token (the file holds the
    # unary-operator parser only; which helper function does it is free to change)
    un = extract.strip_comments(extract.rd("frontend/src/parser/expr/unary.rs"))
    prefix = []
    for k in re.findall(r"self\.match_token\(\s*&TokenKind::([A-Za-z0-9]+)\s*\)", un):
        if k not in prefix:
            prefix.append(k)
    if not prefix:
        raise extract.ExtractError("cannot read the prefix operators of unary()")
    for lst in (starts, prims, prefix):
        for k in lst:
            if k not in names:
                raise extract.ExtractError(f"unknown token kind {k}")

    def defn(nm, lst):
        return (f"Definition {nm} (k : tkind) : bool :=\n  match k with\n  | " + " | ".join("T" + e for e in lst)
                + " => true\n  | _ => false\n  end.\n\n")
    out = [extract.HEADER.format(src="frontend/src/parser/expr/{atom,unary}.rs"),
           "From Coq Require Import Bool.\nFrom Aelys Require Import Extracted.AsiTokens.\n\n",
           defn("expr_start_listed", starts), defn("primary_accepts", prims), defn("prefix_operator", prefix)]
    return extract.write_if_changed("ParserSets.v", "".join(out))
