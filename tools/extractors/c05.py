"""C05 translator.  Regenerated from the Rust text on every run, structurally (opcode arms are found by
their number in the dispatch `match`, `include!`s are followed, guards are found as the conditions of the
blocks that enclose a use, local names are resolved or matched by back-reference -- no identifier of a
local variable and no layout of the text is relied on):

  * opcode numbers of the three global-call opcodes, MAX_FRAMES, MAX_CALL_SITE_SLOTS
  * THE ACCESS TABLE of the VM-wide call_site_cache: which opcode arms read it, which write it, which
    functions clear it, and whether anything else touches it (CACHE_READ_OPS / CACHE_WRITE_OPS /
    CACHE_CLEARED_BY / CACHE_OTHER_ACCESSES); which opcode arms patch a call site to which opcode (PATCHES)
  * the guard of the 78 fast path: the entry read from the cache is used for a frame only under
    `entry.owner == <cache word>` and `globals_by_index[idx].as_ptr() == Some(<cache word>)`
  * every cache fill records `owner`
  * the 104 arm rewrites the site to 77 and dispatches it again
  * the serializer resets 78 -> 77 and zeroes both cache words; the REPL compiler starts slot ids at 0"""
import re
import extract
from extract import ExtractError, rd, strip_comments, write_if_changed, HEADER, consts_of


def enum_values(text, enum_name):
    m = re.search(r"pub\s+enum\s+%s\s*\{(.*?)\n\}" % enum_name, strip_comments(text), flags=re.S)
    if not m:
        raise ExtractError(f"enum {enum_name} not found")
    vals, nxt = {}, 0
    for item in m.group(1).split(","):
        item = item.strip()
        if not item:
            continue
        item = re.sub(r"#\[[^\]]*\]\s*", "", item)
        mm = re.fullmatch(r"([A-Za-z_][A-Za-z0-9_]*)(?:\s*=\s*([0-9xXa-fA-F_]+))?", item)
        if not mm:
            raise ExtractError(f"unrecognised enum item {item!r} in {enum_name}")
        if mm.group(2):
            nxt = int(mm.group(2).replace("_", ""), 0)
        vals[mm.group(1)] = nxt
        nxt += 1
    return vals


def fn_body(text, name):
    """Text of `fn name(...) { ... }` (brace matched)."""
    m = re.search(r"\bfn\s+%s\s*\(" % re.escape(name), text)
    if not m:
        raise ExtractError(f"fn {name} not found")
    i = text.index("{", m.end())
    depth, j = 0, i
    while j < len(text):
        if text[j] == "{":
            depth += 1
        elif text[j] == "}":
            depth -= 1
            if depth == 0:
                return text[i:j + 1]
        j += 1
    raise ExtractError(f"fn {name}: unbalanced braces")


def b(x):
    return "true" if x else "false"



def match_arms(text):
    """top-level arms `<pattern> => {` of the first `match` whose arms are opcode numbers: [(numbers, body)]"""
    arms = []
    for m in re.finditer(r"(?m)^\s*((?:\d+(?:\s*\.\.=\s*\d+)?\s*\|?\s*)+)=>\s*\{", text):
        nums = []
        for part in m.group(1).split("|"):
            part = part.strip()
            if not part:
                continue
            mm = re.fullmatch(r"(\d+)\s*\.\.=\s*(\d+)", part)
            if mm:
                nums.extend(range(int(mm.group(1)), int(mm.group(2)) + 1))
            elif part.isdigit():
                nums.append(int(part))
        i = m.end() - 1
        depth, j = 0, i
        while j < len(text):
            if text[j] == "{":
                depth += 1
            elif text[j] == "}":
                depth -= 1
                if depth == 0:
                    break
            j += 1
        arms.append((nums, text[i:j + 1], m.start()))
    return arms


def inline_includes(text, base):
    def sub(m):
        try:
            return "\n" + inline_includes(strip_comments(rd(base + m.group(1))), base) + "\n"
        except Exception:
            return m.group(0)
    return re.sub(r'include!\(\s*"([^"]+)"\s*\)\s*;?', sub, text)


def guards_chain(text, at):
    """conditions of all `if` blocks enclosing position `at` (innermost first)"""
    conds, depth, j = [], 0, at
    while j > 0:
        j -= 1
        c = text[j]
        if c == "}":
            depth += 1
        elif c == "{":
            if depth == 0:
                k = j
                while k > 0 and text[k - 1] not in ";{}":
                    k -= 1
                head = text[k:j].strip()
                m = re.match(r"(?:else\s+)?if\s+(.*)$", head, flags=re.S)
                if m and not m.group(1).lstrip().startswith("let "):
                    conds.append(re.sub(r"\s+", "", m.group(1)))
            else:
                depth -= 1
    return conds


READ_RE = re.compile(r"call_site_cache\s*\.\s*(?:get_unchecked|get)\s*\(|=\s*\*?\s*&?\s*self\s*\.\s*call_site_cache\s*\[")
WRITE_RE = re.compile(r"call_site_cache\s*\[[^\]]*\]\s*=[^=]|call_site_cache\s*\.\s*(?:push|insert)\s*\(")
CLEAR_RE = re.compile(r"call_site_cache\s*(?:\.\s*clear\s*\(\s*\)|\.\s*truncate\s*\(\s*0\s*\)|=\s*Vec::new\s*\(\s*\))")


def coq_nlist(xs):
    return "[" + "; ".join(f"{x}%N" for x in xs) + "]"


@extract.register("CallCacheConsts")
def gen_callcache_consts():
    import os
    ops = enum_values(rd("bytecode/src/bytecode/opcode.rs"), "OpCode")
    for n in ("CallGlobal", "CallGlobalMono", "CallGlobalNative"):
        if n not in ops:
            raise ExtractError(f"opcode {n} missing")
    O77, O78, O104 = ops["CallGlobal"], ops["CallGlobalMono"], ops["CallGlobalNative"]
    lim = consts_of(rd("runtime/src/vm/core.rs"), ["MAX_FRAMES", "MAX_CALL_SITE_SLOTS"])
    base = "runtime/src/vm/dispatch/ops/"
    calls = inline_includes(strip_comments(rd(base + "calls.inc")), base)
    arms = {}
    for nums, body, _ in match_arms(calls):
        for n in nums:
            arms.setdefault(n, body)
    for n, nm in ((O77, "CallGlobal"), (O78, "CallGlobalMono"), (O104, "CallGlobalNative")):
        if n not in arms:
            raise ExtractError(f"dispatch: no arm for opcode {n} ({nm}) in calls.inc")
    # ---- the access table of call_site_cache
    read_ops = sorted(n for n, bd in arms.items() if READ_RE.search(bd))
    write_ops = sorted(n for n, bd in arms.items() if WRITE_RE.search(bd))
    # every other mention in the runtime: which functions clear / write / read it
    clearers, others = [], []
    bodies = {}
    files = []
    for dp, dn, fn in os.walk(os.path.join(extract.REPO, "runtime", "src")):
        for f in fn:
            if f.endswith(".rs") or f.endswith(".inc"):
                files.append(os.path.join(dp, f))
    for path in sorted(files):
        rel = path.split("/runtime/src/", 1)[1]
        if rel.startswith("verif") or "/dispatch/ops/" in "/" + rel:
            continue
        try:
            txt = strip_comments(open(path).read())
        except Exception:
            continue
        if "call_site_cache" not in txt:
            continue
        # cfg(verif)-guarded hook lines are not part of the protocol
        txt = re.sub(r"#\[cfg\(vbxq_aelys_lang_verif\)\][^;{]*(?:;|\{[^{}]*\})", "", txt)
        for m in re.finditer(r"\bfn\s+(\w+)", txt):
            try:
                bd = fn_body(txt[m.start():], m.group(1))
            except ExtractError:
                continue
            bodies.setdefault(m.group(1), bd)
            if "call_site_cache" not in bd:
                continue
            if CLEAR_RE.search(bd):
                clearers.append(m.group(1))
            if WRITE_RE.search(bd) or READ_RE.search(bd):
                others.append(f"{rel}:{m.group(1)}")
    # a function that calls a clearing helper (self.helper()) clears too
    for _ in range(3):
        for name, bd in bodies.items():
            if name not in clearers and any(re.search(r"\bself\s*\.\s*" + re.escape(c) + r"\s*\(", bd) for c in clearers):
                clearers.append(name)
    clearers = sorted(set(clearers))

    def clears_unconditionally(name, seen=()):
        """the clear (or the call of a helper that clears unconditionally) is a statement of the function's own block: not
        inside an `if` / `match` / loop, and not after an early `return` -- it dominates the function's exit, whatever is stored"""
        bd = bodies.get(name)
        if bd is None or name in seen:
            return False
        cands = [m.start() for m in CLEAR_RE.finditer(bd)]
        for c in clearers:
            if c != name and clears_unconditionally(c, seen + (name,)):
                cands += [m.start() for m in re.finditer(r"\bself\s*\.\s*" + re.escape(c) + r"\s*\(", bd)]
        for at in cands:
            depth = bd[:at].count("{") - bd[:at].count("}")
            if depth == 1 and not re.search(r"\breturn\b", bd[:at]):
                return True
        return False
    clears = clears_unconditionally("set_global") and clears_unconditionally("set_global_by_index")
    # ---- which arm patches a site to which opcode: `| (N << 24)`
    patches = {}
    for n in (O77, O78, O104):
        patches[n] = sorted(set(int(x) for x in re.findall(r"\|\s*\(\s*(\d+)\s*<<\s*24\s*\)", arms[n])))
    if not ({O78, O104} <= set(patches[O77])):
        raise ExtractError(f"the CallGlobal arm patches to opcodes {patches[O77]}, expected Mono and Native among them")
    # ---- 78: the entry read from the cache is used only under owner == word && current global == Some(word)
    mono = arms[O78]
    validates, n_reads = True, 0
    for m in READ_RE.finditer(mono):
        n_reads += 1
        # name the entry is bound to
        k = mono.rfind("let", 0, m.start())
        mm = re.match(r"let\s+(?:mut\s+)?(\w+)\b", mono[k:]) if k >= 0 else None
        if not mm:
            validates = False
            continue
        e = mm.group(1)
        # every frame construction that uses the entry's code pointers
        uses = [u.start() for u in re.finditer(r"CallFrame\s*::\s*\w+\s*\(", mono[m.end():]) if re.search(r"\b" + e + r"\s*\.\s*bytecode_ptr", mono[m.end() + u.start():m.end() + u.start() + 600])]
        if not uses:
            validates = False
        for u in uses:
            conds = "&&".join(guards_chain(mono, m.end() + u))
            ow = re.search(r"\b" + e + r"\.owner==(\w+)|(\w+)==" + e + r"\.owner\b", conds)
            if not ow:
                validates = False
                continue
            w = ow.group(1) or ow.group(2)
            cur = re.search(r"self\.globals_by_index\[\w+\]\.as_ptr\(\)==Some\(" + w + r"\)|Some\(" + w + r"\)==self\.globals_by_index\[\w+\]\.as_ptr\(\)", conds)
            if not cur:
                validates = False
    if n_reads == 0:
        raise ExtractError("the CallGlobalMono arm does not read call_site_cache any more; Model/CallCache.v is out of date")
    # ---- every fill records its owner
    both = arms[O77] + arms[O78]
    fills = re.findall(r"call_site_cache\s*\[[^\]]*\]\s*=\s*[\w:]*CallSiteCacheEntry\s*\{([^{}]*)\}", both)
    # ... or built in a local first: `let e = CallSiteCacheEntry { .. }; self.call_site_cache[slot] = e;`
    for m in re.finditer(r"call_site_cache\s*\[[^\]]*\]\s*=\s*(\w+)\s*;", both):
        ms = [x for x in re.finditer(r"\blet\s+(?:mut\s+)?" + m.group(1) + r"\s*(?::[^=;]+)?=\s*[\w:]*CallSiteCacheEntry\s*\{([^{}]*)\}", both[:m.start()])]
        fills.append(ms[-1].group(1) if ms else "")
    fills_owner = bool(fills) and all(re.search(r"\bowner\s*:", f) or re.search(r"\bowner\s*,", f) for f in fills)
    if validates and not fills_owner:
        raise ExtractError("a cache fill does not record `owner` although the fast path compares it")
    # ---- 104: rewrites itself to CallGlobal and is dispatched again
    a104 = arms[O104]
    native_follows = False
    for m in re.finditer(r"\|\s*\(\s*%d\s*<<\s*24\s*\)" % O77, a104):
        tail = a104[m.end():m.end() + 400]
        if re.search(r"ip\s*-=\s*1\s*;\s*continue\s*;", tail):
            conds = guards_chain(a104, m.start())
            native_follows = len(conds) > 0
    # ---- serializer
    ser = fn_body(strip_comments(rd("bytecode/src/asm/binary.rs")), "write_function")
    ser_ok = (re.search(r"==\s*%d\b|\b%d\s*(?:\|[^=]*)?=>|matches!\s*\([^)]*\b%d\b" % (O78, O78, O78), ser) is not None
              and re.search(r"\|\s*\(\s*%d\s*<<\s*24\s*\)" % O77, ser) is not None
              and re.search(r"write_u32\s*\(\s*0\s*\)", ser) is not None)
    if not ser_ok:
        raise ExtractError("binary.rs write_function: cache-stripping shape not recognised")
    # ---- REPL: run_with_vm_and_opt builds its compiler with a constructor that starts slots at 0
    repl = strip_comments(rd("driver/src/api/repl.rs"))
    cons = strip_comments(rd("backend/src/compiler/constructors.rs"))
    mc = re.search(r"Compiler\s*::\s*(\w+)\s*\(", repl)
    if not mc:
        raise ExtractError("repl.rs: construction of the Compiler not found")
    body = fn_body(cons, mc.group(1))
    m = re.search(r"next_call_site_slot\s*:\s*([0-9]+)\s*,", body)
    restarts = bool(m) and int(m.group(1)) == 0
    out = [HEADER.format(src="bytecode/src/bytecode/opcode.rs, runtime/src/**, "
                             "bytecode/src/asm/binary.rs, backend/src/compiler/constructors.rs, driver/src/api/repl.rs"),
           "From Coq Require Import NArith List.\nImport ListNotations.\n",
           f"Definition OP_CALL_GLOBAL : N := {O77}%N.\n",
           f"Definition OP_CALL_GLOBAL_MONO : N := {O78}%N.\n",
           f"Definition OP_CALL_GLOBAL_NATIVE : N := {O104}%N.\n",
           f"Definition MAX_FRAMES : N := {lim['MAX_FRAMES'][0]}%N.\n",
           f"Definition MAX_CALL_SITE_SLOTS : N := {lim['MAX_CALL_SITE_SLOTS'][0]}%N.\n",
           "(* the access table of the VM-wide call_site_cache *)\n",
           f"Definition CACHE_READ_OPS : list N := {coq_nlist(read_ops)}.\n",
           f"Definition CACHE_WRITE_OPS : list N := {coq_nlist(write_ops)}.\n",
           f"Definition CACHE_OTHER_ACCESSES : N := {len(others)}%N.   (* reads / writes outside the dispatch arms: {', '.join(others) or 'none'} *)\n",
           f"(* cleared by: {', '.join(clearers) or 'nothing'} *)\n",
           f"Definition PATCHES_FROM_CALL_GLOBAL : list N := {coq_nlist(patches[O77])}.\n",
           f"Definition PATCHES_FROM_CALL_GLOBAL_MONO : list N := {coq_nlist(patches[O78])}.\n",
           f"Definition PATCHES_FROM_CALL_GLOBAL_NATIVE : list N := {coq_nlist(patches[O104])}.\n",
           f"Definition SET_GLOBAL_CLEARS_CACHE : bool := {b(clears)}.\n",
           f"Definition MONO_FAST_PATH_VALIDATES : bool := {b(validates)}.\n",
           f"Definition CACHE_FILLS_RECORD_OWNER : bool := {b(fills_owner)}.\n",
           f"Definition REPL_SLOT_COUNTER_RESTARTS : bool := {b(restarts)}.\n",
           f"Definition NATIVE_SITE_FOLLOWS_REBINDING : bool := {b(native_follows)}.\n"]
    return write_if_changed("CallCacheConsts.v", "".join(out))
