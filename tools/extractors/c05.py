"""C05 translator: opcode numbers of the three global-call opcodes, the VM limits the call cache
model uses, and the source shapes the model's `step` is written against
(set_global* clear the call-site cache; the serializer resets 78->77 and zeroes both cache
words; the REPL compiler constructor starts the slot counter at 0; the 78 fast path does not
compare against the current global).  Regenerated from the Rust text on every run."""
import re
import extract
from extract import ExtractError, rd, strip_comments, write_if_changed, HEADER, consts_of


def enum_values(text, enum_name):
    m = re.search(r"pub\s+enum\s+%s\s*\{(.*?)\n\}" % enum_name, strip_comments(text), flags=re.S)
    if not m:
        raise ExtractError(f"enum {enum_name} not found")
    vals, nxt = {}, 0
    for item in m.group(1).split(","):
        item = item.strip()
        if not item:
            continue
        item = re.sub(r"#\[[^\]]*\]\s*", "", item)
        mm = re.fullmatch(r"([A-Za-z_][A-Za-z0-9_]*)(?:\s*=\s*([0-9xXa-fA-F_]+))?", item)
        if not mm:
            raise ExtractError(f"unrecognised enum item {item!r} in {enum_name}")
        if mm.group(2):
            nxt = int(mm.group(2).replace("_", ""), 0)
        vals[mm.group(1)] = nxt
        nxt += 1
    return vals


def fn_body(text, name):
    """Text of `fn name(...) { ... }` (brace matched)."""
    m = re.search(r"\bfn\s+%s\s*\(" % re.escape(name), text)
    if not m:
        raise ExtractError(f"fn {name} not found")
    i = text.index("{", m.end())
    depth, j = 0, i
    while j < len(text):
        if text[j] == "{":
            depth += 1
        elif text[j] == "}":
            depth -= 1
            if depth == 0:
                return text[i:j + 1]
        j += 1
    raise ExtractError(f"fn {name}: unbalanced braces")


def b(x):
    return "true" if x else "false"


@extract.register("CallCacheConsts")
def gen_callcache_consts():
    ops = enum_values(rd("bytecode/src/bytecode/opcode.rs"), "OpCode")
    for n in ("CallGlobal", "CallGlobalMono", "CallGlobalNative"):
        if n not in ops:
            raise ExtractError(f"opcode {n} missing")
    lim = consts_of(rd("runtime/src/vm/core.rs"), ["MAX_FRAMES", "MAX_CALL_SITE_SLOTS"])
    # dispatch: the three .inc bodies are selected by these literal opcode numbers
    run_rs = strip_comments(rd("runtime/src/vm/dispatch/run.rs"))
    calls = strip_comments(rd("runtime/src/vm/dispatch/ops/calls.inc"))
    disp = run_rs + calls
    for n in ("CallGlobal", "CallGlobalMono", "CallGlobalNative"):
        if not re.search(r"\b%d\b" % ops[n], disp):
            raise ExtractError(f"dispatch does not mention opcode number {ops[n]} ({n})")
    # patching literals inside the slow path: `(78 << 24)` and `(104 << 24)`
    cg = strip_comments(rd("runtime/src/vm/dispatch/ops/call_global.inc"))
    patch_mono = re.findall(r"\|\s*\((\d+)\s*<<\s*24\)", cg)
    if sorted(set(int(x) for x in patch_mono)) != sorted({ops["CallGlobalMono"], ops["CallGlobalNative"]}):
        raise ExtractError(f"call_global.inc patches to opcodes {patch_mono}, expected Mono and Native")
    # invalidation: both setters clear the call-site cache
    acc = strip_comments(rd("runtime/src/vm/globals/access.rs"))
    clear_re = re.compile(r"self\s*\.\s*call_site_cache\s*(\.\s*clear\s*\(\s*\)|\.\s*truncate\s*\(\s*0\s*\)|=\s*Vec::new\s*\(\s*\))")
    clears = all(clear_re.search(fn_body(acc, f)) is not None for f in ("set_global", "set_global_by_index"))
    # fast path: 78 uses call_site_cache[slot] only when the entry was built from the callee cached at the
    # site (`owner`) and the global still denotes that callee -- both checks before the entry is used
    mono = strip_comments(rd("runtime/src/vm/dispatch/ops/call_global_mono.inc"))
    hit = mono.find("call_site_cache.get_unchecked")
    use = mono.find("let callee_ref_tmp")
    if hit < 0 or use < 0 or "self.globals_by_index[idx]" not in mono:
        raise ExtractError("call_global_mono.inc: fast path / miss path shape not recognised")
    guard = mono[hit:use]
    validates = (re.search(r"cached\s*\.\s*owner\s*==\s*cached_func_ptr", guard) is not None
                 and re.search(r"self\s*\.\s*globals_by_index\s*\[\s*idx\s*\]\s*\.\s*as_ptr\(\)\s*==\s*Some\(\s*cached_func_ptr\s*\)", guard) is not None)
    fills = len(re.findall(r"owner\s*:\s*(current_func_ptr|new_func_ptr)", cg + mono))
    if validates and fills != 4:
        raise ExtractError(f"expected the 4 cache fills to record `owner`, found {fills}")
    # 104: a site whose global no longer denotes the cached native rewrites itself to CallGlobal and is re-dispatched
    m104 = re.search(r"\b%d\s*=>\s*\{" % ops["CallGlobalNative"], calls)
    if not m104:
        raise ExtractError("calls.inc: arm of CallGlobalNative not found")
    arm = calls[m104.end():]
    native_follows = (re.search(r"\|\s*\(%d\s*<<\s*24\)" % ops["CallGlobal"], arm) is not None
                      and re.search(r"ip\s*-=\s*1\s*;\s*continue\s*;", arm) is not None
                      and "p != native_ptr" in arm)
    # serializer
    ser = fn_body(strip_comments(rd("bytecode/src/asm/binary.rs")), "write_function")
    ser_ok = (re.search(r"opcode\s*==\s*%d" % ops["CallGlobalMono"], ser) is not None
              and re.search(r"\|\s*\(%d\s*<<\s*24\)" % ops["CallGlobal"], ser) is not None
              and "skip_cache_words = 2" in ser and "self.write_u32(0)" in ser)
    if not ser_ok:
        raise ExtractError("binary.rs write_function: cache-stripping shape not recognised")
    # REPL: run_with_vm_and_opt builds its compiler with with_modules_and_globals, which starts slots at 0
    repl = strip_comments(rd("driver/src/api/repl.rs"))
    cons = strip_comments(rd("backend/src/compiler/constructors.rs"))
    if "Compiler::with_modules_and_globals" not in repl:
        raise ExtractError("repl.rs no longer builds its compiler with with_modules_and_globals")
    body = fn_body(cons, "with_modules_and_globals")
    m = re.search(r"next_call_site_slot\s*:\s*([0-9]+)\s*,", body)
    restarts = bool(m) and int(m.group(1)) == 0
    out = [HEADER.format(src="bytecode/src/bytecode/opcode.rs, runtime/src/vm/{core.rs,globals/access.rs,dispatch/ops/*.inc}, "
                             "bytecode/src/asm/binary.rs, backend/src/compiler/constructors.rs, driver/src/api/repl.rs"),
           "From Coq Require Import NArith.\n",
           f"Definition OP_CALL_GLOBAL : N := {ops['CallGlobal']}%N.\n",
           f"Definition OP_CALL_GLOBAL_MONO : N := {ops['CallGlobalMono']}%N.\n",
           f"Definition OP_CALL_GLOBAL_NATIVE : N := {ops['CallGlobalNative']}%N.\n",
           f"Definition MAX_FRAMES : N := {lim['MAX_FRAMES'][0]}%N.\n",
           f"Definition MAX_CALL_SITE_SLOTS : N := {lim['MAX_CALL_SITE_SLOTS'][0]}%N.\n",
           f"Definition SET_GLOBAL_CLEARS_CACHE : bool := {b(clears)}.\n",
           f"Definition MONO_FAST_PATH_VALIDATES : bool := {b(validates)}.\n",
           f"Definition REPL_SLOT_COUNTER_RESTARTS : bool := {b(restarts)}.\n",
           f"Definition NATIVE_SITE_FOLLOWS_REBINDING : bool := {b(native_follows)}.\n"]
    return write_if_changed("CallCacheConsts.v", "".join(out))
