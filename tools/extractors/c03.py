"""Translator for C03 (GC roots): where can a heap reference live outside the heap, and what does
VM::collect do about each place.  Structure-level parsing (brace matching, identifiers), not layout:
renaming locals, reordering the loops of collect, reformatting or moving marks into a private helper
of gc.rs do not change the output.

Generated facts (coq/Extracted/GcRootFields.v):
  ref_types              type names (structs/enums/aliases of runtime + bytecode) that can contain a Value/GcRef
  vm_reference_fields    fields of `struct VM` whose type mentions such a type (name, type text)
  collect_uses           VM fields that the body of VM::collect (and the gc.rs helpers it calls) reads
  collect_clears         VM fields that collect clears
  frame_reference_fields fields of CallFrame that hold a GcRef or a raw pointer into a heap object
  collect_frame_uses     CallFrame fields / accessors used by collect
  safepoint_sites        every call of maybe_collect()/collect() outside gc.rs: file, enclosing opcode arm or fn
  object_kinds / mark_arms   variants of ObjectKind, arms of Heap::mark
The Coq side (Model/GcRoots.v + Props/C03.v) holds the disposition of every field and proves by
computation that the tables agree; a NEW reference-holding field, a mark that disappears from collect,
a new safepoint or a new object kind makes that proof fail."""
import os, re
import extract
from extract import rd, write_if_changed, HEADER, ExtractError, strip_comments

RT = "runtime/src"
BC = "bytecode/src"


def _files(root):
    base = os.path.join(extract.REPO, root)
    out = []
    for d, _, fs in os.walk(base):
        for f in fs:
            if f.endswith((".rs", ".inc")):
                out.append(os.path.relpath(os.path.join(d, f), extract.REPO))
    return sorted(out)


def _match_brace(t, i):
    """t[i] == '{' -> index just after the matching '}'."""
    depth = 0
    for j in range(i, len(t)):
        if t[j] == "{":
            depth += 1
        elif t[j] == "}":
            depth -= 1
            if depth == 0:
                return j + 1
    raise ExtractError("unbalanced braces")


def _type_defs():
    """name -> body text of every struct / enum / type alias in runtime and bytecode."""
    defs = {}
    for rel in _files(RT) + _files(BC):
        if rel.endswith("verif.rs"):
            continue
        t = strip_comments(rd(rel))
        for m in re.finditer(r"\b(struct|enum)\s+([A-Z]\w*)\s*(<[^>{;(]*>)?\s*(\{|\()", t):
            i = m.end() - 1
            if t[i] == "{":
                body = t[i:_match_brace(t, i)]
            else:
                j = t.find(";", i)
                body = t[i:j]
            defs.setdefault(m.group(2), "")
            defs[m.group(2)] += body
        for m in re.finditer(r"\btype\s+([A-Z]\w*)\s*(<[^>=]*>)?\s*=\s*([^;]+);", t):
            defs.setdefault(m.group(1), "")
            defs[m.group(1)] += m.group(3)
    return defs


def _ref_types(defs):
    ref = {"Value", "GcRef"}
    changed = True
    while changed:
        changed = False
        pat = re.compile(r"\b(" + "|".join(sorted(ref)) + r")\b")
        for n, body in defs.items():
            if n not in ref and pat.search(body):
                ref.add(n)
                changed = True
    return ref


def _struct_fields(rel, name):
    t = strip_comments(rd(rel))
    m = re.search(r"\bstruct\s+" + name + r"\s*\{", t)
    if not m:
        raise ExtractError(f"{rel}: struct {name} not found")
    body = t[m.end():_match_brace(t, m.end() - 1) - 1]
    fields = []
    # split on top-level commas
    depth, cur = 0, ""
    for ch in body:
        if ch in "<([{":
            depth += 1
        elif ch in ">)]}":
            depth -= 1
        if ch == "," and depth == 0:
            fields.append(cur)
            cur = ""
        else:
            cur += ch
    fields.append(cur)
    out = []
    for f in fields:
        f = re.sub(r"#\[[^\]]*\]", "", f).strip()
        if not f:
            continue
        mm = re.match(r"(?:pub(?:\([^)]*\))?\s+)?(\w+)\s*:\s*(.+)$", f, flags=re.S)
        if not mm:
            raise ExtractError(f"{rel}: cannot parse field {f!r} of {name}")
        out.append((mm.group(1), " ".join(mm.group(2).split())))
    return out


def _fn_body(t, name):
    m = re.search(r"\bfn\s+" + name + r"\s*(<[^>]*>)?\s*\(", t)
    if not m:
        return None
    i = t.find("{", m.end())
    return t[i:_match_brace(t, i)]


def _collect_body():
    rel = RT + "/vm/gc.rs"
    t = strip_comments(rd(rel))
    # drop cfg(verif) statements: attribute + the statement it guards
    t = re.sub(r"#\[cfg\(vbxq_aelys_lang_verif\)\]\s*[^;{]*;", "", t)
    body = _fn_body(t, "collect")
    if body is None:
        raise ExtractError("runtime/src/vm/gc.rs: fn collect not found")
    seen, todo, text = {"collect", "maybe_collect"}, [body], ""
    while todo:
        b = todo.pop()
        text += b
        for h in re.findall(r"\bself\s*\.\s*(\w+)\s*\(", b) + re.findall(r"\bSelf::(\w+)\s*\(", b):
            if h not in seen:
                seen.add(h)
                hb = _fn_body(t, h)
                if hb is not None:
                    todo.append(hb)
    return text


def _coq_str_list(xs):
    return "[" + "; ".join('"%s"' % x for x in xs) + "]"


def _coq_pair_list(xs):
    return "[" + ";\n   ".join('("%s", "%s")' % (a, b) for a, b in xs) + "]"


@extract.register("GcRootFields")
def gen_gc_root_fields():
    defs = _type_defs()
    ref = _ref_types(defs)
    pat = re.compile(r"\b(" + "|".join(sorted(ref)) + r")\b")
    vm_fields = _struct_fields(RT + "/vm/core.rs", "VM")
    if len(vm_fields) < 10:
        raise ExtractError("struct VM: fewer than 10 fields parsed")
    vm_ref = [(n, ty) for n, ty in vm_fields if pat.search(ty)]
    names = {n for n, _ in vm_fields}
    body = _collect_body()
    used = sorted({n for n in re.findall(r"\bself\s*\.\s*(\w+)\b(?!\s*\()", body) if n in names})
    clears = sorted({n for n in re.findall(r"\bself\s*\.\s*(\w+)\s*\.\s*clear\s*\(", body) if n in names})
    # a field that is only cleared is not "used for marking"
    uses = []
    for n in used:
        occ = len(re.findall(r"\bself\s*\.\s*" + n + r"\b(?!\s*\()", body))
        clr = len(re.findall(r"\bself\s*\.\s*" + n + r"\s*\.\s*clear\s*\(", body))
        if occ > clr:
            uses.append(n)
    if "mark" not in body:
        raise ExtractError("VM::collect does not call mark")
    fr_fields = _struct_fields(RT + "/vm/frame.rs", "CallFrame")
    fr_ref = [(n, ty) for n, ty in fr_fields if pat.search(ty)]
    fr_names = {n for n, _ in fr_fields}
    fr_used = sorted({n for n in re.findall(r"\.\s*(\w+)\b", body) if n in fr_names})
    # safepoints
    sites = []
    for rel in _files(RT) + _files("driver/src") + _files("cli/src"):
        if rel.endswith(("vm/gc.rs", "verif.rs")):
            continue
        t = strip_comments(rd(rel))
        for m in re.finditer(r"\b(\w+)\s*\.\s*(maybe_collect|collect)\s*\(\s*\)", t):
            if m.group(2) == "collect" and m.group(1) not in ("self", "vm", "machine"):
                continue  # Iterator::collect
            before = t[:m.start()]
            if rel.endswith(".inc"):
                arms = re.findall(r"^\s*(\d+)\s*(?:\|\s*\d+\s*)*=>", before, flags=re.M)
                ctx = "op" + arms[-1] if arms else "top"
            else:
                fns = re.findall(r"\bfn\s+(\w+)", before)
                ctx = "fn " + fns[-1] if fns else "top"
            sites.append((rel[len(RT) + 1:] if rel.startswith(RT) else rel, ctx))
    sites.sort()
    # object kinds and mark arms
    kt = strip_comments(rd(BC + "/object/kinds.rs"))
    m = re.search(r"\benum\s+ObjectKind\s*\{", kt)
    if not m:
        raise ExtractError("ObjectKind not found")
    kinds = re.findall(r"\b([A-Z]\w*)\s*\(", kt[m.end():_match_brace(kt, m.end() - 1)])
    gt = strip_comments(rd(BC + "/heap/gc.rs"))
    mb = _fn_body(gt, "mark")
    if mb is None:
        raise ExtractError("Heap::mark not found")
    arms = sorted(set(re.findall(r"ObjectKind::(\w+)", mb)))
    wildcard = bool(re.search(r"\n\s*_\s*=>", mb))
    out = [HEADER.format(src="runtime/src/vm/core.rs, vm/frame.rs, vm/gc.rs, every maybe_collect() call site, "
                             "bytecode/src/object/kinds.rs, heap/gc.rs"),
           "From Coq Require Import String List.\nImport ListNotations.\nLocal Open Scope string_scope.\n\n"]
    out.append(f"Definition vm_reference_fields : list (string * string) :=\n  {_coq_pair_list(vm_ref)}.\n\n")
    out.append(f"Definition collect_uses : list string := {_coq_str_list(uses)}.\n")
    out.append(f"Definition collect_clears : list string := {_coq_str_list(clears)}.\n\n")
    out.append(f"Definition frame_reference_fields : list (string * string) :=\n  {_coq_pair_list(fr_ref)}.\n")
    out.append(f"Definition collect_frame_uses : list string := {_coq_str_list(fr_used)}.\n\n")
    out.append(f"Definition safepoint_sites : list (string * string) :=\n  {_coq_pair_list(sites)}.\n\n")
    out.append(f"Definition object_kinds : list string := {_coq_str_list(sorted(kinds))}.\n")
    out.append(f"Definition mark_arms : list string := {_coq_str_list(arms)}.\n")
    out.append(f"Definition mark_has_wildcard_arm : bool := {'true' if wildcard else 'false'}.\n")
    write_if_changed("GcRootFields.v", "".join(out))
