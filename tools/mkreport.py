#!/usr/bin/env python3
"""Regenerates the data-driven part of DESIGN.md (between the markers
<!-- BEGIN GENERATED RECORD --> and <!-- END GENERATED RECORD -->): per-property status from
MANIFEST.json and evidence/, repairs and open findings from known_findings.jsonl, and the
seeded-change table from seeded/*/meta.json."""
import json, glob, os, re, subprocess
V = '/verif'
m = json.load(open(f'{V}/MANIFEST.json'))
out = []
out.append("### Per-property status (generated from MANIFEST.json, evidence/ and Props/*.v)\n")
out.append("| id | level | obligations (Theorem/Example in Props/<ID>.v) | quick wall s | open findings | repaired findings | notes |")
out.append("|---|---|---|---|---|---|---|")
kf = [json.loads(l) for l in open(f'{V}/known_findings.jsonl') if l.strip().startswith('{')]
for c in m['checks']:
    pid = c['property_id']
    ev = {}
    try:
        ev = json.load(open(f'{V}/evidence/{pid}.json'))
    except Exception:
        pass
    cov = ev.get('coverage', {})
    ob = f"{cov.get('discharged', '?')}/{cov.get('obligations', '?')}"
    nopen = sum(1 for k in kf if k['property'] == pid and k['status'] == 'open')
    nfix = sum(1 for k in kf if k['property'] == pid and k['status'] == 'fixed')
    out.append(f"| {pid} | {c['level_claimed']['category']} | {ob} | {ev.get('wall_s', '?')} | {nopen} | {nfix} | notes/{pid}.md |" if os.path.exists(f'{V}/notes/{pid}.md') else
               f"| {pid} | {c['level_claimed']['category']} | {ob} | {ev.get('wall_s', '?')} | {nopen} | {nfix} | section 10.1 |")
for n in m.get('not_applicable', []):
    out.append(f"| {n['property_id']} | not claimed | | | | | {n['reason']} |")
out.append("\n### Repairs made in /repo (`fix:` commits; existing suite passes after each)\n")
log = subprocess.run("git -C /repo log --reverse --format='%h %s' | grep ' fix:'", shell=True, capture_output=True, text=True).stdout.strip().split("\n")
out.append("| commit | what was wrong | recorded as |")
out.append("|---|---|---|")
for l in log:
    h, s = l.split(" ", 1)
    ids = sorted({k['id'] for k in kf if k['status'] == 'fixed' and str(k.get('commit', '')).startswith(h[:7])})
    out.append(f"| {h} | {s[5:]} | {', '.join(ids)} |")
out.append("\n### Open known findings (genuine defects recorded, not repaired)\n")
out.append("| id | property | what fails (specific input / site) |")
out.append("|---|---|---|")
for k in kf:
    if k['status'] == 'open':
        what = k['what'][:330].replace('|', '/')
        out.append(f"| {k['id']} | {k['property']} | {what} |")
out.append("\n### Externally seeded breaking changes and the checks' verdicts (seeded/<id>/)\n")
t = subprocess.run([f'{V}/tools/seeded_table.py'], capture_output=True, text=True).stdout
out.append(t)
text = "\n".join(out)
d = open(f'{V}/DESIGN.md').read()
B, E = "<!-- BEGIN GENERATED RECORD -->", "<!-- END GENERATED RECORD -->"
if B in d:
    d = d[:d.index(B) + len(B)] + "\n" + text + "\n" + d[d.index(E):]
else:
    d += f"\n\n## 11. Generated record\n\n{B}\n{text}\n{E}\n"
open(f'{V}/DESIGN.md', 'w').write(d)
print("DESIGN.md record regenerated:", len(text), "chars")
