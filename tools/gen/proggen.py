"""Grammar-based generator of Aelys programs in the fragment modelled by coq/Model/Eval.v.
Type-directed (int / bool / str / arr / vec / fn), mostly valid, always terminating:
loops use bounded counters or constant ranges, recursion is on a decreasing argument.
Deliberate pressure on what C01/C02 name: shadowing at every binder kind, immutable
constants reused under loops, side-effecting (printing) call arguments, 48-bit-edge literals,
constant conditions, unused lets, closures sharing captured variables, arrays/vecs by
reference, mutable parameters as copies, ranges of all three forms, break/continue."""
import random

EDGE_INTS = [0, 1, -1, 2, 3, 7, 10, 63, 64, 100, 255, 1000, 65535, 1 << 31, (1 << 46), (1 << 47) - 1, -(1 << 47),
             (1 << 47) - 2, -(1 << 47) + 1, 123456789012]
SMALL = [0, 1, 2, 3, 4, 5, 7, 10]
WORDS = ["a", "bc", "x y", "", "Z", "q1", "k=", "ab", "hello"]
NAMES = ["a", "b", "c", "d", "n", "x", "y", "i", "j", "k", "t", "acc", "v", "w"]


class Scope:
    def __init__(self, parent=None, fn_boundary=False):
        self.vars = {}          # name -> (type, mutable)
        self.parent = parent
        self.fn_boundary = fn_boundary

    def lookup_all(self):
        out = {}
        s = self
        while s:
            for k, v in s.vars.items():
                out.setdefault(k, v)
            s = s.parent
        return out


class Gen:
    def __init__(self, rng, opts=None):
        self.r = rng
        self.o = {"floats": True, "closures": True, "arrays": True, "errors": 0.06, "shadow": 0.25,
                  "max_stmts": 14, "max_depth": 3, "decorators": 0.15}
        if opts:
            self.o.update(opts)
        self.fn_count = 0
        self.funcs = {}         # name -> (param types, ret type)  global functions
        self.lines = []
        self.loop_depth = 0
        self.in_fn = 0
        self.features = set()

    # ---------------------------------------------------------------- helpers
    def chance(self, p):
        return self.r.random() < p

    def pick(self, xs):
        return xs[self.r.randrange(len(xs))]

    def vars_of(self, sc, ty, mutable=None):
        if ty == "str" and getattr(self, "no_str_vars", False) and mutable is None:
            return []
        return [n for n, (t, m) in sc.lookup_all().items() if t == ty and (mutable is None or m == mutable)]

    def fresh_name(self, sc, allow_shadow=True, ty=None):
        allv = sc.lookup_all()
        if allow_shadow and allv and self.chance(self.o["shadow"]):
            # at global scope a redefinition keeps the type (functions compiled earlier keep
            # their typed view of the global: a known C06 matter, not C01/C02's subject)
            # (the typed opcodes check their operand tags since 7e82908, so one redefinition in
            # four may now change the type: feature `retype-global`)
            retype = sc.parent is None and self.chance(self.o.get("retype_global", 0.25))
            cands = sorted(allv) if (sc.parent is not None or retype) else sorted(n for n, (t, m) in allv.items() if ty is not None and t == ty)
            if sc.parent is None and retype:
                # floats are never printed (the model prints them as `<float>`): a global that
                # functions compiled earlier print as an int must not become a float, nor the
                # other way round
                cands = [n for n in cands if allv[n][0] == ty or (ty is not None and "flt" not in (ty, allv[n][0]))]
            if cands:
                self.features.add("shadow")
                n = self.pick(cands)
                if retype and (ty is None or allv[n][0] != ty):
                    self.features.add("retype-global")
                return n
        for _ in range(20):
            n = self.pick(NAMES) + (str(self.r.randrange(4)) if self.chance(0.3) else "")
            if n not in allv and n not in self.funcs:
                return n
        self.fn_count += 1
        return f"u{self.fn_count}"

    # ---------------------------------------------------------------- expressions
    def int_lit(self):
        v = self.pick(EDGE_INTS) if self.chance(0.25) else self.pick(SMALL) if self.chance(0.6) else self.r.randrange(-50, 200)
        if v < 0:
            return f"({v})" if v > -(1 << 47) else "(-140737488355327 - 1)"
        if self.chance(0.05) and v > 999:
            return f"{v:_}"
        if self.chance(0.04):
            return hex(v)
        return str(v)

    def expr(self, sc, ty, d=0):
        r = self.r
        if ty == "int":
            vs = self.vars_of(sc, "int")
            c = r.random()
            if d >= self.o["max_depth"] or c < 0.25:
                return self.pick(vs) if vs and self.chance(0.6) else self.int_lit()
            if c < 0.62:
                op = self.pick(["+", "-", "*", "+", "-", "%", "/", "&", "|", "^", "<<", ">>"])
                a, b = self.expr(sc, "int", d + 1), self.expr(sc, "int", d + 1)
                if op in ("/", "%") and not self.chance(self.o["errors"]):
                    b = self.pick(["2", "3", "7", "(-2)", "10"])          # avoid division by zero mostly
                if op in ("<<", ">>"):
                    b = self.pick(["0", "1", "3", "16", "47", "48", "63", "64", "(-1)"]) if self.chance(0.5) else str(r.randrange(0, 50))
                return f"({a} {op} {b})"
            if c < 0.68:
                return f"(-{self.expr(sc, 'int', d + 1)})" if self.chance(0.6) else f"(~{self.expr(sc, 'int', d + 1)})"
            if c < 0.76:
                return f"(if {self.expr(sc, 'bool', d + 1)} {{ {self.expr(sc, 'int', d + 1)} }} else {{ {self.expr(sc, 'int', d + 1)} }})"
            if c < 0.9:
                fs = [n for n, (pt, rt) in self.funcs.items() if rt == "int"]
                if fs:
                    f = self.pick(fs)
                    return self.call(sc, f, d)
            arrs = self.vars_of(sc, "arr") + self.vars_of(sc, "vec")
            if arrs and self.o["arrays"]:
                a = self.pick(arrs)
                if self.chance(0.3):
                    return f"{a}.len()"
                idx = str(r.randrange(0, 3)) if not self.chance(self.o["errors"]) else self.pick(["5", "(-1)", "99"])
                return f"{a}[{idx}]"
            cl = self.vars_of(sc, "fn0")
            if cl:
                return f"{self.pick(cl)}()"
            return self.int_lit()
        if ty == "bool":
            vs = self.vars_of(sc, "bool")
            c = r.random()
            if d >= self.o["max_depth"] or c < 0.2:
                return self.pick(vs) if vs and self.chance(0.5) else self.pick(["true", "false"])
            if c < 0.65:
                op = self.pick(["==", "!=", "<", "<=", ">", ">="])
                return f"({self.expr(sc, 'int', d + 1)} {op} {self.expr(sc, 'int', d + 1)})"
            if c < 0.72 and self.o["floats"]:
                self.features.add("float")
                op = self.pick(["==", "!=", "<", "<=", ">", ">="])
                return f"({self.expr(sc, 'flt', d + 1)} {op} {self.expr(sc, 'flt', d + 1)})"
            if c < 0.85:
                op = self.pick(["and", "or"])
                a, b = self.expr(sc, "bool", d + 1), self.expr(sc, "bool", d + 1)
                if self.chance(0.2):
                    self.features.add("effect-in-shortcircuit")
                    b = f"{self.effect_bool(sc)}"
                return f"({a} {op} {b})"
            if c < 0.93:
                return f"(not {self.expr(sc, 'bool', d + 1)})"
            return f"({self.expr(sc, 'str', d + 1)} == {self.expr(sc, 'str', d + 1)})"
        if ty == "flt":
            vs = self.vars_of(sc, "flt")
            c = r.random()
            if d >= self.o["max_depth"] or c < 0.35:
                if vs and self.chance(0.6):
                    return self.pick(vs)
                v = self.pick(["0.5", "1.5", "2.0", "0.25", "3.75", "10.0", "0.1", "100.5", "(-0.5)", "(-2.25)", "1e3", "0.0", "(-0.0)", "(-7.5)", "(-100.25)"])
                return v
            if c < 0.8:
                op = self.pick(["+", "-", "*", "/", "%"])
                a = self.expr(sc, "flt", d + 1)
                b = self.expr(sc, "flt", d + 1) if op not in "/%" else self.pick(["2.0", "4.0", "0.5", "(-8.0)", "3.0", "(-1.5)", "0.3"])
                if op == "%":
                    self.features.add("float-mod")
                return f"({a} {op} {b})"
            if c < 0.95:
                self.features.add("int-float-promotion")
                op = self.pick(["+", "-", "*"])
                # an int LITERAL only: a float-typed op fed an int from an untyped parameter is a
                # known typed-fast-path defect (KF-C06-1); `int OP float` was typed int until
                # /repo 1cf0449 (KF-C02-1, fixed) and is generated again
                if self.chance(0.5):
                    return f"({self.int_lit()} {op} {self.expr(sc, 'flt', d + 1)})"
                return f"({self.expr(sc, 'flt', d + 1)} {op} {self.int_lit()})"
            return f"(-{self.expr(sc, 'flt', d + 1)})"
        if ty == "str":
            vs = self.vars_of(sc, "str")
            c = r.random()
            if d >= self.o["max_depth"] or c < 0.3:
                return self.pick(vs) if vs and self.chance(0.5) else '"' + self.pick(WORDS) + '"'
            if c < 0.6:
                return f"({self.expr(sc, 'str', d + 1)} + {self.expr(sc, 'str', d + 1)})"
            parts = []
            for _ in range(r.randrange(1, 4)):
                parts.append(self.pick(["v=", " ", "", "#", "n:"]))
                t = self.pick(["int", "int", "bool", "str"])
                parts.append("{" + self.expr(sc, t, d + 1).replace('"', "'") + "}" if t != "str" else "{" + (self.pick(vs) if vs else "1") + "}")
            s = "".join(parts)
            if "'" in s:          # no quotes inside interpolation: fall back
                return '"' + self.pick(WORDS) + '"'
            self.features.add("interpolation")
            return '"' + s + '"'
        raise ValueError(ty)

    def effect_bool(self, sc):
        """a boolean expression with a visible side effect (prints), for short-circuit tests"""
        fs = [n for n, (pt, rt) in self.funcs.items() if rt == "bool" and not pt]
        if fs:
            return f"{self.pick(fs)}()"
        return self.expr(sc, "bool", self.o["max_depth"])

    def call(self, sc, f, d):
        pt, rt = self.funcs[f]
        args = []
        for t in pt:
            if t == "fn1":
                cands = [n for n, (p2, r2) in self.funcs.items() if p2 == ["int"] and r2 == "int" and n != f]
                if not cands:
                    return self.int_lit()
                args.append(self.pick(cands))
                continue
            if t == "int" and self.chance(0.15):
                pf = [n for n, (p2, r2) in self.funcs.items() if r2 == "int" and not p2 and n != f]
                if pf:
                    self.features.add("effect-arg")
                    args.append(f"{self.pick(pf)}()" if self.chance(0.6) else f"({self.pick(pf)}())")
                    continue
            args.append(self.expr(sc, t, d + 1))
        if self.chance(0.25):
            self.features.add("paren-arg")
            args = [f"({a})" for a in args]
        return f"{f}({', '.join(args)})"

    # ---------------------------------------------------------------- statements
    def block(self, sc, n, ind, ret=None, fn_boundary=False):
        inner = Scope(sc, fn_boundary)
        out = []
        for _ in range(n):
            out += self.stmt(inner, ind, ret)
        return out

    def stmt(self, sc, ind, ret=None):
        r = self.r
        p = "    " * ind
        c = r.random()
        out = []
        if c < 0.22:
            ty = self.pick(["int", "int", "int", "bool", "str"] + (["flt"] if self.o["floats"] else []))
            mut = self.chance(0.45)
            n = self.fresh_name(sc, ty=ty)
            e = self.expr(sc, ty)
            if not mut and self.chance(0.5):
                e = self.int_lit() if ty == "int" else e      # immutable constant: const-prop bait
                self.features.add("const-let")
            sc.vars[n] = (ty, mut)
            out.append(f"{p}let {'mut ' if mut else ''}{n} = {e}")
        elif c < 0.245:
            fs = [n for n, (pt, rt) in self.funcs.items() if rt == "int" and not pt]
            if fs:
                self.features.add("unused-let-effect")
                n = self.fresh_name(sc, allow_shadow=False)
                sc.vars[n] = ("unused", False)
                f = self.pick(fs)
                out.append(f"{p}let {n} = " + self.pick([f'"k={{{f}()}}"', f'"{{{f}()}}"', f"{f}() + 1", f"[{f}(), 2]", f"(if true {{ {f}() }} else {{ 0 }})"]))
            else:
                out.append(f"{p}println({self.expr(sc, 'int')})")
        elif c < 0.36:
            for ty in r.sample(["int", "str", "bool"] + (["flt"] if self.o["floats"] else []), 4 if self.o["floats"] else 3):
                vs = self.vars_of(sc, ty, mutable=True)
                if vs:
                    v = self.pick(vs)
                    if ty == "int" and self.chance(0.5):
                        out.append(f"{p}{v} {self.pick(['+=', '-=', '*='])} {self.expr(sc, 'int', 1)}" if self.chance(0.7) else f"{p}{v}{self.pick(['++', '--'])}")
                    elif ty == "flt" and self.chance(0.5):
                        out.append(f"{p}{v} {self.pick(['+=', '-=', '*='])} {self.expr(sc, 'flt', 2)}")
                    elif ty == "str" and self.chance(0.5):
                        # inside a loop a string must not be rebuilt from strings (s = s + s
                        # doubles per iteration: the evaluator inside Coq would need minutes)
                        self.no_str_vars = self.loop_depth > 0 or self.in_fn > 0
                        out.append(f"{p}{v} += {self.expr(sc, 'str', 1)}")
                        self.no_str_vars = False
                    else:
                        self.no_str_vars = ty == "str" and (self.loop_depth > 0 or self.in_fn > 0)
                        out.append(f"{p}{v} = {self.expr(sc, ty)}")
                        self.no_str_vars = False
                    break
            else:
                out.append(f"{p}println({self.expr(sc, 'int')})")
        elif c < 0.52:
            ty = self.pick(["int", "int", "str", "bool"])
            fn = self.pick(["println", "println", "print"])
            out.append(f"{p}{fn}({self.expr(sc, ty)})")
        elif c < 0.62 and ind < 3:
            out.append(f"{p}if {self.expr(sc, 'bool')} {{")
            out += self.block(sc, r.randrange(1, 3), ind + 1, ret)
            if self.chance(0.5):
                out.append(f"{p}}} else {{")
                out += self.block(sc, r.randrange(1, 3), ind + 1, ret)
            out.append(f"{p}}}")
        elif c < 0.66 and ind < 3:
            self.features.add("const-cond")
            out.append(f"{p}if {self.pick(['true', 'false', '(1 < 2)', '(3 == 4)'])} {{")
            out += self.block(sc, r.randrange(1, 3), ind + 1, ret)
            out.append(f"{p}}}")
        elif c < 0.75 and ind < 3:
            it = self.fresh_name(sc, ty="int")
            lo = r.randrange(-2, 4)
            n_it = r.randrange(0, 5)
            st = r.randrange(1, 4)
            incl = self.chance(0.5)
            exact = self.chance(0.6)          # the end value is hit exactly (matters for ..= )
            up = self.chance(0.6)
            span = n_it * st + (0 if exact else r.randrange(1, st + 1) % st)
            a, b = (lo, lo + span) if up else (lo + span, lo)
            dots = "..=" if incl else ".."
            if up and st == 1 and self.chance(0.6):
                hdr = f"for {it} in {a}{dots}{b}"
            else:
                hdr = f"for {it} in {a}{dots}{b} step {st if up else -st}"
                if not up:
                    self.features.add("neg-step")
            if incl:
                self.features.add("inclusive-range")
            out.append(f"{p}{hdr} {{")
            inner = Scope(sc)
            inner.vars[it] = ("int", False)
            self.loop_depth += 1
            for _ in range(r.randrange(1, 4)):
                out += self.stmt(inner, ind + 1, ret)
            if self.chance(0.3):
                out.append(f"{p}    if {self.expr(inner, 'bool')} {{ {self.pick(['break', 'continue'])} }}")
                self.features.add("break-continue")
            self.loop_depth -= 1
            out.append(f"{p}}}")
        elif c < 0.81 and ind < 3:
            cn = self.fresh_name(sc, allow_shadow=False)
            sc.vars[cn] = ("ctr", True)
            out.append(f"{p}let mut {cn} = 0")
            out.append(f"{p}while {cn} < {r.randrange(1, 5)} {{")
            inner = Scope(sc)
            self.loop_depth += 1
            out.append(f"{p}    {cn}++")
            for _ in range(r.randrange(1, 3)):
                out += self.stmt(inner, ind + 1, ret)
            if self.chance(0.3):
                out.append(f"{p}    if {self.expr(inner, 'bool')} {{ {self.pick(['break', 'continue'])} }}")
            self.loop_depth -= 1
            out.append(f"{p}}}")
            sc.vars[cn] = ("int", False)     # readable afterwards, not reassigned by generated code
        elif c < 0.86 and self.o["arrays"]:
            n = self.fresh_name(sc, allow_shadow=False)
            k = r.randrange(3, 6)
            elems = ", ".join(self.expr(sc, "int", 2) for _ in range(k))
            if self.chance(0.5):
                sc.vars[n] = ("arr", False)
                out.append(f"{p}let {n} = [{elems}]")
            else:
                sc.vars[n] = ("vec", False)
                out.append(f"{p}let {n} = Vec[{elems}]")
                if self.chance(0.5):
                    out.append(f"{p}{n}.push({self.expr(sc, 'int', 2)})")
            self.features.add("collections")
            if self.chance(0.5):
                out.append(f"{p}{n}[{r.randrange(0, 3)}] = {self.expr(sc, 'int', 2)}")
            if self.chance(0.4):
                it = self.fresh_name(sc, ty="int")
                out.append(f"{p}for {it} in {n} {{ print({it}) }}")
                self.features.add("foreach")
        elif c < 0.90 and self.o["closures"] and ind < 2:
            # closure sharing a captured variable by reference
            cv = self.fresh_name(sc, allow_shadow=False)
            # the captured counter is not offered to other expressions: `cv == f()` would depend on
            # operand evaluation order, which the language spec leaves open (the VM reads a local
            # operand when the operator executes, i.e. after the call)
            sc.vars[cv] = ("captured", True)
            fnm = self.fresh_name(sc, allow_shadow=False)
            out.append(f"{p}let mut {cv} = {self.int_lit()}")
            out.append(f"{p}let {fnm} = fn() {{ {cv} += {r.randrange(1, 4)}; return {cv} }}")
            sc.vars[fnm] = ("fn0", False)
            self.features.add("closure")
            out.append(f"{p}println({fnm}() + {fnm}())")
            out.append(f"{p}println({cv})")
        elif c < 0.94 and ind < 3:
            out.append(f"{p}{{")
            out += self.block(sc, r.randrange(1, 3), ind + 1, ret)
            out.append(f"{p}}}")
            self.features.add("block")
        elif ret is not None and self.chance(0.5):
            out.append(f"{p}if {self.expr(sc, 'bool')} {{ return {self.expr(sc, ret)} }}")
            self.features.add("early-return")
        else:
            out.append(f"{p}println({self.expr(sc, 'str')})")
        return out

    def function(self, sc):
        self.fn_count += 1
        kind = self.r.randrange(25)
        name = f"f{self.fn_count}"
        deco = ""
        if self.chance(self.o["decorators"]):
            deco = self.pick(["@inline", "@inline_always", "@no_gc"]) + "\n"
            self.features.add("decorator")
        out = []
        if kind == 0:           # effectful nullary int function (prints, then returns)
            v = self.int_lit()
            out.append(f'{deco}fn {name}() {{ print("<{name}>"); return {v} }}')
            self.funcs[name] = ([], "int")
        elif kind == 1:         # effectful nullary bool function
            out.append(f'{deco}fn {name}() {{ print("[{name}]"); return {self.pick(["true", "false"])} }}')
            self.funcs[name] = ([], "bool")
        elif kind == 2:         # recursion on a decreasing argument
            out.append(f"fn {name}(n, acc) {{")
            out.append(f"    if n <= 0 {{ return acc }}")
            out.append(f"    return {name}(n - 1, acc {self.pick(['+', '*', '-', '^'])} {self.pick(['n', '2', '(n + 1)'])})")
            out.append("}")
            self.funcs[name] = (["small", "int"], "int")
            self.features.add("recursion")
        elif kind == 5:         # closures made in a loop inside a function, capturing several block locals
            self.features.add("closure-loop")
            n_it = self.r.randrange(2, 4)
            order = self.r.randrange(3)
            body = {0: "return a + b * 1000", 1: "return b * 1000 + a", 2: "return b - a + c"}[order]
            out.append(f"fn {name}() {{")
            out.append("    let fs = Vec[fn() { return 0 }]")
            out.append(f"    for i in 0..{n_it} {{")
            if self.chance(0.5):
                out.append("        let tmp = i * 2")
                out.append("        print(tmp)")
            out.append("        let a = i + 1")
            out.append("        let b = i * 10")
            out.append("        let c = 7")
            out.append(f"        fs.push(fn() {{ {body} }})")
            if self.chance(0.4):
                out.append("        if i == 1 { continue }")
            out.append("    }")
            out.append("    let mut total = 0")
            out.append("    for f in fs { total = total * 3 + f() }")
            out.append("    return total")
            out.append("}")
            self.funcs[name] = ([], "int")
        elif kind == 6:         # a short-lived local dies, the captured counter reuses its register
            self.features.add("closure-reuse")
            out.append(f"fn {name}() {{")
            if self.chance(0.7):
                out.append(f"    let t0 = {self.int_lit()}")
                out.append("    print(t0)")
            out.append("    let mut count = 0")
            out.append(f"    let inc = fn() {{ count += {self.r.randrange(1, 4)}; return count }}")
            out.append(f"    let other = {self.r.randrange(10, 60)}")
            if self.chance(0.5):
                out.append("    let more = other * 2")
                out.append("    print(more)")
            out.append("    print(inc() + inc())")
            # sometimes the captured counter is never mentioned again by the function itself
            out.append("    return other * 100 + count" if self.chance(0.5) else "    return other * 100 + inc()")
            out.append("}")
            self.funcs[name] = ([], "int")
        elif kind == 7:         # higher-order: a function without globals of its own calling its argument
            self.features.add("higher-order")
            shape = self.r.randrange(3)
            if shape == 0:
                out.append(f"fn {name}(cb, x) {{ return cb(x) }}")
            elif shape == 1:
                out.append(f"fn {name}(cb, x) {{ let a = cb(x); let b = cb(x + 1); return a + b }}")
            else:
                out.append(f"fn {name}(cb, x) {{ if x > 2 {{ return cb(x - 1) }} return cb(x) + 1 }}")
            self.funcs[name] = (["fn1", "int"], "int")
        elif kind == 13:        # inliner bait called with effectful arguments, bare and in redundant parentheses
            self.features.add("inline-effect-arg")
            t = f"{name}t"
            out.append(f"let mut {name}c = {self.r.randrange(0, 5)}")
            out.append(f'fn {t}() {{ print("<{t}>"); {name}c = {name}c + 1; return {name}c }}')
            body = self.pick(["a + a", "a * a - a", "7", "b - a", "a", "b", "(a + b) * a"])
            two = "b" in body
            out.append(f"fn {name}({'a, b' if two else 'a'}) {{ return {body} }}")
            def arg():
                inner = f"{t}()"
                for _ in range(self.r.randrange(0, 3)):
                    inner = f"({inner})"
                return inner if self.chance(0.8) else self.pick([f"({t}() + 1)", f"({name}c)", "3"])
            for _ in range(self.r.randrange(1, 4)):
                call = f"{name}({arg()}, {arg()})" if two else f"{name}({arg()})"
                out.append(self.pick([f"println({call})", f"let {name}r = {call}\nprintln({name}r)", f"println({call} + {call})"]))
            out.append(f"println({name}c)")
        elif kind == 24:        # a for-each / for variable named like an enclosing immutable literal local of the function
            self.features.add("foreach-var-shadows-const-local")
            v = self.pick(["v", "item", "k"])
            form = self.pick([f"for {v} in [1, 2, 3] {{ t = t + {v} }}", f"for {v} in Vec[4, 5] {{ t = t * 10 + {v} }}",
                              f"for {v} in \"ab\" {{ t = t + 1; print({v}) }}", f"for {v} in 0..3 {{ t = t + {v} }}"])
            out.append(f"fn {name}() {{\n    let {v} = 100\n    let mut t = 0\n    {form}\n    return t * 1000 + {v}\n}}")
            out.append(f"println({name}())")
        elif kind == 23:        # a loop whose body ends in `return`, code after the loop, run with zero and with some iterations
            self.features.add("loop-body-ends-in-return")
            loop = self.pick(["for i in lo..hi {{ {b} }}", "while lo < hi {{ {b} }}", "for c in s {{ {b} }}"])
            b = self.pick(["return 1", "print(\"in\"); return 2", "if lo > 100 { print(\"x\") }; return 3".replace("; return", "\n        return")])
            out.append(f"fn {name}(lo, hi, s) {{\n    " + loop.format(b=b) + "\n    print(\"after\")\n    return 0\n}")
            out.append(f"println({name}(0, 0, \"\"))")
            out.append(f"println({name}(0, 2, \"ab\"))")
            out.append(f"println({name}(5, 1, \"z\"))")
        elif kind == 22:        # two closures of one frame share a mutable local, captured high / low / high; used after the frame returned
            self.features.add("shared-upvalue-capture-order")
            decls = [("lo", self.r.randrange(1, 9)), ("v", self.r.randrange(10, 19))]
            if self.chance(0.5):
                decls.reverse()
            d = "\n".join(f"    let mut {n} = {val}" for n, val in decls)
            caps = self.pick([("v", "lo", "v"), ("lo", "v", "lo"), ("v", "v", "lo")])
            body = [f"    let c1 = fn() {{ {caps[0]} = {caps[0]} + 100; return {caps[0]} }}",
                    f"    let c2 = fn() {{ return {caps[1]} * 2 }}",
                    f"    let c3 = fn() {{ return {caps[2]} }}"]
            out.append(f"let mut {name}1 = null\nlet mut {name}2 = null\nlet mut {name}3 = null")
            out.append(f"fn {name}mk() {{\n{d}\n" + "\n".join(body) + f"\n    {name}1 = c1\n    {name}2 = c2\n    {name}3 = c3\n    return 0\n}}")
            out.append(f"{name}mk()")
            for _ in range(self.r.randrange(3, 6)):
                out.append(self.pick([f"println({name}1())", f"println({name}2())", f"println({name}3())", f"println({name}3() + {name}1())"]))
        elif kind == 21:        # manual memory with offsets that become literals only through optimisation (outside the evaluator's fragment: levels are compared with each other)
            self.features.add("manual-memory-const-offsets")
            size = self.pick([256, 257, 300, 512, 255])
            off = self.pick([255, 256, 257, 0, 1, 128])
            form = self.pick([f"let off = {off}", f"let off = {off - 1} + 1", f"let k = {off // 2}\n    let off = k + {off - off // 2}"])
            out.append(f"fn {name}() {{\n    let p = alloc({size})\n    store(p, 0, 11)\n    {form}\n    store(p, off, 22)\n    let a = load(p, 0)\n    let b = load(p, off)\n    free(p)\n    return a * 100 + b\n}}")
            out.append(f"println({name}())")
        elif kind == 20:        # a closure escapes the block whose FIRST local it captured (mutable), the block ends normally
            self.features.add("closure-escapes-block-first-local")
            n = self.r.randrange(2, 4)
            body = []
            body.append("    let mut h1 = null")
            body.append("    let mut h2 = null")
            pre = self.pick(["", "        let pad = 7\n"])      # the captured local first in its block, or not
            body.append(f"    for i in 0..{n} {{\n{pre}        let mut c = i * 10\n        let g = fn() {{ c += 1; return c }}\n        if i == 0 {{ h1 = g }} else {{ h2 = g }}\n    }}")
            body.append("    let r1 = h1()")
            body.append("    let r2 = h2()")
            body.append("    let r3 = h1()")
            body.append(f"    if r1 > 0 {{\n        let mut d = {self.r.randrange(2, 9)}\n        h1 = fn() {{ d += 1; return d }}\n    }}")
            body.append("    let other = 1000")
            body.append("    let r4 = h1()")
            body.append("    {\n        let mut e = 50\n        h2 = fn() { e += 5; return e }\n    }")
            body.append("    let more = 2000")
            body.append("    let r5 = h2()")
            body.append("    return r1 + r2 * 10 + r3 * 100 + r4 * 1000 + r5 * 10000 + other + more")
            out.append(f"fn {name}() {{\n" + "\n".join(body) + "\n}")
            out.append(f"println({name}())")
        elif kind == 18:        # closures / nested functions returned as the function's LAST EXPRESSION, several instances, noise calls between
            self.features.add("closure-as-tail-value")
            v = self.pick([
                f"fn {name}mk(s) {{\n    let mut c = s\n    let f = fn() {{ c += 1; return c }}\n    f\n}}",
                f"fn {name}mk(s) {{\n    let mut c = s\n    fn() {{ c += 1; return c }}\n}}".replace("    fn() {", "    let g = fn() {").replace("return c }\n}", "return c }\n    g\n}"),
                f"fn {name}mk(s) {{\n    let mut c = s\n    fn step() {{ c += 1; return c }}\n    step\n}}",
                f"fn {name}mk(s) {{\n    let mut c = s\n    if s > 100 {{ fn() {{ c += 2; return c }} }} else {{ fn() {{ c += 1; return c }} }}\n}}".replace("{ fn() {", "{ let h = fn() {").replace("return c } }", "return c }; h }"),
            ])
            out.append(v)
            out.append(f"fn {name}n(a, b, c) {{ let x = a + b + c; let y = x * 2; return y }}")
            a, b = self.r.randrange(0, 9), self.r.randrange(10, 300)
            out.append(f"let {name}a = {name}mk({a})")
            out.append(f"let {name}b = {name}mk({b})")
            for _ in range(self.r.randrange(3, 7)):
                out.append(self.pick([f"println({name}a())", f"println({name}b())", f"println({name}n({self.r.randrange(50, 90)}, 60, 70))",
                                      f"println({name}a() + {name}b())"]))
        elif kind == 19:        # the left operand is a local that evaluating the right operand changes
            self.features.add("operand-order")
            op = self.pick(["+", "-", "*"])
            out.append(f"fn {name}() {{")
            out.append(f"    let mut x = {self.r.randrange(1, 9)}")
            out.append(f"    let bump = fn() {{ x = x + 10; return 100 }}")
            out.append(f"    let y = x {op} bump()")
            out.append(f"    let mut a = {self.r.randrange(1, 9)}")
            out.append(f"    let b = a {op} (a = {self.r.randrange(10, 20)})")
            out.append(f"    let z = x {op} (x {op} bump())")
            out.append(f"    let u = x {op} (if x > 0 {{ bump() }} else {{ 0 }})")
            out.append(f"    let v = a {op} (if a > 100 {{ 0 }} else {{ (a = a + 1) }})")
            out.append(f"    let w = x {op} [bump(), 1][0]")
            out.append(f"    println(u * 100 + v + w)")
            out.append(f"    return y * 10000 + b * 100 + z + a + x")
            out.append("}")
            out.append(f"println({name}())")
        elif kind == 16:        # a lambda parameter named like a top-level constant / inlinable top-level function
            self.features.add("lambda-param-shadows-global")
            c = f"{name}c"
            t = f"{name}t"
            out.append(f"let {c} = {self.r.randrange(2, 9)}")
            out.append(f'fn {t}() {{ return {self.r.randrange(100, 200)} }}')
            body = self.pick([f"{c} * 2", f"{c} + {c}", f"{c} - 1", f"{c}"])
            lam = f"fn({c}) {{ return {body} }}"
            for _ in range(self.r.randrange(0, 3)):     # redundant parentheses around the lambda
                lam = f"({lam})"
            out.append(f"let {name}l = {lam}")
            out.append(f"println({name}l({self.r.randrange(10, 30)}))")
            out.append(f"let {name}m = fn({t}) {{ return {t}() + 1 }}")
            out.append(f"println({name}m(fn() {{ return {self.r.randrange(1, 9)} }}))")
            if self.chance(0.5):
                out.append(f"fn {name}(p) {{ let q = fn({c}, {t}) {{ return {c} + {t}() }}; return q(p, fn() {{ return 1000 }}) }}")
                out.append(f"println({name}({self.r.randrange(1, 9)}))")
            out.append(f"println({c} + {t}())")
        elif kind == 17:        # a loop variable named like a variable its own range bounds / step mention
            self.features.add("loop-var-in-own-bounds")
            v = self.pick(["n", "lo", "k", "m"])
            a = self.r.randrange(1, 5)
            shape = self.pick([f"for {v} in 0..{v} {{ t = t + {v} }}",
                               f"for {v} in {v}..={v} + 2 {{ t = t * 10 + {v} }}",
                               f"for {v} in 1..20 step {v} {{ t = t + {v} }}",
                               f"for {v} in {v}..0 step -1 {{ t = t + {v} }}"])
            if self.chance(0.5):
                out.append(f"fn {name}({v}) {{\n    let mut t = 0\n    {shape}\n    return t * 100 + {v}\n}}")
                out.append(f"println({name}({a}))")
            else:
                out.append(f"fn {name}() {{\n    let mut {v} = {a}\n    let mut t = 0\n    {shape}\n    return t * 100 + {v}\n}}")
                out.append(f"println({name}())")
        elif kind == 15:        # a capturing closure kept in a global, making nested functions, called again and again from one site
            self.features.add("global-closure-repeated-site")
            inner = self.pick(["let g = fn(x) { return x + 1 }; return g(c)",
                               "fn g(x) { return x * 2 }; return g(c) + c",
                               "let g = fn() { return c }; return g() + g()",
                               "return c"])
            out.append(f"fn {name}mk(s) {{ let mut c = s; return fn() {{ c += {self.r.randrange(1, 4)}; {inner} }} }}")
            out.append(f"let {name}h = {name}mk({self.r.randrange(0, 9)})")
            if self.chance(0.5):
                out.append(f"let {name}k = {name}mk({self.r.randrange(10, 19)})")
                out.append(f"for i in 0..{self.r.randrange(2, 5)} {{ println({name}h() + {name}k()) }}")
            else:
                out.append(f"for i in 0..{self.r.randrange(2, 5)} {{ println({name}h()) }}")
            if self.chance(0.5):
                out.append(f"fn {name}r() {{ return {name}h() }}")
                out.append(f"println({name}r() + {name}r())")
                out.append(f"println({name}r())")
        elif kind == 14:        # live ranges with holes: early-dead parameters / locals, then locals made by calls
            self.features.add("call-into-freed-register")
            g = f"{name}g"
            nl = self.r.randrange(2, 6)
            gb = "; ".join(f"let g{i} = {'k' if i == 0 else f'g{i-1}'} + {self.r.randrange(1, 9)}" for i in range(nl))
            out.append(f"fn {g}(k) {{ {gb}; return g{nl-1} + {'g0' if nl > 1 else 'k'} }}")
            out.append(f"fn {g}0() {{ let g0 = {self.r.randrange(1, 9)}; {gb[gb.find(';') + 2:] if nl > 1 else 'let gx = 0'}; return g{nl-1} + g0 }}")
            ps = self.r.sample(["m", "q", "p", "z"], self.r.randrange(1, 4))
            vs = list(ps)
            def call(a):
                return f"{g}({a})" if self.chance(0.5) else f"{g}0()"
            body = []
            k = 0
            def operand():
                return self.pick(vs) if self.chance(0.75) else str(self.r.randrange(0, 30))
            for _ in range(self.r.randrange(2, 7)):
                k += 1
                v = f"y{k}" if self.chance(0.85) else self.pick(vs)      # sometimes shadow a parameter / local
                c = self.r.random()
                if c < 0.45:
                    body.append(f"    let {'mut ' if self.chance(0.3) else ''}{v} = {call(operand())}")
                elif c < 0.7:
                    body.append(f"    let {v} = {operand()} + {operand()}")
                elif c < 0.85:
                    body.append(f"    let {v} = {self.r.randrange(0, 99)}")
                else:
                    lv = f"d{k}"
                    body.append(f"    for {lv} in 0..{self.r.randrange(1, 4)} {{ let mut {self.pick([lv, 'w'])} = {call(operand())}; print({lv}) }}")
                    continue
                if v not in vs:
                    vs.append(v)
            keep = self.r.sample(vs, self.r.randrange(1, len(vs) + 1))
            out.append(f"fn {name}({', '.join(ps)}) {{")
            out += body
            out.append(f"    return {' + '.join(keep)}")
            out.append("}")
            out.append(f"println({name}({', '.join(str(self.r.randrange(0, 9)) for _ in ps)}))")
        elif kind == 11:        # generic (untyped) comparison / arithmetic on mixed int / float operands
            self.features.add("generic-mixed-cmp")
            op = self.pick(["<", "<=", ">", ">=", "==", "!="])
            out.append(f"fn {name}(a, b) {{ return a {op} b }}")
            fl = self.r.sample(["2.0", "1.5", "0.0", "(-0.0)", "3.0", "(-2.0)", "2.5"], 3)
            it = self.r.sample(["2", "1", "0", "3", "(-2)"], 3)
            out.append(f"let {name}f = Vec[{', '.join(fl)}]")
            out.append(f"let {name}i = Vec[{', '.join(it)}]")
            out.append(f"for i in 0..3 {{ for j in 0..3 {{ print({name}({name}f[i], {name}i[j])); print({name}({name}i[j], {name}f[i])); print({name}({name}f[i], {name}f[j])); print({name}({name}i[i], {name}i[j])) }} }}")
            out.append('println("")')
        elif kind == 12:        # a closure that uses a shadowing local only as an index / callee argument
            self.features.add("capture-index-shadow")
            a, b = self.r.randrange(0, 3), self.r.randrange(0, 3)
            shape = self.r.randrange(3)
            out.append(f"fn {name}() {{")
            out.append("    let xs = [10, 20, 30]")
            out.append(f"    let k = {a}")
            if shape == 0:
                out.append(f"    let k = {b}")
                out.append("    let g = fn() { return xs[k] }")
            elif shape == 1:
                out.append("    let mut g = fn() { return 0 }")
                out.append(f"    if true {{ let k = {b}; let t = 1; g = fn() {{ return xs[k] }} }}")
            else:
                out.append(f"    let k = {b}")
                out.append("    let v = Vec[5, 6, 7]")
                out.append("    let g = fn() { v[k] = v[k] + 100; return v[k] + xs[k] }")
            out.append("    return g()")
            out.append("}")
            self.funcs[name] = ([], "int")
        elif kind == 10:        # a declaration alone in a constant-if block stays local to the block
            self.features.add("block-local-decl")
            k1, k2 = self.r.randrange(1, 50), self.r.randrange(50, 99)
            cond = self.pick(["true", "(1 < 2)", "true"])
            shape = self.r.randrange(3)
            if shape == 0:
                out.append(f"fn {name}() {{ return {k1} }}")
                out.append(f"if {cond} {{ fn {name}() {{ return {k2} }} }}")
                out.append(f"print({name}())")
            elif shape == 1:
                out.append(f"fn {name}() {{")
                out.append(f"    fn inner() {{ return {k1} }}")
                out.append(f"    if {cond} {{ fn inner() {{ return {k2} }} }}")
                out.append(f"    let w = {k1}")
                out.append(f"    if {cond} {{ let w = {k2} }}")
                out.append("    return inner() * 100 + w")
                out.append("}")
            else:
                out.append(f"fn {name}() {{")
                out.append(f"    let mut w = {k1}")
                out.append(f"    if false {{ w = 0 }} else {{ let w = {k2} }}")
                out.append(f"    if {cond} {{ let w = {k2}; print(w) }}")
                out.append("    return w")
                out.append("}")
            self.funcs[name] = ([], "int")
        elif kind == 9:         # a closure created in an inner block / loop shares an OUTER local
            self.features.add("closure-inner-block")
            shape = self.r.randrange(4)
            k1, k2 = self.r.randrange(1, 20), self.r.randrange(20, 90)
            out.append(f"fn {name}() {{")
            out.append(f"    let mut x = {k1}")
            if shape == 0:
                out.append("    let mut g = fn() { return 0 }")
                out.append(f"    if {self.pick(['true', 'x > 0', '(1 < 2)'])} {{")
                out.append("        g = fn() { x = x + 10; return x }")
                out.append("    }")
                out.append(f"    x = {k2}")
                out.append("    print(g())")
            elif shape == 1:
                out.append("    let fs = Vec[fn() { return 0 }]")
                out.append(f"    for i in 0..{self.r.randrange(1, 4)} {{")
                out.append("        let a = i * 100")
                out.append("        fs.push(fn() { x = x + 1; return x + a })")
                out.append("    }")
                out.append(f"    x = {k2}")
                out.append("    let mut t = 0")
                out.append("    for f in fs { t = t * 3 + f() }")
                out.append("    print(t)")
            elif shape == 2:
                out.append("    let mut g = fn() { return 0 }")
                out.append("    let mut i = 0")
                out.append("    while i < 2 {")
                out.append("        if i == 0 { g = fn() { x = x * 2; return x } }")
                out.append("        i = i + 1")
                out.append("    }")
                out.append(f"    x = {k2}")
                out.append("    print(g() + g())")
            else:
                out.append("    let mut g = fn() { return 0 }")
                out.append("    {")
                out.append("        let y = x + 1")
                out.append("        { g = fn() { x = x + y; return x } }")
                out.append("    }")
                out.append(f"    x = {k2}")
                out.append("    print(g())")
            out.append("    return x")
            out.append("}")
            self.funcs[name] = ([], "int")
        elif kind == 8:         # implicit result through if / else-if chains with constant arms
            self.features.add("tail-else-if")
            kc = lambda: self.pick(["true", "false", "(1 < 2)", "(2 < 1)", "c"])
            v = lambda: self.pick([str(self.r.randrange(0, 99)), '"s"', "c", "(if c { 1 } else { 2 })"])
            shape = self.r.randrange(5)
            if shape == 0:
                body = f"if c {{ {v()} }} else if {kc()} {{ {v()} }}"
            elif shape == 1:
                body = f"if c {{ {v()} }} else if {kc()} {{ {v()} }} else {{ {v()} }}"
            elif shape == 2:
                body = f"if {kc()} {{ if c {{ {v()} }} else if {kc()} {{ {v()} }} }} else {{ {v()} }}"
            elif shape == 3:
                body = f"if c {{ {v()} }} else {{ if {kc()} {{ {v()} }} }}"
            else:
                body = f"let t = {v()}; if {kc()} {{ {v()} }} else if c {{ t }} else if {kc()} {{ {v()} }} else {{ {v()} }}"
            out.append(f"fn {name}(c) {{ {body} }}")
            out.append(f"println({name}(true))")
            out.append(f"println({name}(false))")
        elif kind == 3:         # single-expression function over parameters (inliner bait)
            np_ = self.r.randrange(1, 4)
            ps = self.r.sample(["a", "b", "c", "x", "n"], np_)
            inner = Scope(None, True)
            for q in ps:
                inner.vars[q] = ("int", False)
            body = self.expr(inner, "int", 1)
            if self.chance(0.5):
                out.append(f"{deco}fn {name}({', '.join(ps)}) {{ return {body} }}")
            else:
                out.append(f"{deco}fn {name}({', '.join(ps)}) {{ {body} }}")
            self.funcs[name] = (["int"] * np_, "int")
            self.features.add("single-expr-fn")
        else:                   # general body with params (some mutable), shadowing, early returns
            np_ = self.r.randrange(0, 3)
            allv = sorted(sc.lookup_all())
            ps = []
            for _ in range(np_):
                if allv and self.chance(0.4):
                    q = self.pick(allv)         # parameter shadowing a global
                    self.features.add("param-shadow")
                else:
                    q = self.pick(["p", "q", "m", "z"])
                if q not in [x[0] for x in ps]:
                    ps.append((q, self.chance(0.4)))
            inner = Scope(sc, True)
            for q, m in ps:
                inner.vars[q] = ("int", m)
            hdr = ", ".join(("mut " if m else "") + q for q, m in ps)
            out.append(f"{deco}fn {name}({hdr}) {{")
            self.in_fn += 1
            for _ in range(self.r.randrange(1, 5)):
                out += self.stmt(inner, 1, ret="int")
            self.in_fn -= 1
            out.append(f"    return {self.expr(inner, 'int', 1)}")
            out.append("}")
            self.funcs[name] = (["int"] * len(ps), "int")
        return out

    def program(self):
        sc = Scope()
        n = self.r.randrange(3, self.o["max_stmts"])
        chunks = []
        for _ in range(n):
            if self.chance(0.22):
                chunks.append(self.function(sc))
            else:
                chunks.append(self.stmt(sc, 0))
        if self.chance(self.o.get("forward_refs", 0.15)):
            self.forward_refs(chunks)
        if self.chance(0.08):
            # the FIRST effectful statement of the program is a top-level `let` whose initialiser hides a
            # call (in a format string, an if-expression, an array literal, parentheses) of a function that
            # reads a top-level constant defined only later: at that moment the constant is still null
            self.features.add("early-call-in-initialiser")
            k = self.r.randrange(1000)
            g, rd = f"LIM{k}", f"early{k}"
            init = self.pick([f'"status {{{rd}()}}"', f"(if true {{ {rd}() }} else {{ 0 }})", f"[{rd}(), 1]", f"(({rd}()))", f"{rd}() + 1"])
            pre = [f"fn {rd}() {{\n    println({g})\n    if {g} == null {{ return 0 }}\n    return 1\n}}",
                   f"let b{k} = {init}", f"let {g} = {self.r.randrange(2, 9)}", f"println(b{k})", f"println({rd}())"]
            quiet = [c for c in chunks if c and all(l.startswith("fn ") and "\n" not in l and "print" not in l for l in c)]
            chunks = quiet + [[l] for l in pre] + [c for c in chunks if c not in quiet]
        out = [l for c in chunks for l in c]
        # final value
        if self.chance(0.7):
            out.append(self.expr(sc, self.pick(["int", "int", "str", "bool"])))
        return "\n".join(out)

    def forward_refs(self, chunks):
        """A top-level name read (directly, through a function or through a lambda) before and after
        the statement that defines it: before, the global is null.  Only printed, never operated on."""
        self.features.add("forward-ref")
        k = self.r.randrange(1000)
        g, rd = f"LATE{k}", f"rd{k}"
        lit = self.pick([self.int_lit(), '"s"', "true", "7", "1 + 2"])
        shape = self.r.randrange(4)
        if shape == 0:
            decl = [f"fn {rd}() {{ return {g} }}"]; use = f"println({rd}())"
        elif shape == 1:
            decl = [f"let {rd} = fn() {{ return {g} }}"]; use = f"println({rd}())"
        elif shape == 2:
            decl = [f'fn {rd}() {{ print("<{rd}>"); let t = {g}; return "v={{t}}" }}']; use = f"println({rd}())"
        else:
            decl = []; use = f'println("{{{g}}}")' if self.chance(0.5) else f"println({g})"
        pieces = ([decl] if decl else []) + [[use], [f"let {g} = {lit}"], [use]]
        if self.chance(0.3):
            pieces = ([decl] if decl else []) + [[f"let {g} = {lit}"], [use]]      # definition first: may be propagated
        # the reader either sits among the leading declarations or after the first effect
        pos = 0 if self.chance(0.5) else self.r.randrange(len(chunks) + 1)
        for pc in pieces:
            chunks.insert(pos, pc)
            pos = self.r.randrange(pos + 1, len(chunks) + 1)

    # 'small' parameter type: recursion depth
    def expr_small(self):
        return str(self.r.randrange(0, 6))


_orig_expr = Gen.expr


def _expr(self, sc, ty, d=0):
    if ty == "small":
        return self.expr_small()
    return _orig_expr(self, sc, ty, d)


Gen.expr = _expr


def generate(seed, count, opts=None):
    rng = random.Random(seed)
    progs, feats = [], []
    for _ in range(count):
        g = Gen(random.Random(rng.getrandbits(64)), opts)
        progs.append(g.program())
        feats.append(sorted(g.features))
    return progs, feats


if __name__ == "__main__":
    import sys
    ps, fs = generate(int(sys.argv[1]) if len(sys.argv) > 1 else 0, int(sys.argv[2]) if len(sys.argv) > 2 else 3)
    for p, f in zip(ps, fs):
        print(p)
        print("// features:", f)
        print("=====")
