"""Self-checking programs at the toolchain's size limits (expression depth, chain length, number
of locals / globals / arguments / constants, jump distances, literal sizes).  The expected output
is computed here, by construction, NOT from the front end's typed AST: the front end is under
test too (a depth limit that silently replaces a sub-expression by null is invisible to a model
that consumes the typed AST).  A program must either be rejected at compile time or print
exactly the expected text."""
import random

W = 1 << 48


def wrap(n):
    return (n + (W >> 1)) % W - (W >> 1)


def gen(seed, tier="quick"):
    r = random.Random(seed * 1000003 + 17)
    out = []

    def add(name, src, expect):
        out.append((name, src, expect))

    def around(*pivots):
        s = set()
        for p in pivots:
            s.update([p - 1, p, p + 1])
        return sorted(x for x in s if x > 1)

    # left-deep operator chains (the parser builds them iteratively: only later stages limit depth)
    for n in around(100, 128, 200, 256) + [r.randrange(130, 400), 1000]:
        ks = [r.randrange(1, 9) for _ in range(n)]
        add(f"sum-chain-{n}", "println(" + " + ".join(map(str, ks)) + ")", f"{sum(ks)}\n")
    for n in around(200, 256) + [r.randrange(100, 300)]:
        add(f"var-chain-{n}", "let x = 3\nprintln(" + " + ".join(["x"] * n) + ")", f"{3 * n}\n")
        add(f"str-chain-{n}", 'println(' + " + ".join(['"a"'] * n) + ")", "a" * n + "\n")
        add(f"and-chain-{n}", "let t = true\nprintln(" + " and ".join(["t"] * (n - 1) + ["false"]) + ")", "false\n")
        add(f"or-chain-{n}", "let f = false\nprintln(" + " or ".join(["f"] * (n - 1) + ["true"]) + ")", "true\n")
        ks = [r.randrange(1, 4) for _ in range(n)]
        v = 0
        for k in ks:
            v = wrap(v * 1 + k) if True else v
        add(f"sub-chain-{n}", "println(1000000 - " + " - ".join(map(str, ks)) + ")", f"{1000000 - sum(ks)}\n")
    # right-nested parentheses / unary chains / nested if-expressions / blocks
    for d in around(50, 100, 200) + [r.randrange(20, 90)]:
        add(f"paren-nest-{d}", "println(" + "(1 + " * d + "1" + ")" * d + ")", f"{d + 1}\n")
        add(f"neg-chain-{d}", "let x = 5\nprintln(" + "-" * d + "x)", f"{5 if d % 2 == 0 else -5}\n")
        add(f"ifexpr-nest-{d}", "let c = true\nprintln(" + "if c { " * d + "7" + " } else { 0 }" * d + ")", "7\n")
        add(f"block-nest-{d}", "let mut t = 0\n" + "if true { " * d + "t = t + 1" + " }" * d + "\nprintln(t)", "1\n")
        add(f"call-nest-{d}", "fn id(x) { return x + 1 }\nprintln(" + "id(" * d + "0" + ")" * d + ")", f"{d}\n")
    # many locals in one function (register file), many parameters / arguments, many globals
    for n in around(128, 250, 255, 256) + [300, r.randrange(100, 240)]:
        body = "\n".join(f"    let v{i} = {i}" for i in range(n))
        use = " + ".join(f"v{i}" for i in (0, n // 2, n - 1))
        add(f"locals-{n}", f"fn f() {{\n{body}\n    return {use}\n}}\nprintln(f())", f"{0 + n // 2 + n - 1}\n")
    for n in around(16, 64, 250, 255) + [r.randrange(20, 200)]:
        ps = ", ".join(f"p{i}" for i in range(n))
        args = ", ".join(str(i) for i in range(n))
        add(f"params-{n}", f"fn f({ps}) {{ return p0 + p{n - 1} + p{n // 2} }}\nprintln(f({args}))", f"{0 + n - 1 + n // 2}\n")
    for n in [300, r.randrange(257, 600)] + ([70000] if tier == "thorough" else []):
        src = "\n".join(f"let g{i} = {i}" for i in range(n)) + f"\nfn rd() {{ return g0 + g{n - 1} + g{n // 2} }}\nprintln(rd())"
        add(f"globals-{n}", src, f"{0 + n - 1 + n // 2}\n")
    # an interpolated string after n globals (the index of __tostring in CallGlobal is one byte)
    for n in around(250, 256) + [300, r.randrange(257, 500)]:
        src = "\n".join(f"let g{i} = {i}" for i in range(n)) + f'\nlet x = {n}\nprintln("hi {{x}} {{g{n // 2}}}")'
        add(f"globals-then-fmt-{n}", src, f"hi {n} {n // 2}\n")
    # many distinct constants in one function, long straight-line bodies and long jumps
    for n in around(256) + [1000, r.randrange(300, 900)] + ([70000] if tier == "thorough" else []):
        ks = [1000003 * (i + 1) % 99991 + 100000 for i in range(n)]
        src = "fn f() {\n    let mut t = 0\n" + "\n".join(f"    t = t + {k}" for k in ks) + "\n    return t\n}\nprintln(f())"
        add(f"consts-{n}", src, f"{wrap(sum(ks))}\n")
    # a capturing nested function / lambda whose pool index follows n constants (MakeClosure's
    # index is one byte), and a non-capturing one (LoadK, two bytes)
    for n in around(254, 256) + [300, r.randrange(100, 250)]:
        ks = [1000003 * (i + 1) % 99991 + 100000 for i in range(n)]
        adds = "\n".join(f"    t = t + {k}" for k in ks)
        for kind, decl in (("closure-fn", "    fn inner() { c = c + 1; return c }"),
                           ("closure-lambda", "    let inner = fn() { c = c + 1; return c }"),
                           ("plain-fn", "    fn inner() { return 1 }")):
            src = f"fn outer() {{\n    let mut t = 0\n{adds}\n    let mut c = 0\n{decl}\n    return inner() + inner() + t + c\n}}\nprintln(outer())"
            exp = wrap(sum(ks)) + (1 + 2 + 2 if kind != "plain-fn" else 2)
            add(f"consts-then-{kind}-{n}", src, f"{wrap(exp)}\n")
    sizes = [2000, 9000, r.randrange(3000, 8000)] + ([40000] if tier == "thorough" else [])
    for n in sizes:
        body = "\n".join("    t = t + 1" for _ in range(n))
        fams = [("long-loop-body", f"let mut t = 0\nfor i in 0..3 {{\n{body}\n}}\nprintln(t)", f"{3 * n}\n"),
                ("long-while-body", f"let mut t = 0\nlet mut i = 0\nwhile i < 2 {{\n{body}\n    i = i + 1\n}}\nprintln(t)", f"{2 * n}\n"),
                ("long-if-body", f"let mut t = 0\nlet c = t == 0\nif c {{\n{body}\n}} else {{\n{body}\n    t = t + 5\n}}\nprintln(t)", f"{n}\n"),
                ("long-fn-skip", f"let mut t = 0\nfn big() {{\n{body}\n    return t\n}}\nprintln(1)\nprintln(big())", f"1\n{n}\n")]
        if tier == "quick":
            # one family per size in the quick tier (rotating with the seed); all of them in thorough
            fams = [fams[(seed + sizes.index(n)) % len(fams)], fams[(seed + sizes.index(n) + 2) % len(fams)]] if n == 9000 else [fams[(seed + sizes.index(n)) % len(fams)]]
        for nm, src, exp in fams:
            add(f"{nm}-{n}", src, exp)
    # big literals: arrays / vecs, strings, interpolation with many holes
    for n in around(256) + [1000, 5000]:
        els = [r.randrange(0, 100) for _ in range(n)]
        add(f"array-lit-{n}", "let a = [" + ", ".join(map(str, els)) + "]\nlet mut s = 0\nfor x in a { s = s + x }\nprintln(s)\nprintln(a.len())", f"{sum(els)}\n{n}\n")
        add(f"vec-lit-{n}", "let a = Vec[" + ", ".join(map(str, els)) + "]\nlet mut s = 0\nfor x in a { s = s + x }\nprintln(s)", f"{sum(els)}\n")
    for n in [255, 256, 65535, 65536, 70000]:
        add(f"string-lit-{n}", 'let s = "' + "b" * n + '"\nprintln(s.len())', f"{n}\n")
    for n in around(64, 256):
        add(f"fmt-holes-{n}", "let x = 1\nprintln(\"" + "{x}" * n + "\")", "1" * n + "\n")
    # many functions / many closures
    for n in [300, r.randrange(257, 500)]:
        src = "\n".join(f"fn f{i}() {{ return {i} }}" for i in range(n)) + f"\nprintln(f0() + f{n - 1}() + f{n // 2}())"
        add(f"functions-{n}", src, f"{0 + n - 1 + n // 2}\n")
        caps = "\n".join(f"    let c{i} = {i}" for i in range(min(n, 200)))
        m = min(n, 200)
        add(f"captures-{m}", f"fn mk() {{\n{caps}\n    return fn() {{ return " + " + ".join(f"c{i}" for i in range(m)) + " }\n}\nprintln(mk()())", f"{m * (m - 1) // 2}\n")
    return out


if __name__ == "__main__":
    import sys
    for name, src, exp in gen(int(sys.argv[1]) if len(sys.argv) > 1 else 0):
        print(name, len(src), repr(exp[:30]))
