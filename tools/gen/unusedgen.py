"""Programs aimed at opt/src/passes/unused_vars: `let`s that are never read, with an initializer of
every expression kind the side-effect gate distinguishes, in every position the pass treats
differently (top level / block / function body / loop body / branch; last or not last in the
block; named like a parameter, a loop variable, a name read only inside a lambda or only
assigned; shadowing a read name).  Every program prints, so behaviour is observable."""
import random

PURE = ["1", "-7", "true", "null", '"s"', "k0", "k0 + 1", "k0 * (2 - k0)", "-k0", "not true", "k0 < 3 and true",
        "1 / 0", "k0 % 0", "[1, 2, k0]", "Vec[k0, 5]", "[1, 2, 3][1]", "[1, 2, 3][7]", "fn(q) { return q + k0 }",
        'if k0 > 1 { 10 } else { 20 }', '"a{k0}b"', "(k0 + 2) << 3", "arr0[0]", "arr0[9]"]
EFFECT = ["bump()", "bump() + 1", "[bump(), 2]", "Vec[1, bump()]", '"x{bump()}y"', "if bump() > 0 { 1 } else { 2 }",
          "(m0 = m0 + 1)", "-bump()", "bump() > 0 and true", "true or bump() > 0", "arr0[bump() % 3]",
          "say(\"e\")", "k0 + (m0 = 5)", "fn(q) { return bump() }(1)", "(arr0[1] = 9)", "(arr0[k0 - 3] = m0)", "[1, (arr0[2] = 8)]",
          "arr0[(arr0[0] = 1)]"]


# one read of NAME in every syntactic position the read-set analysis has to visit; NAME is read nowhere else
USE_AT = [
    ("stmt-expr", "{ind}println({x})"),
    ("binary-operand", "{ind}println(1 + {x})"),
    ("unary-operand", "{ind}println(-{x})"),
    ("and-or", "{ind}println({x} > 0 and true or false)"),
    ("call-arg", "{ind}say({x})"),
    ("assign-value", "{ind}m0 = {x}"),
    ("if-expr-cond", "{ind}println(if {x} > 0 {{ 1 }} else {{ 2 }})"),
    ("if-expr-branch", "{ind}println(if k0 > 0 {{ {x} }} else {{ 2 }})"),
    ("if-stmt-cond", "{ind}if {x} > 100 {{ println(1) }}"),
    ("while-cond", "{ind}while {x} > 100 {{ println(1) }}"),
    ("for-start", "{ind}for q in {x}..3 {{ print(q) }}"),
    ("for-end", "{ind}for q in 0..{x} {{ print(q) }}"),
    ("for-step", "{ind}for q in 0..6 step {x} {{ print(q) }}"),
    ("foreach-iterable-elem", "{ind}for q in [{x}, 2] {{ print(q) }}"),
    ("let-init", "{ind}let zz{x} = {x} + 1\n{ind}println(zz{x})"),
    ("return", "{ind}let rr{x} = fn() {{ return {x} }}\n{ind}println(rr{x}())"),
    ("lambda-body", "{ind}let ll{x} = fn(a) {{ let t = a + {x}; return t }}\n{ind}println(ll{x}(1))"),
    ("array-elem", "{ind}println([1, {x}][1])"),
    ("vec-elem", "{ind}println(Vec[{x}][0])"),
    ("index-index", "{ind}println(arr0[{x} % 3])"),
    ("index-assign-index", "{ind}arr0[{x} % 3] = 1"),
    ("index-assign-value", "{ind}arr0[0] = {x}"),
    ("fmt-part", "{ind}println(\"v={{{x}}}\")"),
    ("block-nested", "{ind}{{\n{ind}    {{ println({x}) }}\n{ind}}}"),
    ("loop-body", "{ind}for q in 0..1 {{ println({x} + q) }}"),
    ("member-callee-arg", "{ind}println(\"ab\".len() + {x})"),
]


def init(r):
    return r.choice(PURE) if r.random() < 0.6 else r.choice(EFFECT)


def gen_one(r, feats):
    lines = ["let k0 = 3", "let mut m0 = 0", "let arr0 = [4, 5, 6]",
             "fn bump() { m0 = m0 + 1; print(\"<b\"); print(m0); print(\">\"); return m0 }",
             "fn say(s) { println(s); return 1 }"]
    n = 0

    def fresh():
        nonlocal n
        n += 1
        return f"u{n}"

    def unused_let(ind, names=None):
        x = r.choice(names) if names and r.random() < 0.35 else fresh()
        e = init(r)
        feats.add("init:" + ("effect" if e in EFFECT else "pure"))
        mut = "mut " if r.random() < 0.2 else ""
        return f"{ind}let {mut}{x} = {e}"

    def body(ind, depth, names):
        out = []
        for _ in range(r.randint(1, 4)):
            c = r.random()
            if c < 0.40:
                out.append(unused_let(ind, names))
            elif c < 0.48:
                x = fresh()
                out.append(f"{ind}let {x} = {r.choice(PURE)}")
                out.append(f"{ind}println({x})")
                feats.add("read-let")
            elif c < 0.60:
                # a `let` whose ONLY read sits in one particular syntactic position
                x = fresh()
                pos, tmpl = r.choice(USE_AT)
                # mostly initializers the constant propagators cannot turn into a literal (else the read disappears before this pass runs)
                out.append(f"{ind}let {x} = {r.choice(['2', 'k0 + 1', 'm0 + 2', 'm0 + 2', 'arr0[0] - 2', 'm0 * 0 + 3'])}")
                out.append(tmpl.format(ind=ind, x=x))
                feats.add("only-read-at:" + pos)
            elif c < 0.63:
                x = fresh()
                out.append(f"{ind}let {x} = {init(r)}")
                out.append(f"{ind}let g{x} = fn() {{ return {x} }}")
                out.append(f"{ind}println(g{x}())")
                feats.add("read-in-lambda")
            elif c < 0.70:
                x = fresh()
                out.append(f"{ind}let mut {x} = {r.choice(PURE[:6])}")
                out.append(f"{ind}{x} = 8")
                feats.add("assigned-only")
            elif c < 0.80 and depth < 2:
                out.append(f"{ind}if k0 > {r.randint(0, 5)} {{")
                out += body(ind + "    ", depth + 1, names)
                if r.random() < 0.5:
                    out.append(f"{ind}}} else {{")
                    out += body(ind + "    ", depth + 1, names)
                out.append(f"{ind}}}")
                feats.add("branch")
            elif c < 0.88 and depth < 2:
                v = r.choice(["i", "j"] + (names or []))
                out.append(f"{ind}for {v} in 0..{r.randint(1, 3)} {{")
                out += body(ind + "    ", depth + 1, (names or []) + [v])
                out.append(f"{ind}}}")
                feats.add("loop")
            elif c < 0.94 and depth < 2:
                out.append(f"{ind}{{")
                out += body(ind + "    ", depth + 1, names)
                out.append(f"{ind}}}")
                feats.add("block")
            else:
                out.append(f"{ind}println({r.choice(['k0', 'm0', '1'])})")
        if r.random() < 0.35:
            out.append(unused_let(ind, names))      # a `let` in LAST position: must stay
            feats.add("last-let")
        return out

    for _ in range(r.randint(1, 3)):
        c = r.random()
        if c < 0.5:
            f = f"f{r.randint(0, 9)}{n}"
            ps = r.sample(["a", "b", "c"], r.randint(0, 2))
            lines.append(f"fn {f}({', '.join(ps)}) {{")
            lines += body("    ", 0, ps)
            if r.random() < 0.6:
                lines.append(f"    return {r.choice(ps + ['k0', 'm0'])}")
            lines.append("}")
            lines.append(f"println({f}({', '.join(str(r.randint(0, 4)) for _ in ps)}))")
            feats.add("function")
        else:
            lines += body("", 0, None)
            feats.add("toplevel")
    lines.append("println(m0)")
    if r.random() < 0.3:
        lines.append(unused_let("", None))
    return "\n".join(lines)


def generate(seed, count):
    rng = random.Random(seed)
    progs, feats = [], []
    for _ in range(count):
        f = set()
        progs.append(gen_one(random.Random(rng.getrandbits(64)), f))
        feats.append(sorted(f))
    return progs, feats


if __name__ == "__main__":
    import sys
    for p in generate(int(sys.argv[1]) if len(sys.argv) > 1 else 0, 3)[0]:
        print(p)
        print("=====")
