"""C19 -- Modules initialise once, cycles are reported, only pub names leak.
Proof over the loader's bookkeeping (Props/C19.v, Model/Modules.v) + contract tie on traces, error
kinds and per-(importer, spelling) probes (hx_modules) + a model-independent oracle that resolves the
generated directory tree the way the language documents it and checks the implementation's own
outputs.  Since the repairs of KF-C19-1/-2/-4/-5/-6/-7 only failures caused by the single VM
namespace (open findings KF-C19-3, KF-C19-8) are classified; anything else is a violation."""
import collections, glob, os, shutil
import vlib

TRUSTED = [
    "Coq 8.16.1 kernel + vm_compute (refutation witnesses and the evaluation of the model on every tie case; no native_compute)",
    "tools/extractors/c19.py regenerates Extracted/ModulesTables.v on every run from patterns.rs (script search patterns and "
    "their order), exports.rs (is_pub guards of collect_exports, alias / selected-symbol guards of register_exports), load.rs "
    "(the same guards in the memo path, order std < resolve < key < cycle/memo < push < pop), needs.rs and compile.rs (what "
    "each import form adds to known_globals) and asserts the remaining order/guard shapes of compile_module and resolution.rs",
    "Model/Modules.v is a hand model of load_module/compile_module/collect_exports/register_exports/get_load_result/"
    "get_module_alias/resolve_path_with_fallback/search_with_patterns(.aelys, mod.aelys)/load_modules_for_program: "
    "paths, names and aliases are numbers, HashMap/HashSet are association lists; it is tied by hx_modules on every run "
    "(equality of error kind, init trace and every probe's values)",
    "not modelled: native modules, the manifest, base_root containment (no symlinks in generated trees), std modules beyond "
    "'short-circuited, alias form', type inference/optimisation of module bodies (every generated body is a tag print, "
    "constant functions and string lets; private lets are kept alive by a private reader function)",
    "VM.globals is modelled as one name->definition map written by sync_globals_to_hashmap after a body ran and by "
    "register_exports; reads are modelled only for top-level code of the importer (what the probes do), not for "
    "function bodies (globals_by_index caches)",
    "the oracle's reference semantics (resolution relative to the importing file's directory, then the entry file's "
    "directory, p.aelys before p/mod.aelys, a module = the file it resolves to, `needs a.b.s` = symbol s of a.b when a/b/s "
    "does not exist, grants per import form as in docs/language-spec.md) "
    "is a Python transcription of the documentation, independent of the Coq model",
    "the theorems are about Model/Modules.v; they carry over to the Rust loader only as far as the tie explores",
]

IMPORTS = "From Aelys Require Import Model.Modules Model.ModulesObs.\nLocal Open Scope N_scope."
CODES = {0: "ok", 1: "circular", 2: "module-not-found", 3: "symbol-not-found", 4: "symbol-conflict", 5: "compile-error",
         6: "runtime-error", 9: "other-error", 10: "panic"}


# ------------------------------------------------------------------------------------------ tree text
def parse_tree(text):
    t = {"label": "", "entry": None, "files": collections.OrderedDict(), "probes": [], "links": [], "hints": {},
         "inputs": [], "sprobes": [], "opt": 2}
    cur = None
    for item in text.split(";"):
        w = item.split()
        if not w:
            continue
        if w[0] == "label":
            t["label"] = w[1] if len(w) > 1 else ""
        elif w[0] == "entry":
            t["entry"] = w[1]
        elif w[0] == "file":
            cur = {"imports": [], "defs": [], "fault": 0}
            t["files"][w[1]] = cur
        elif w[0] == "fault":
            cur["fault"] = int(w[1])
        elif w[0] == "import":
            path = w[2].split(".")
            extra = None
            if w[1] == "alias":
                extra = w[3]
            elif w[1] == "symbols":
                extra = w[3].split(",")
            cur["imports"].append({"form": w[1], "path": path, "extra": extra})
        elif w[0] == "def":
            cur["defs"].append((w[2], w[1] == "pub"))
        elif w[0] == "input":
            cur = {"imports": [], "defs": [], "fault": 0}
            t["inputs"].append(cur)
        elif w[0] == "opt":
            t["opt"] = int(w[1])
        elif w[0] == "sprobe":
            t["sprobes"].append((int(w[1]), ("bare", w[3]) if w[2] == "bare" else ("qual", w[3], w[4])))
        elif w[0] == "link":
            t["links"].append((w[1].split("/"), w[2].split("/")))
        elif w[0] == "hint":
            t["hints"][w[1]] = w[2]
        elif w[0] == "probe":
            t["probes"].append((w[1], ("bare", w[3]) if w[2] == "bare" else ("qual", w[3], w[4])))
    return t


def parse_raw(raw):
    d = dict(kv.split("=", 1) for kv in raw.split(";") if "=" in kv)
    code = int(d["code"])
    trace = [x for x in d["trace"].split(",") if x]
    probes = [[v for v in p.split("|") if v] for p in d["probes"].split(",")]
    return code, trace, probes, d.get("detail", "")


def parse_readback(raw):
    """reads=<file>:<fn>=<value>,...  write=<code>/<reads after the write>  ('' when the tree has no read-back functions)"""
    d = dict(kv.split("=", 1) for kv in raw.split(";") if "=" in kv)

    def rd(txt):
        out = []
        for item in txt.split(","):
            if item:
                who, _, val = item.partition("=")
                f, _, fn = who.rpartition(":")
                out.append((f, fn, val))
        return out
    w = d.get("write", "")
    write = None
    if w:
        c, _, rest = w.partition("/")
        write = (int(c), rd(rest))
    return rd(d.get("reads", "")), write


def num(name):
    return int(name[1:]) if name[1:].isdigit() else -1


def own_let(t, f):
    for n, _ in t["files"][f]["defs"]:
        if 0 <= num(n) < 400 and num(n) % 2 == 1:
            return n
    return None


def readback_oracle(t, a, code, reads, write):
    """"importers observe the values it produced": a module's own function returns the module's own top-level variable
    (n500+2i reads the private `zs` every module has, n600+2i the module's first own let); the entry cannot assign to a
    name it neither declares nor imports."""
    out = []
    entry = t["files"][t["entry"]]
    expected = []
    zs_modules = [f for f in a["reach"] if any(500 <= num(n) < 600 for n, _ in t["files"][f]["defs"])]
    for imp in entry["imports"]:
        f = "/".join(imp["path"])
        if imp["form"] in ("module", "alias") and f in t["files"] and not t["files"][f].get("fault"):
            for n, is_pub in t["files"][f]["defs"]:
                if num(n) >= 500 and is_pub:
                    expected.append((f, n, "S:" + f if num(n) < 600 else "V:%s:%s" % (f, own_let(t, f))))
    if not any(500 <= num(n) < 600 for fo in t["files"].values() for n, _ in fo["defs"]):
        return out
    if code == 0:
        if [(f, n) for f, n, _ in reads] != [(f, n) for f, n, _ in expected]:
            out.append(("readback-missing", f"the entry called {[(f, n) for f, n, _ in expected]}, observed {[(f, n) for f, n, _ in reads]}"))
        else:
            for (f, n, got), (_, _, want) in zip(reads, expected):
                if got != want:
                    what = f"{f}'s own function {n} returns {got}: the module's top-level variable holds another module's value (expected {want})"
                    shared = (len(zs_modules) > 1) if num(n) < 600 else (own_let(t, f) in a["shared_names"])
                    out.append(("ns:own-global-overwritten" if shared else "wrong-value", what))
        if write is not None:
            wcode, after = write
            if wcode == 0:
                hit = [(f, n, v) for f, n, v in after if v == "W"]
                out.append(("write-to-undeclared-name",
                            "the entry assigns `zs = \"W\"` although it neither declares nor imports zs: accepted"
                            + (f"; afterwards {hit[0][0]}'s own function {hit[0][1]} returns W (the module's private variable was overwritten)" if hit else "")))
            elif wcode != 5:
                out.append(("unexpected-outcome", f"assignment to an undeclared name: outcome {CODES.get(wcode, wcode)}, expected compile-error"))
    return out


# ------------------------------------------------------------------------------------------ reference semantics
def pubs(t, f):
    return [n for n, p in t["files"][f]["defs"] if p]


def canon(t, comps):
    """physical path: symlinks replaced left to right (a link is a file's or a directory's path)"""
    for _ in range(8):
        for src, tgt in t["links"]:
            if comps[:len(src)] == src:
                comps = tgt + comps[len(src):]
                break
        else:
            return comps
    return comps


def lookup_file(t, rootdir, comps):
    """-> ('found', file) | 'stop' (exists but outside rootdir) | 'missing'"""
    c = canon(t, comps)
    f = "/".join(c)
    if f in t["files"]:
        return ("found", f) if c[:len(rootdir)] == rootdir else "stop"
    return "missing"


def resolve_in(t, base, path):
    r = lookup_file(t, base, base + path)
    if r == "missing":
        r = lookup_file(t, base, base + path + ["mod"])
    return r


def is_dir(t, comps):
    return any(f.split("/")[:len(comps)] == comps and len(f.split("/")) > len(comps) for f in t["files"])


def follow(t, base, explicit):
    """base.join(explicit): '..' is the physical parent, '.' nothing, symlinks followed"""
    cur = list(base)
    parts = explicit.split("/")
    for k, part in enumerate(parts):
        last = k == len(parts) - 1
        if part == ".":
            if last:
                return None
        elif part == "..":
            if last or not cur:
                return None
            cur = cur[:-1]
        else:
            name = part[:-6] if part.endswith(".aelys") else part
            cur = canon(t, cur + [name])
            if not last and not is_dir(t, cur):
                return None
    return cur


def resolve_how(t, base, path):
    """-> (file or None, set of features of the resolution) -- see resolve()"""
    how = set()
    root = t["entry"].split("/")[:-1]

    def found(c, f, tag):
        how.add(tag)
        if canon(t, c) != c:
            how.add("through-symlink")
        if f.endswith("/mod") or f == "mod":
            how.add("mod.aelys")
        return f

    ex = t["hints"].get(".".join(path))
    if ex is not None:
        c = follow(t, base, ex)
        if c is not None:
            f = "/".join(c)
            if f in t["files"]:
                if c[:len(base)] == base:
                    how.add("manifest-path")
                    if ".." in ex.split("/") or "." in ex.split("/"):
                        how.add("manifest-path-with-dots")
                    return f, how
                how.add("rejected-outside-root")
                return None, how
        how.add("manifest-path-missing-falls-back-to-search")
    for d, tag in ((base, "next-to-importer"), (root, "next-to-entry")):
        if tag == "next-to-entry" and base == root:
            break
        for cand in (d + path, d + path + ["mod"]):
            r = lookup_file(t, d, cand)
            if isinstance(r, tuple):
                return found(cand, r[1], tag), how
            if r == "stop":
                how.add("rejected-outside-root")
                break
    how.add("unresolved")
    return None, how


def resolve(t, base, path):
    """the manifest's explicit path for this name if that file exists; else next to the importing
    file, then next to the entry file; always the physical file, which must lie below the
    directory it was looked up from"""
    return resolve_how(t, base, path)[0]


def resolve_import(t, importer, imp):
    """-> (target file or None, key it is registered under, symbol taken from the path or None)"""
    base = importer.split("/")[:-1]
    path = imp["path"]
    r = resolve(t, base, path)
    if r is not None:
        return r, ".".join(path), None
    if len(path) > 1:
        r = resolve(t, base, path[:-1])
        if r is not None:
            return r, ".".join(path[:-1]), path[-1]
    return None, ".".join(path), None


def is_std(imp):
    return imp["path"][0] == "std"


def analyse(t):
    """Reference view of the tree: reachable files, edges, cycles, defects."""
    entry = t["entry"]
    a = {"reach": [], "edges": {}, "defects": set(), "possible": set(), "features": collections.Counter()}
    seen, todo = {entry}, [entry]
    while todo:
        f = todo.pop(0)
        a["reach"].append(f)
        a["edges"][f] = []
        for imp in t["files"][f]["imports"]:
            if is_std(imp):
                continue
            tgt, key, sym = resolve_import(t, f, imp)
            base_f = f.split("/")[:-1]
            _, how = resolve_how(t, base_f, imp["path"] if sym is None else imp["path"][:-1])
            for h in how:
                a["features"][h] += 1
            a["features"]["form:" + ("path-symbol" if sym is not None else imp["form"])] += 1
            if tgt is None:
                a["defects"].add(2)
                continue
            if tgt in seen:
                a["features"]["import of an already loaded file (memo or cycle)"] += 1
            a["edges"][f].append(tgt)
            want = []
            if imp["form"] == "symbols" and sym is None:
                want = imp["extra"]
            if sym is not None:
                want = [sym]
            if any(s not in pubs(t, tgt) for s in want):
                a["defects"].add(3)
            if t["files"][tgt].get("fault") == 1:
                a["defects"].add(5)       # its body does not compile
            elif t["files"][tgt].get("fault") == 2:
                a["defects"].add(6)       # its top level raises
            if tgt not in seen:
                seen.add(tgt)
                todo.append(tgt)
    col = {}

    def dfs(f):
        col[f] = 1
        for g in a["edges"].get(f, []):
            if col.get(g) == 1:
                return True
            if g not in col and dfs(g):
                return True
        col[f] = 2
        return False
    a["cycle"] = dfs(entry)
    if a["cycle"]:
        a["defects"].add(1)
    # entry conflicts: a whole-module import whose pub names were already granted bare
    origins, weak = set(), set()
    for imp in t["files"][entry]["imports"]:
        if is_std(imp):
            continue
        tgt, key, sym = resolve_import(t, entry, imp)
        if tgt is None:
            continue
        if sym is not None:
            weak.add(sym)
            continue
        p = set(pubs(t, tgt))
        if imp["form"] == "module":
            if p & origins:
                a["defects"].add(4)
            elif p & weak:
                a["possible"].add(4)
            origins |= p
        elif imp["form"] == "wildcard":
            origins |= p
        elif imp["form"] == "symbols":
            origins |= set(imp["extra"])
    # names defined at top level by two reachable files (the one VM namespace: KF-C19-3)
    cnt = collections.Counter()
    for f in a["reach"]:
        for n in {n for n, _ in t["files"][f]["defs"]}:
            cnt[n] += 1
    a["shared_names"] = {n for n, c in cnt.items() if c > 1}
    return a


def grants(t, f):
    """spelling -> set of (file, name) the documented semantics lets file f use."""
    g = collections.defaultdict(set)
    for n, _ in t["files"][f]["defs"]:
        g[("bare", n)].add((f, n))
    for imp in t["files"][f]["imports"]:
        if is_std(imp):
            continue
        tgt, key, sym = resolve_import(t, f, imp)
        if tgt is None:
            continue
        p = pubs(t, tgt)
        if sym is not None:
            if sym in p:
                g[("bare", sym)].add((tgt, sym))
            continue
        last = imp["path"][-1]
        if imp["form"] == "module":
            for n in p:
                g[("qual", last, n)].add((tgt, n))
                g[("bare", n)].add((tgt, n))
        elif imp["form"] == "alias":
            for n in p:
                g[("qual", imp["extra"], n)].add((tgt, n))
        elif imp["form"] == "symbols":
            for s in imp["extra"]:
                if s in p:
                    g[("bare", s)].add((tgt, s))
        elif imp["form"] == "wildcard":
            for n in p:
                g[("bare", n)].add((tgt, n))
    return g


def oracle(t, code, trace, probes):
    """Model-independent check of one tree's observations.  Returns a list of (signature, what)
    for every failure.  Only the two open root causes (one VM namespace) are attributed; every
    other failure keeps a generic signature and is a violation."""
    a = analyse(t)
    out = []

    def fail(sig, what):
        out.append((sig, what))

    # O1 at most once, always
    for f, c in collections.Counter(trace).items():
        if c > 1:
            fail("double-init", f"{f} initialised {c} times")
    for f in trace:
        if f not in a["reach"]:
            fail("init-of-unreachable", f"{f} ran but is not reachable from the entry")
    # O3/O4 outcome
    allowed = set(a["defects"]) | set(a["possible"])
    if not a["defects"]:
        allowed.add(0)
    if code not in allowed:
        if code == 0 and a["cycle"]:
            fail("cycle-not-reported", "a reachable import cycle ran to completion")
        elif code in (9, 10):
            fail("unexpected-error", f"outcome {CODES.get(code, code)}")
        else:
            fail("unexpected-outcome", f"outcome {CODES.get(code, code)} but the tree only allows {sorted(CODES[c] for c in allowed)}")
    # O2 exactly once, post-order
    if code == 0:
        for f in a["reach"]:
            if f not in trace:
                fail("missing-init", f"{f} is reachable but its top level never ran")
        pos = {f: i for i, f in enumerate(trace)}
        for f in a["reach"]:
            for g in a["edges"][f]:
                if f in pos and g in pos and pos[g] > pos[f]:
                    fail("order", f"{f} ran before its dependency {g}")
        if trace and trace[-1] != t["entry"]:
            fail("order", "the entry did not run last")
    # O5 names
    qual_binds = collections.defaultdict(set)      # (qualifier, name) -> {(importer, definition)}
    for f0 in a["reach"]:
        for sp0, defs0 in grants(t, f0).items():
            if sp0[0] == "qual":
                for d0 in defs0:
                    qual_binds[(sp0[1], sp0[2])].add((f0, d0))
    if code == 0:
        for (f, sp), vals in zip(t["probes"], probes):
            if trace.count(f) != 1:
                continue
            g = grants(t, f)
            want = g.get(sp, set())
            if len(want) > 1:
                continue        # two imports grant the same spelling: the documentation does not say which wins
            n = sp[-1]
            got = [tuple(v.rsplit(":", 1)) for v in vals]
            exp = list(want)
            if got == exp:
                continue
            spell = n if sp[0] == "bare" else f"{sp[1]}.{n}"
            if got and not exp:
                what = f"{f} can use `{spell}` = {got[0][0]}:{got[0][1]} although no import grants it"
                if sp[0] == "qual" and any(f0 != f and d0 == got[0] for f0, d0 in qual_binds.get((sp[1], n), ())):
                    fail("ns:qualifier-shared-between-importers", what + f" (another importer bound {sp[1]}::{n}; qualified globals are process-wide)")
                elif n in a["shared_names"]:
                    fail("ns:same-global-name", what + f" ({n} is a top-level name of two modules)")
                else:
                    fail("leak", what)
            elif exp and not got:
                what = f"{f} cannot use `{spell}` although its import grants {exp[0][0]}:{exp[0][1]}"
                if n in a["shared_names"]:
                    fail("ns:same-global-name", what)
                else:
                    fail("grant-missing", what)
            else:
                what = f"{f} reads `{spell}` = {got[0][0]}:{got[0][1]}, its import grants {exp[0][0]}:{exp[0][1]}"
                if n in a["shared_names"]:
                    fail("ns:same-global-name", what)
                elif sp[0] == "qual" and any(f0 != f and d0 == got[0] for f0, d0 in qual_binds.get((sp[1], n), ())):
                    fail("ns:qualifier-shared-between-importers", what)
                else:
                    fail("wrong-value", what)
    return out, a


def parse_sraw(raw):
    d = dict(kv.split("=", 1) for kv in raw.split(";") if "=" in kv)
    inputs = []
    for part in d["inputs"].split("#"):
        code, _, tags = part.partition(":")
        inputs.append((int(code), [x for x in tags.split(",") if x]))
    probes = [[v for v in p.split("|") if v] for p in d["probes"].split(",")]
    bumps = [[tuple(b.split("=", 1)) for b in part.split(",") if b] for part in d.get("bumps", "").split("#")]
    return inputs, probes, bumps


def session_oracle(t, inputs_obs, probes, bumps=None):
    """REPL session: inputs run one after the other on one VM, from the tree's root directory.
    Each module's top level runs TO COMPLETION at most once per session -- also when inputs in
    between fail (missing module, module that does not compile or raises, cycle, ...); a module whose
    top level raised is not initialised and may run again; names imported by earlier ACCEPTED inputs
    stay usable.  Modules may have a counter (a pub definition named n401+2i) advanced by their own pub
    function (n400+2i); each accepted input calls it through the qualifier it imported: the values count up through the session."""
    out = []
    counters = collections.Counter()
    stateful = True

    def fail(sig, what):
        out.append((sig, what))

    tt = dict(t)
    tt["files"] = collections.OrderedDict(t["files"])
    for k, inp in enumerate(t["inputs"]):
        tt["files"]["in%d" % k] = {"imports": inp["imports"], "defs": [], "fault": 0}
    rejected = {k for k, inp in enumerate(t["inputs"]) if inp.get("fault") == 1}
    raises = {f for f, m in t["files"].items() if m.get("fault") == 2}
    done, shared, accepted, reached, shared_at, reached_at = [], set(), [], set(), [], []
    for k, (code, tags) in enumerate(inputs_obs):
        me = "in%d" % k
        tt["entry"] = me
        a = analyse(tt)
        # the VM keeps every module's globals for the whole session: a name defined by two files that ANY inputs reached
        reached |= {f for f in a["reach"] if f in t["files"]}
        cnt = collections.Counter(n for f in reached for n in {n for n, _ in t["files"][f]["defs"]})
        shared |= {n for n, c_ in cnt.items() if c_ > 1}
        shared_at.append(set(shared))
        reached_at.append(set(reached))
        for f in tags:
            if f in done and f not in raises:
                fail("session-double-init", f"{f} initialised again by input {k} of the session (its top level had completed during an earlier input)")
        solid = [f for f in tags if f not in raises]
        if len(set(solid)) != len(solid):
            fail("double-init", f"input {k}: a top level ran twice: {tags}")
        allowed = set(a["defects"]) | set(a["possible"])
        if not a["defects"]:
            # the imports load; an input that does not compile afterwards is rejected and never runs
            allowed.add(5 if k in rejected else 0)
            if k in rejected and code == 5:
                for f in a["reach"]:
                    if f != me and f not in done and f not in tags:
                        fail("missing-init", f"input {k} (rejected after its imports loaded): {f} was never initialised in this session and did not run")
        if code not in allowed:
            if code == 0 and a["cycle"]:
                fail("cycle-not-reported", f"input {k}: a reachable import cycle ran to completion")
            else:
                fail("unexpected-outcome", f"input {k}: outcome {CODES.get(code, code)} but only {sorted(CODES[c] for c in allowed)} allowed")
        if code == 0:
            accepted.append(k)
            if stateful and bumps is not None:
                exp = []
                for imp in t["inputs"][k]["imports"]:
                    f = "/".join(imp["path"])
                    if imp["form"] in ("module", "alias") and f in t["files"] and not t["files"][f].get("fault") and any(
                            n[1:].isdigit() and 400 <= int(n[1:]) < 500 and int(n[1:]) % 2 == 0 for n, _ in t["files"][f]["defs"]):
                        counters[f] += 1
                        exp.append((f, str(counters[f])))
                got = bumps[k] if k < len(bumps) else []
                if got != exp:
                    low = any(g[0] == e[0] and g[1].isdigit() and int(g[1]) < int(e[1]) for g, e in zip(got, exp))
                    fail("session-state-reset" if low else "session-state-wrong",
                         f"input {k}: the modules' counters read {got}, the calls made in this session so far give {exp}")
            for f in a["reach"]:
                if f not in done and f not in tags:
                    fail("missing-init", f"input {k}: {f} is imported, was never initialised in this session, and did not run")
            pos = {f: i for i, f in enumerate(tags)}
            for f in a["reach"]:
                for g in a["edges"][f]:
                    if f in pos and g in pos and pos[g] > pos[f]:
                        fail("order", f"input {k}: {f} ran before its dependency {g}")
            if tags and tags[-1] != me:
                fail("order", f"input {k}: the input's own top level did not run last")
        elif me in tags:
            fail("order", f"input {k}: the input's top level ran although its imports failed")
        for f in tags:
            if f not in a["reach"]:
                fail("init-of-unreachable", f"input {k}: {f} ran but is not imported")
        done += [f for f in tags if f not in done and f not in raises]
    # names: the grants of all ACCEPTED inputs so far
    for (k, sp), vals in zip(t["sprobes"], probes):
        if k >= len(inputs_obs) or inputs_obs[k][0] != 0:
            continue
        want = set()
        for j in [j for j in accepted if j <= k]:
            want |= grants(tt, "in%d" % j).get(sp, set())
        if len(want) > 1:
            continue
        n = sp[-1]
        got = [tuple(v.rsplit(":", 1)) for v in vals]
        exp = list(want)
        if got == exp:
            continue
        spell = n if sp[0] == "bare" else f"{sp[1]}.{n}"
        what = f"input {k} reads `{spell}` = {got}, the imports of the session so far grant {exp}"
        if n in shared_at[k]:
            fail("ns:same-global-name", what)
        elif sp[0] == "qual" and got and any(
                got[0] in grants(tt, f0).get(sp, set())
                for f0 in list(reached_at[k]) + ["in%d" % j for j in range(k + 1)]):
            # some other importer (a module, or an input that was not accepted) bound this qualified global
            fail("ns:qualifier-shared-between-importers", what)
        elif got and not exp:
            fail("leak", what)
        elif exp and not got:
            fail("grant-missing", what)
        else:
            fail("wrong-value", what)
    return out


# ------------------------------------------------------------------------------------------ driver
def run_harness(ctx, path, args, prof):
    rc, out = vlib.sh([path] + args, timeout=900)
    leftovers = glob.glob(os.path.join(vlib.CACHE, "mod-*"))
    for d in leftovers:
        shutil.rmtree(d, ignore_errors=True)
    if rc != 0:
        ctx.violation("hx_modules-crash", "module harness crashed", {"profile": prof, "args": args, "output_tail": out[-2000:]})
        return None
    rows = []
    for line in out.splitlines():
        p = line.split("\t")
        if len(p) == 4:
            rows.append(p)
    return rows


def check_sessions(ctx, rows, prof, origin, stats):
    """REPL sessions: tie (sess_obs) + session oracle."""
    if not rows:
        return
    cases = [(r[0], r[1]) for r in rows]
    fails, err = vlib.coq_eval_cases("c19s", IMPORTS, "sess_obs", "sobs_eqb", cases, shard=100)
    if err:
        ctx.broken.append("correspondence C19 (sessions): model evaluation failed")
        ctx.log(err[-3000:])
    if fails:
        ctx.broken.append(f"correspondence C19 ({prof}, {origin}): model and REPL differ on {len(fails)} sessions")
        bad = [rows[i] for i in fails[:4]]
        mo, _ = vlib.coq_eval_terms("c19s", IMPORTS, [f"sess_obs ({r[0]})" for r in bad])
        ctx.cov.setdefault("disagreements", []).extend(
            {"tree": r[2], "implementation": r[3], "model": m} for r, m in zip(bad, mo))
        for r in bad[:2]:
            ctx.violation("tie:model-differs", "the REPL's behaviour on this session differs from Model/Modules.v (run_session)",
                          {"tree": r[2], "implementation": r[3], "profile": prof})
    gres, gerr = vlib.coq_eval_terms("c19g", IMPORTS.replace("Model.ModulesObs", "Model.ModulesObs Model.ModulesSpec"),
                                     [f"unique_defs (s_fs ({r[0]}))" for r in rows])
    per_sig = collections.Counter()
    for r, gr in zip(rows, gres):
        t = parse_tree(r[2])
        inputs_obs, probes, bumps = parse_sraw(r[3])
        stats["counter_reads"] += sum(len(b) for b in bumps)
        probes = probes[:len(t["sprobes"])] if t["sprobes"] else []
        stats["runs"] += (1 + len(t["sprobes"])) * len(t["inputs"])
        stats["sessions"] += 1
        stats["session_inputs"][len(t["inputs"])] += 1
        for code_k, _ in inputs_obs:
            stats["session_outcomes"][CODES.get(code_k, str(code_k))] += 1
        if any(c_ != 0 for c_, _ in inputs_obs[:-1]):
            stats["sessions_continuing_after_a_failed_input"] += 1
        if any(inp.get("fault") == 1 for inp in t["inputs"]):
            stats["sessions_rejected_after_load"] += 1
        stats["distinct"].add(r[2].split(";", 1)[1])
        for sig, what in session_oracle(t, inputs_obs, probes, bumps):
            if gr is not None and "true" in gr and sig.startswith("ns:same-global-name"):
                sig = "guarded-tree:" + sig
            per_sig[sig] += 1
            stats["oracle_failures"][sig] += 1
            if per_sig[sig] <= 2:
                ctx.violation(sig, what, {"tree": r[2], "implementation": r[3], "profile": prof, "origin": origin})


def check_rows(ctx, rows, prof, origin, stats):
    check_sessions(ctx, [r for r in rows if r[0].startswith("Build_sq")], prof, origin, stats)
    rows = [r for r in rows if not r[0].startswith("Build_sq")]
    if not rows:
        return
    cases = [(r[0], r[1]) for r in rows]
    ctx.log(f"{origin}: {len(rows)} trees from the harness; evaluating the model")
    fails, err = vlib.coq_eval_cases("c19", IMPORTS, "mod_obs", "mobs_eqb", cases, shard=100)
    if err:
        ctx.broken.append("correspondence C19: model evaluation failed")
        ctx.log(err[-3000:])
    if fails:
        ctx.broken.append(f"correspondence C19 ({prof}, {origin}): model and implementation differ on {len(fails)} trees")
        bad = [rows[i] for i in fails[:6]]
        mo, _ = vlib.coq_eval_terms("c19", IMPORTS, [f"mod_obs ({r[0]})" for r in bad])
        ctx.cov.setdefault("disagreements", []).extend(
            {"tree": r[2], "implementation": r[3], "model": m} for r, m in zip(bad, mo))
        for r in bad[:3]:
            ctx.violation("tie:model-differs", "the loader's behaviour on this tree differs from Model/Modules.v "
                          "(either the loader changed or the model is wrong)",
                          {"tree": r[2], "implementation": r[3], "profile": prof})
    # unique_defs evaluated by Coq on the very same trees: a failure may be attributed to the shared
    # global name root cause only where some top-level name really is defined twice
    gterms = [f"let q := ({r[0]}) in (unique_defs (q_fs q), quals_ok_b (q_fs q) (dir_of (q_entry q)))" for r in rows]
    ctx.log(f"{origin}: tie done ({len(fails)} differ); evaluating guards")
    gres, gerr = [], None
    for k in range(0, len(gterms), 400):
        part, e = vlib.coq_eval_terms("c19g", IMPORTS.replace("Model.ModulesObs", "Model.ModulesObs Model.ModulesSpec"), gterms[k:k + 400])
        gres += part
        gerr = gerr or e
    if gerr or any(g is None for g in gres):
        ctx.broken.append("guards C19: unique_defs could not be evaluated in Coq")
        ctx.log((gerr or "")[-2000:])
        gres = [None] * len(rows)
    ctx.log(f"{origin}: guards done; oracle")
    per_sig = collections.Counter()
    for r, gr in zip(rows, gres):
        g2 = (gr or "").replace(" ", "")
        uniq_ok = gr is not None and "(true," in g2
        quals_ok = gr is not None and ",true)" in g2
        stats["guards"][(uniq_ok, quals_ok)] += 1
        t = parse_tree(r[2])
        code, trace, probes, detail = parse_raw(r[3])
        probes = probes[:len(t["probes"])] if t["probes"] else []
        stats["runs"] += 1 + len(t["probes"])
        stats["opt_levels"]["O%d" % t["opt"]] += 1
        stats["sizes"][len(t["files"])] += 1
        if t["links"]:
            stats["spellings"]["trees with symlinks"] += 1
        if t["hints"]:
            stats["spellings"]["trees with manifest paths"] += 1
        for fobj in t["files"].values():
            for imp in fobj["imports"]:
                stats["forms"][imp["form"] if imp["path"][0] != "std" else "std"] += 1
        stats["codes"][CODES.get(code, str(code))] += 1
        stats["labels"][t["label"].split("-")[-1] if t["label"].startswith("random") else "structured"] += 1
        if len(t["files"]) >= 2:
            stats["distinct"].add(r[2].split(";", 1)[1])
        fs, a = oracle(t, code, trace, probes)
        reads, write = parse_readback(r[3])
        fs = fs + readback_oracle(t, a, code, reads, write)
        stats["readback_calls"] += len(reads)
        stats["foreign_writes"] += 1 if write is not None else 0
        stats["features"].update(a["features"])
        if a["shared_names"]:
            stats["ns_class"] += 1
        if len({f.rsplit("/", 1)[0] if "/" in f else "" for f in a["reach"]}) > 1:
            stats["nested"] += 1
        if a["cycle"]:
            stats["cyclic"] += 1
        for sig, what in fs:
            if gr is not None and ((uniq_ok and sig.startswith("ns:same-global-name"))
                                   or (quals_ok and uniq_ok and sig.startswith("ns:qualifier-shared"))):
                # C19_values_observed covers this tree (its guards hold): the attribution is wrong
                sig = "guarded-tree:" + sig
            per_sig[sig] += 1
            stats["oracle_failures"][sig] += 1
            if per_sig[sig] <= 2:
                ctx.violation(sig, what, {"tree": r[2], "implementation": r[3], "profile": prof, "origin": origin,
                                          "files": "harness/src/bin/hx_modules.rs --file <tree text, ';' -> newline>"})


# ------------------------------------------------------------------------------------------ compile, then run the bytecode
# `aelys-cli compile` / `asm` + `aelys-cli run main.avbc|main.aasm` (cli/src/cli/commands/run.rs: collect_required_modules,
# load_required_modules): the bytecode re-loads the SOURCE modules it requires; a module shared by several required
# modules (diamond) or both required directly and imported by a required module must still initialise exactly once in
# that run, and its state must be the one every importer sees.  Flat directories and whole-module imports only (aliased
# and nested imports do not survive bytecode: open KF-C08-2).  Reference: the property itself (every tag once, the
# counter values are 1..k) and the source run of the same project.
def bytecode_projects(seed, n):
    import random
    rnd = random.Random(9000 + seed)
    out = []
    for idx in range(n):
        k = 3 + (idx % 3)                                   # middles: with the shared modules at least four required modules
        first_use_differs = idx % 4 == 3                    # main names its modules in another order than it imports them
        two_shared = rnd.random() < 0.4
        chain = rnd.random() < 0.4                         # shared imports a base module
        direct = idx % 2 == 0                               # main also imports shared itself
        nested_mid = rnd.random() < 0.5                     # one middle imports another middle that main imports too
        files = {}
        shared = ["sa"] + (["sb"] if two_shared else [])
        if chain:
            files["base.aelys"] = ('needs std.io\nio.println("I:base")\nlet mut zb = 0\npub fn tick_base() {\n    zb = zb + 1\n'
                                   '    return zb\n}\n')
        for sh in shared:
            files[sh + ".aelys"] = ("needs std.io\n" + ("needs base\n" if chain else "") + f'io.println("I:{sh}")\n'
                                    + (f"let b_{sh} = base.tick_base()\n" if chain else "")
                                    + f"let mut c_{sh} = 0\npub fn bump_{sh}() {{\n    c_{sh} = c_{sh} + 1\n    return c_{sh}\n}}\n"
                                    + (f"pub fn base_{sh}() {{ return b_{sh} }}\n" if chain else "")
                                    # an exported CLOSURE that changes a global of its own module ...
                                    + f"let mut calls_{sh} = 0\nfn make_adder_{sh}(n) {{\n    return fn(x) {{\n        calls_{sh} = calls_{sh} + 1\n"
                                      f"        return x + n\n    }}\n}}\npub let add_{sh} = make_adder_{sh}(5)\n"
                                      f"pub fn calls_of_{sh}() {{ return calls_{sh} }}\n"
                                    # ... and a mutator that ENDS WITHOUT A VALUE (if without else / bare return / loop / assignment)
                                    + f"let mut total_{sh} = 0\npub fn reg_{sh}(n) {{\n" + [
                                        f"    if n > 0 {{\n        total_{sh} = total_{sh} + n\n    }}\n",
                                        f"    total_{sh} = total_{sh} + n\n    return\n",
                                        f"    let mut i = 0\n    while i < n {{\n        total_{sh} = total_{sh} + 1\n        i = i + 1\n    }}\n",
                                        f"    total_{sh} = total_{sh} + n\n"][(idx + len(sh) + ord(sh[-1])) % 4]
                                    + f"}}\npub fn total_of_{sh}() {{ return total_{sh} }}\n")
        mids = ["m%d" % i for i in range(k)]
        uses = {}
        for i, m in enumerate(mids):
            uses[m] = [sh for sh in shared if rnd.random() < 0.8] or [shared[0]]
        for j, sh in enumerate(shared):
            # every shared module is imported by at least one middle (otherwise nothing reaches it)
            if not any(sh in u for u in uses.values()):
                uses[mids[j % k]].append(sh)
        for i, m in enumerate(mids):
            use = uses[m]
            imp_mid = mids[i - 1] if (nested_mid and i == k - 1 and k >= 2) else None
            src = "needs std.io\n" + "".join(f"needs {sh}\n" for sh in use) + (f"needs {imp_mid}\n" if imp_mid else "")
            src += f'io.println("I:{m}")\n'
            for sh in use:
                src += f"let v_{m}_{sh} = {sh}.bump_{sh}()\npub fn got_{m}_{sh}() {{ return v_{m}_{sh} }}\n"
            # the module defines a global of its own, then (first call from here) calls another module's closure and its
            # value-less mutator, then defines another global: every importer must see all of them afterwards
            src += f"pub let base_{m} = {10 + i}\n"
            for sh in use:
                src += f"pub let sum_{m}_{sh} = {sh}.add_{sh}(1)\n{sh}.reg_{sh}(5)\n"
                src += f"pub fn calls_via_{m}_{sh}() {{ return {sh}.calls_of_{sh}() }}\npub fn total_via_{m}_{sh}() {{ return {sh}.total_of_{sh}() }}\n"
            src += f"pub let after_{m} = {20 + i}\n"
            if imp_mid:
                src += f"pub fn via_{m}() {{ return {imp_mid}.got_{imp_mid}_{uses[imp_mid][0]}() }}\n"
            files[m + ".aelys"] = src
        order = mids[:]
        rnd.shuffle(order)
        main = "needs std.io\n"
        # the middles in a random order, then the shared modules; main NAMES them in the same order (the bytecode records
        # a module where the program first names it) unless first_use_differs
        imports = order + (shared if direct else [])
        main += "".join(f"needs {x}\n" for x in imports) + 'io.println("I:main")\n'
        for m in (list(reversed(order)) if first_use_differs else order):
            for sh in uses[m]:
                main += f'io.println("G:{sh}")\nio.println({m}.got_{m}_{sh}())\n'
        if direct:
            for sh in shared:
                main += f'io.println("F:{sh}")\nio.println({sh}.bump_{sh}())\n'
        per_shared = {sh: sum(1 for m in mids if sh in uses[m]) for sh in shared}
        expect = []

        def show(label, expr, value):
            nonlocal main
            main += f'io.println("K:{label}")\nio.println({expr})\n'
            expect.append((label, str(value)))
        for i, m in enumerate(mids):
            show(f"base_{m}", f"{m}.base_{m}", 10 + i)
            show(f"after_{m}", f"{m}.after_{m}", 20 + i)
            for sh in uses[m]:
                show(f"sum_{m}_{sh}", f"{m}.sum_{m}_{sh}", 6)
        for sh in shared:
            via = next(m for m in mids if sh in uses[m])
            if direct:
                show(f"mainsum_{sh}", f"{sh}.add_{sh}(2)", 7)
                main += f"{sh}.reg_{sh}(5)\n"
                show(f"calls_{sh}", f"{sh}.calls_of_{sh}()", per_shared[sh] + 1)
                show(f"total_{sh}", f"{sh}.total_of_{sh}()", 5 * (per_shared[sh] + 1))
            show(f"calls_via_{via}_{sh}", f"{via}.calls_via_{via}_{sh}()", per_shared[sh] + (1 if direct else 0))
            show(f"total_via_{via}_{sh}", f"{via}.total_via_{via}_{sh}()", 5 * (per_shared[sh] + (1 if direct else 0)))
        files["main.aelys"] = main
        out.append({"name": f"bc{seed}-{idx}", "files": files, "modules": sorted(set(["main"] + mids + shared + (["base"] if chain else []))),
                    "per_shared": per_shared, "direct": direct, "first_use_differs": first_use_differs, "expect": expect,
                    "shape": f"{'main names its modules in reverse import order, ' if first_use_differs else ''}{k} middles, shared {shared}, chain {chain}, main imports shared {direct}, "
                    f"a middle imports a middle {nested_mid}"})
    return out


def bytecode_reachable(proj):
    """the modules main reaches through the `needs` lines of the project's own files"""
    seen, todo = set(), ["main"]
    while todo:
        m = todo.pop()
        if m in seen or m + ".aelys" not in proj["files"]:
            continue
        seen.add(m)
        for l in proj["files"][m + ".aelys"].splitlines():
            w = l.split()
            if len(w) >= 2 and w[0] == "needs" and not w[1].startswith("std."):
                todo.append(w[1])
    return sorted(seen)


def bytecode_oracle(proj, out):
    """the property on one run's output"""
    lines = out.splitlines()
    tags = collections.Counter(l[2:] for l in lines if l.startswith("I:"))
    fails = []
    for m, c in tags.items():
        if m not in bytecode_reachable(proj):
            fails.append(("bytecode:init-of-unreachable", f"module {m} ran although main does not reach it"))
    for m in bytecode_reachable(proj):
        if tags.get(m, 0) != 1:
            fails.append(("bytecode:double-init" if tags.get(m, 0) > 1 else "bytecode:missing-init",
                          f"module {m} initialised {tags.get(m, 0)} times in one run"))
    got, final = collections.defaultdict(list), {}
    for i, l in enumerate(lines):
        if l.startswith("G:") and i + 1 < len(lines):
            got[l[2:]].append(lines[i + 1])
        if l.startswith("F:") and i + 1 < len(lines):
            final[l[2:]] = lines[i + 1]
    seen = {}
    for i, l in enumerate(lines):
        if l.startswith("K:") and i + 1 < len(lines):
            seen[l[2:]] = lines[i + 1]
    for label, want in proj.get("expect", []):
        if seen.get(label) != want:
            fails.append(("bytecode:module-state-stale", f"main reads {label} = {seen.get(label)}, expected {want}: a module's global (a value defined before / "
                          "after its top level called another module's closure or value-less function, or the state that callee changed) "
                          "is not what every importer must observe after all top levels ran"))
    for sh, n in proj["per_shared"].items():
        want = [str(x) for x in range(1, n + 1)]
        if sorted(got.get(sh, []), key=lambda v: (len(v), v)) != want:
            fails.append(("bytecode:state-reset", f"the importers of {sh} took the counter values {got.get(sh, [])}, one module instance gives {want} (in load order)"))
        if proj["direct"] and final.get(sh) != str(n + 1):
            fails.append(("bytecode:state-reset", f"main reads {sh}'s counter = {final.get(sh)} after {n} importers advanced it (expected {n + 1})"))
    return fails


def bytecode_route(ctx, stats, only=None):
    from props import c03
    cli = c03.cli_build(ctx)
    if cli is None:
        ctx.broken.append("cli: aelys-cli does not build from the tree under test")
        return
    projects = [only] if only else bytecode_projects(ctx.seed, 12 if ctx.tier == "quick" else 60)
    root = os.path.join(vlib.CACHE, "c19bc-%d" % os.getpid())
    shutil.rmtree(root, ignore_errors=True)
    per_sig = collections.Counter()
    try:
        for proj in projects:
            d = os.path.join(root, proj["name"])
            os.makedirs(d)
            for f, txt in proj["files"].items():
                open(os.path.join(d, f), "w").write(txt)
            runs = {}
            rc, out = vlib.sh([cli, "run", "main.aelys"], cwd=d, timeout=60)
            runs["source"] = (rc, out)
            for kind, cmd, art in (("avbc", "compile", "main.avbc"), ("aasm", "asm", "main.aasm")):
                rc_c, out_c = vlib.sh([cli, cmd, "main.aelys"], cwd=d, timeout=60)
                if rc_c != 0 or not os.path.exists(os.path.join(d, art)):
                    runs[kind] = (rc_c or 1, "[%s failed] %s" % (cmd, out_c[-400:]))
                    continue
                # several processes: an order taken from a hash set changes from process to process
                for rep_i in range(3 if kind == "avbc" else 2):
                    runs[kind if rep_i == 0 else "%s#%d" % (kind, rep_i + 1)] = vlib.sh([cli, "run", art], cwd=d, timeout=60)
            stats["bytecode_projects"] += 1
            for kind, (rc, out) in runs.items():
                stats["bytecode_runs"] += 1
                fails = []
                if rc != 0:
                    fails.append(("bytecode:run-failed" if kind != "source" else "unexpected-outcome", f"exit {rc}: {out[-300:]}"))
                else:
                    fails = bytecode_oracle(proj, out)
                    if kind != "source" and runs["source"][0] == 0 and not fails and out.splitlines() != runs["source"][1].splitlines():
                        if sorted(out.splitlines()) != sorted(runs["source"][1].splitlines()) and \
                                [l for l in out.splitlines() if l.startswith("I:")] == [l for l in runs["source"][1].splitlines() if l.startswith("I:")]:
                            fails.append(("bytecode:differs-from-source", "the bytecode run prints other lines than the source run"))
                        else:
                            src_order = [l[2:] for l in runs["source"][1].splitlines() if l.startswith("I:")]
                            bc_order = [l[2:] for l in out.splitlines() if l.startswith("I:")]
                            others = [o for k2, (r2, o) in runs.items() if k2.split("#")[0] == kind.split("#")[0] and r2 == 0]
                            unstable = len({tuple(l for l in o.splitlines() if l.startswith("I:")) for o in others}) > 1
                            fails.append(("bytecode:init-order-unstable" if unstable else
                                          ("bytecode:init-order-first-use" if proj.get("first_use_differs") else "bytecode:init-order-differs-from-source"),
                                          f"the modules initialise in the order {bc_order}, the source run (the order of the `needs` statements) in {src_order}"
                                          + ("; the order changes from one process to the next" if unstable else "")
                                          + "; the values the importers take from the shared counters follow that order"))
                for sig, what in fails:
                    sig = sig if kind != "source" else sig.replace("bytecode:", "source:")
                    per_sig[sig] += 1
                    stats["oracle_failures"][sig] += 1
                    if per_sig[sig] <= 2:
                        ctx.violation(sig, f"`aelys-cli run main.{kind.split('#')[0] if kind != 'source' else 'aelys'}` ({proj['shape']}): {what}",
                                      {"project": proj, "route": kind, "output": out[-1500:], "source_run_output": runs["source"][1][-1500:],
                                       "files": "write project.files into a directory; aelys-cli compile|asm main.aelys; aelys-cli run main.avbc|main.aasm"})
    finally:
        shutil.rmtree(root, ignore_errors=True)


def run(ctx):
    ctx.level = "proof"
    ctx.cov["trusted_base"] = TRUSTED
    ctx.assumptions = ["Model/Modules.v is the loader: checked by the contract tie below on every run",
                       "unique_defs is evaluated in Coq on every tree; the shared-global-name class may only be claimed "
                       "where it is false"]
    proved = ctx.prove("C19", extracted=["ModulesTables"])
    if ctx.tier == "thorough" and proved:
        ctx.coqchk("C19")
    ok, out = vlib.coq_make(["Base/CaseCheck.vo", "Model/ModulesObs.vo"])
    if not ok:
        ctx.broken.append("coq: model files for the C19 tie do not build")
        ctx.log(out[-2000:])
        return
    n_random = 700 if ctx.tier == "quick" else 6000
    profiles = ["dev"] if ctx.tier == "quick" else ["dev", "release"]
    stats = {"runs": 0, "codes": collections.Counter(), "labels": collections.Counter(), "distinct": set(),
             "oracle_failures": collections.Counter(), "guards": collections.Counter(), "sessions": 0,
             "sessions_continuing_after_a_failed_input": 0, "sessions_rejected_after_load": 0, "bytecode_projects": 0, "bytecode_runs": 0, "counter_reads": 0, "readback_calls": 0, "foreign_writes": 0,
             "session_inputs": collections.Counter(), "session_outcomes": collections.Counter(), "opt_levels": collections.Counter(),
             "forms": collections.Counter(), "spellings": collections.Counter(), "sizes": collections.Counter(),
             "features": collections.Counter(), "ns_class": 0, "nested": 0, "cyclic": 0}
    corpus = sorted(glob.glob(os.path.join(vlib.VERIF, "corpus", "C19", "*.txt")))
    if getattr(ctx, "replay_file", None):
        import json
        rp = json.load(open(ctx.replay_file)).get("replay", {})
        if "tree" in rp:
            p = os.path.join(vlib.CACHE, "c19-replay.txt")
            open(p, "w").write(rp["tree"].replace(";", "\n") + "\n")
            corpus, n_random = [p], 0
        elif "project" in rp:
            bytecode_route(ctx, stats, only=rp["project"])
            return
    for prof in profiles:
        ok, paths, log = vlib.harness_build(["hx_modules"], profile=prof)
        if not ok:
            ctx.broken.append("harness build failed (hx_modules, %s)" % prof)
            ctx.log(log[-3000:])
            return
        for f in corpus:
            rows = run_harness(ctx, paths["hx_modules"], ["--file", f, "--seed", str(ctx.seed)], prof)
            if rows is None:
                return
            if not rows:
                ctx.broken.append("corpus file produced no case: " + f)
            check_rows(ctx, rows, prof, "corpus/" + os.path.basename(f), stats)
        if getattr(ctx, "replay_file", None) and n_random == 0:
            continue
        extra = [] if ctx.tier == "quick" else ["--maxfiles", "14", "--deep", "150", "--probes", "18"]
        seeds = [ctx.seed] if (ctx.tier == "quick" or prof == "release") else [ctx.seed, ctx.seed + 1000, ctx.seed + 2000]
        for sd in seeds:
            rows = run_harness(ctx, paths["hx_modules"], ["--seed", str(sd), "--gen", str(n_random)] + extra, prof)
            if rows is None:
                return
            check_rows(ctx, rows, prof, "generated" if sd == ctx.seed else f"generated(seed {sd})", stats)
        ctx.add_samples([{"tree": r[2], "observed": r[3]} for r in (rows[2], rows[len(rows) // 2], rows[-1])])
    if not getattr(ctx, "replay_file", None):
        bytecode_route(ctx, stats)
    ctx.cov["evaluations"] = stats["runs"] + stats["bytecode_runs"]
    ctx.cov["distinct_nontrivial"] = len(stats["distinct"])
    ctx.cov["input_distribution"] = {
        "trees": sum(stats["codes"].values()), "outcomes": dict(stats["codes"]), "families": dict(stats["labels"]),
        "trees_with_nested_directories": stats["nested"], "trees_with_reachable_cycle": stats["cyclic"],
        "trees_with_a_global_name_defined_twice": stats["ns_class"],
        "value_guards(unique_defs,quals_ok_b)": {str(k): v for k, v in stats["guards"].items()},
        "repl_sessions": stats["sessions"], "repl_inputs_per_session": dict(stats["session_inputs"]),
        "repl_input_outcomes": dict(stats["session_outcomes"]),
        "repl_sessions_continuing_after_a_failed_input": stats["sessions_continuing_after_a_failed_input"],
        "repl_reads_of_a_module's_mutable_counter": stats["counter_reads"],
        "repl_sessions_with_an_input_rejected_after_its_imports_loaded": stats["sessions_rejected_after_load"],
        "compile_then_run_bytecode_projects(source, .avbc, .aasm run each)": stats["bytecode_projects"],
        "own_state_read_back_through_the_module's_function": stats["readback_calls"],
        "trees_where_the_entry_assigns_to_a_module's_private_name": stats["foreign_writes"],
        "entry_opt_levels": dict(stats["opt_levels"]), "import_statements_by_form": dict(stats["forms"]),
        "files_per_tree": dict(sorted(stats["sizes"].items())), "spelling_features": dict(stats["spellings"]),
        "model_features_reached(reachable imports)": dict(sorted(stats["features"].items())),
        "random_flavours": "f0 flat forward-only 35%, f1 flat with back edges 15%, f2 nested directories with repeated file names, "
                           "mod.aelys, imports resolved next to the entry file and symlinks leaving a module directory 25%, f3 shared definition names 10%, f4 malformed "
                           "(missing modules, private/undefined symbols, `needs mod.symbol`) 15%; only f3 (a global name defined by two "
                           "modules) and trees where two importers use one qualifier for different modules fall into the open classes; "
                           "a quarter of f0-f3 trees get some imports respelled (suffix s): symlink to the file, symlinked directory, "
                           "explicit manifest path with ./ and d/../; the entry is compiled at O(index mod 4); a sixth as many REPL sessions",
    }
    ctx.cov["oracle_failures_by_root_cause"] = dict(stats["oracle_failures"])
    ctx.cov["refuted_lemmas"] = ["C19_flat_namespace_collision_refuted", "C19_shared_qualifier_refuted"]
    ctx.cov["repaired_findings"] = ["KF-C19-1", "KF-C19-2", "KF-C19-4", "KF-C19-5", "KF-C19-6", "KF-C19-7", "KF-C19-9"]
    ctx.cov["rule"] = ("structured families (chains 1-6, diamonds 2-4, cycles of length 1-6 behind tails 0-2, nested directories with "
                       "a repeated file name, one file under two dotted paths, mod.aelys packages, same global name in two modules, "
                       "`needs mod.symbol` incl. private names and cycles, two selected symbols, a nested module importing a file that lives next to "
                       "the entry (with and without a same-named file next to the module), missing module, private symbol, entry "
                       "conflicts, cycle through the entry, one file under every spelling, cycles closed through another spelling, symlinks and "
                       "manifest paths leaving a module directory, a file and a directory of one name) + seeded random trees of 2-8 files (thorough: "
                       "2-14 files, chains and a cycle 150 modules deep, three seeds, dev + release) + REPL sessions of 2-4 inputs; every tree is run once plain and once per "
                       "probe (importer, spelling) with up to 14 (structured: 24) probes drawn from bare / last-segment / alias / "
                       "previous-segment / non-alias qualifiers x the definitions of the files the import could mean; evaluations = runs of "
                       "run_file_full; distinct = distinct tree texts with >= 2 files")
