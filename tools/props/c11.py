"""C11 -- Denied capabilities cannot be exercised by any program.
Proof over the gating logic (Model/Caps.v, tables regenerated from the Rust source);
contract ties for flag parsing, the native registry and native-module decisions;
sentinel oracle (scratch directory / loopback listener / `touch sentinel`) through every
route: source (all import forms), REPL history, user-module re-export, file, assembly,
bytecode, native library next to the script / embedded in the bytecode."""
import json, os, re, shutil, socket
import vlib

TRUSTED = [
    "Coq 8.16.1 kernel + vm_compute (table checks, witnesses, the 8 x 4 flag spellings)",
    "tools/extractors/c11.py: STD_MODULES, the arms of register_std_module and their capability tests, auto-registered modules, builtins, "
    "the natives each std module registers, which sys natives call Command:: and which test allow_exec first, the capability-name and "
    "--ae-* key maps, the order of the capability/checksum/load/version steps in load_native_module and load_bundled_module, which "
    "manifest each run route passes, the FNV-1a parameters of both implementations (regexes over the source text)",
    "Model/Caps.v is a hand model of parse_vm_args, register_std_module, VM init, check_native_capability(ies) and the native-module "
    "decision; tied on every run (parse_obs, natives_obs, route_summary)",
    "semver matching is a Section variable (external crate); the tie instantiates it with `>= x.y.z` on triples",
    "what a *registered* native does is Rust code outside the model: explored by the sentinel oracle only; the translator additionally "
    "lists natives outside the gated modules whose body mentions file/process/socket APIs (syntactic audit)",
    "assembly/bytecode/native-library routes are exercised through the aelys-cli binary built from the tree under test; the natives tie "
    "repeats the ~10 lines of cli run.rs::load_required_modules (the CLI's function is private)",
]
IMPORTS = ("From Aelys Require Import Extracted.StdModules Model.Caps.\n"
           "Local Open Scope string_scope.\nLocal Open Scope list_scope.")
DENIED_OK = ("runtime:CapabilityDenied", "compile:UndefinedVariable", "compile:ModuleNotFound", "compile:SymbolNotFound",
             "compile:StdlibNotAvailable", "runtime:UndefinedVariable", "compile:UnknownModule", "compile:TypeInferenceError")


def cli_build(ctx):
    tag = vlib.repo_tag()
    target = os.path.join(vlib.CACHE, "target", tag + "-cli")
    with vlib.Lock("cargo-" + tag + "-cli"):
        rc, out = vlib.sh(["cargo", "build", "--offline", "-q", "-p", "aelys-cli"], cwd=vlib.REPO,
                          env={"CARGO_TARGET_DIR": target, "CARGO_NET_OFFLINE": "true", "RUSTFLAGS": "-Awarnings"}, timeout=2400)
    p = os.path.join(target, "debug", "aelys-cli")
    if rc != 0 or not os.path.exists(p):
        ctx.log("cli build failed:\n" + out[-2000:])
        return None
    return p


SENTRY_RS = r'''use aelys_native::*;

// runs when the library is mapped (dlopen / memfd), before the host looks at the descriptor
#[used]
#[unsafe(link_section = ".init_array")]
static C11_CTOR: extern "C" fn() = {
    extern "C" fn ctor() {
        if let Ok(p) = std::env::var("C11_CTOR_SENTINEL") {
            let _ = std::fs::write(p, b"loaded");
        }
    }
    ctor
};

#[aelys_module(name = "sentry", version = "0.1.0")]
mod exports {
    #[aelys_export]
    pub fn touch() -> i64 {
        if let Ok(p) = std::env::var("C11_CALL_SENTINEL") {
            let _ = std::fs::write(p, b"called");
        }
        1
    }
}
'''


def native_lib_build(ctx):
    """tiny cdylib against the tree's aelys-native crate; returns path of libsentry.so or None"""
    tag = vlib.repo_tag()
    d = os.path.join(vlib.CACHE, "c11-native", tag)
    os.makedirs(os.path.join(d, "src"), exist_ok=True)
    toml = ('[package]\nname = "sentry"\nversion = "0.1.0"\nedition = "2024"\n\n[lib]\ncrate-type = ["cdylib"]\n\n'
            '[dependencies]\naelys-native = { path = "%s/native" }\n\n[workspace]\n' % vlib.REPO)
    for p, t in ((os.path.join(d, "Cargo.toml"), toml), (os.path.join(d, "src", "lib.rs"), SENTRY_RS)):
        if not os.path.exists(p) or open(p).read() != t:
            open(p, "w").write(t)
    lock = os.path.join(d, "Cargo.lock")
    if not os.path.exists(lock) and os.path.exists(os.path.join(vlib.REPO, "Cargo.lock")):
        shutil.copy(os.path.join(vlib.REPO, "Cargo.lock"), lock)
    with vlib.Lock("cargo-c11-native-" + tag):
        rc, out = vlib.sh(["cargo", "build", "--offline", "-q"], cwd=d,
                          env={"CARGO_NET_OFFLINE": "true", "RUSTFLAGS": "-Awarnings"}, timeout=1200)
    p = os.path.join(d, "target", "debug", "libsentry.so")
    if rc != 0 or not os.path.exists(p):
        ctx.log("native library build failed:\n" + out[-2000:])
        return None
    return p


def fnv1a(data):
    h = 0xcbf29ce484222325
    for b in data:
        h = ((h ^ b) * 0x100000001b3) & 0xFFFFFFFFFFFFFFFF
    return h


def snapshot(d):
    out = {}
    for root, dirs, files in os.walk(d):
        for n in dirs:
            out[os.path.relpath(os.path.join(root, n), d)] = "dir"
        for n in files:
            p = os.path.join(root, n)
            try:
                out[os.path.relpath(p, d)] = fnv1a(open(p, "rb").read())
            except OSError:
                out[os.path.relpath(p, d)] = "?"
    return out


def sdiff(a, b):
    v = [f"created:{k}" for k in b if k not in a] + [f"modified:{k}" for k in b if k in a and a[k] != b[k]] + \
        [f"removed:{k}" for k in a if k not in b]
    return sorted(v)


def stderr_class(rc, out):
    o = out.lower()
    if rc == 0:
        return "ok"
    if "capability denied" in o or "which is not allowed" in o:
        return "capability-denied"
    if "checksum mismatch" in o:
        return "checksum-mismatch"
    if "version constraint not satisfied" in o or "version mismatch" in o:
        return "version-mismatch"
    if "module not found" in o or "undefined variable" in o or "not found" in o:
        return "unknown-name"
    return "error:" + (out.strip().split("\n")[0][:60] if out.strip() else str(rc))


SPELL = {
    "caps-each": lambda f, n, x: [f"--{'allow' if f else 'deny'}-caps=fs", f"--{'allow' if n else 'deny'}-caps=net", f"--{'allow' if x else 'deny'}-caps=exec"],
    "ae-dot": lambda f, n, x: [f"-ae.allow-fs={str(f).lower()}", f"-ae.allow-net={str(n).lower()}", f"-ae.allow-exec={str(x).lower()}"],
    "ae-dash": lambda f, n, x: [f"--ae-allow-fs={str(f).lower()}", f"--ae-allow-net={str(n).lower()}", f"--ae-allow-exec={str(x).lower()}"],
}


def hostname_trace(ctx, cli, root):
    """sys.hostname() with no capability and HOSTNAME unset, under strace: which files does the process open for it?"""
    if not shutil.which("strace"):
        ctx.notes.append("strace not available: sys.hostname() is covered by the translator's audit only")
        return
    d = os.path.join(root, "hostname")
    os.makedirs(d, exist_ok=True)
    open(os.path.join(d, "base.aelys"), "w").write("needs std.sys\nsys.platform()\n")
    open(os.path.join(d, "host.aelys"), "w").write("needs std.sys\nsys.hostname()\n")
    opened = {}
    for name in ("base", "host"):
        log = os.path.join(d, name + ".trace")
        rc, out = vlib.sh(["env", "-u", "HOSTNAME", "-u", "COMPUTERNAME", "strace", "-f", "-e", "trace=open,openat", "-o", log,
                           cli, "run", os.path.join(d, name + ".aelys")], timeout=120, cwd=d)
        try:
            opened[name] = set(re.findall(r'open(?:at)?\([^"]*"([^"]+)"', open(log).read()))
        except OSError:
            ctx.notes.append("strace produced no log: sys.hostname() is covered by the translator's audit only")
            return
    extra = sorted(p for p in opened["host"] - opened["base"] if not p.endswith("host.aelys"))
    ctx.cov["files_opened_only_by_sys_hostname"] = extra
    if extra:
        ctx.violation("ungated-effect:sys::hostname:confirmed",
                      f"with no capability at all and HOSTNAME unset, `needs std.sys; sys.hostname()` opens {extra} (strace)",
                      {"program": "needs std.sys\nsys.hostname()", "opened": extra})


def asm_text(glob, consts, code):
    t = ".version 1\n.function 0\n  .arity 0\n  .registers 3\n\n  .globals\n    0: \"%s\"\n\n" % glob
    if consts:
        t += "  .constants\n" + "".join((f"    {i}: int {c}\n" if isinstance(c, int) else f"    {i}: string \"{c}\"\n")
                                        for i, c in enumerate(consts)) + "\n"
    return t + "  .code\n" + code


def run_cli_routes(ctx, cli, root, stats):
    """hand-written assembly / assembled bytecode naming gated std natives, through the real CLI"""
    lst = socket.socket()
    lst.bind(("127.0.0.1", 0))
    lst.listen(8)
    lst.setblocking(False)
    lport = lst.getsockname()[1]
    n = 0
    for m in range(8):
        f, nn, x = bool(m & 1), bool(m & 2), bool(m & 4)
        for si, (spname, sp) in enumerate(SPELL.items()):
            flags = sp(f, nn, x)
            for op, cap, allowed in (("fs::write_text", "fs", f), ("net::connect", "net", nn), ("sys::exec", "exec", x)):
                for route in ("aasm", "avbc"):
                    if (m + si + n) % 2 and route == "avbc" and spname != "caps-each":
                        continue          # thin out: every subset still sees both routes
                    n += 1
                    d = os.path.join(root, f"cli{n}")
                    shutil.rmtree(d, ignore_errors=True)
                    os.makedirs(d)
                    open(os.path.join(d, "victim.txt"), "w").write("original")
                    if op == "fs::write_text":
                        text = asm_text(op, [f"{d}/new.txt", "x"], "    0000: LoadK     r1, 0\n    0001: LoadK     r2, 1\n    0002: CallGlobalNative r0, 0, 2\n    0005: Return    r0\n")
                    elif op == "net::connect":
                        text = asm_text(op, ["127.0.0.1", lport], "    0000: LoadK     r1, 0\n    0001: LoadK     r2, 1\n    0002: CallGlobalNative r0, 0, 2\n    0005: Return    r0\n")
                    else:
                        text = asm_text(op, [f"touch {d}/sentinel"], "    0000: LoadK     r1, 0\n    0001: CallGlobalNative r0, 0, 1\n    0004: Return    r0\n")
                    src = os.path.join(d, "prog.aasm")
                    open(src, "w").write(text)
                    target = src
                    if route == "avbc":
                        rc, out = vlib.sh([cli, "compile", src, "-o", os.path.join(d, "prog.avbc")], timeout=60, cwd=d)
                        if rc != 0:
                            ctx.broken.append("cli: cannot assemble the probe program: " + out[-300:])
                            return
                        target = os.path.join(d, "prog.avbc")
                    before = snapshot(d)
                    while True:
                        try:
                            lst.accept()[0].close()
                        except OSError:
                            break
                    rc, out = vlib.sh([cli, "run"] + flags + [target], timeout=60, cwd=d)
                    eff = sdiff(before, snapshot(d))
                    try:
                        lst.accept()[0].close()
                        eff.append("connected:loopback")
                    except OSError:
                        pass
                    cls = stderr_class(rc, out)
                    stats["cli_runs"] += 1
                    stats["distinct"].add(("cli", route, op, m, spname))
                    if allowed:
                        if not eff:
                            ctx.broken.append(f"sentinel insensitive: {op} via {route} with {flags} allowed but no effect observed ({cls})")
                        else:
                            stats["allowed_effects"] += 1
                    else:
                        stats["denied_attempts"] += 1
                        if eff or cls not in ("capability-denied", "unknown-name"):
                            ctx.violation(f"std-native-exercised:{route}:{op}:{cls}",
                                          f"{op} through a hand-written {route} file with {' '.join(flags)}: outcome {cls}, effects {eff}",
                                          {"flags": flags, "route": route, "asm": text, "outcome": cls, "effects": eff, "output": out[-600:]})
                    shutil.rmtree(d, ignore_errors=True)
    # bytecode produced by the real compiler from a source that uses sys.exec* (std.sys registers without a capability,
    # so such a program compiles), run with and without the exec capability
    for m in (0, 4):
        x = bool(m & 4)
        for spname, sp in SPELL.items():
            flags = sp(False, False, x)
            for fn, call in (("exec", 'sys.exec("touch %s/sentinel")'), ("exec_args_output", 'sys.exec_args_output("touch", "%s/sentinel")')):
                n += 1
                d = os.path.join(root, f"cli{n}")
                shutil.rmtree(d, ignore_errors=True)
                os.makedirs(d)
                src = os.path.join(d, "prog.aelys")
                open(src, "w").write("needs std.sys\n" + (call % d) + "\n")
                rc, out = vlib.sh([cli, "compile", src, "-o", os.path.join(d, "prog.avbc")], timeout=60, cwd=d)
                if rc != 0:
                    ctx.broken.append("cli: cannot compile the sys.exec probe: " + out[-300:])
                    return
                before = snapshot(d)
                rc, out = vlib.sh([cli, "run"] + flags + [os.path.join(d, "prog.avbc")], timeout=60, cwd=d)
                eff = sdiff(before, snapshot(d))
                cls = stderr_class(rc, out)
                stats["cli_runs"] += 1
                stats["distinct"].add(("cli", "avbc-from-source", fn, m, spname))
                if x:
                    if not eff:
                        ctx.broken.append(f"sentinel insensitive: sys.{fn} in compiled bytecode with {flags} allowed but no effect ({cls})")
                    else:
                        stats["allowed_effects"] += 1
                else:
                    stats["denied_attempts"] += 1
                    if eff or cls not in ("capability-denied", "unknown-name"):
                        ctx.violation(f"std-native-exercised:avbc-from-source:sys::{fn}:{cls}",
                                      f"sys.{fn} in bytecode compiled from source, run with {' '.join(flags)}: outcome {cls}, effects {eff}",
                                      {"flags": flags, "route": "avbc-from-source", "source": open(src).read(), "outcome": cls, "effects": eff})
                shutil.rmtree(d, ignore_errors=True)
    lst.close()


def registration_report(ctx):
    try:
        ext = open(os.path.join(vlib.COQ, "Extracted", "StdModules.v")).read()
        mod = vlib.strip_coq_comments(open(os.path.join(vlib.COQ, "Model", "Caps.v")).read())
    except OSError:
        return
    from collections import Counter
    blk = ext[ext.index("Definition registration_sites"):]
    blk = blk[:blk.index("].") + 2]
    found = Counter((f, p) for f, g, p in re.findall(r'\("([^"]+)", "([^"]+)", "([^"]+)"\)', blk))
    known = {(f, p): int(k) for f, p, k in re.findall(r'\(\("([^"]+)", "([^"]+)"\), (\d+)\)', mod)}
    ctx.cov["native_registration_sites"] = {"found_by_translator": sum(found.values()), "accounted_for": sum(min(v, known.get(k, 0)) for k, v in found.items())}
    new = sorted(k for k, v in found.items() if v > known.get(k, 0))
    if new:
        ctx.broken.append("a place that registers natives is not accounted for by Model/Caps.v::known_registration: " +
                          "; ".join(f"{f} ({p}: {found[(f, p)]} calls, {known.get((f, p), 0)} known)" for f, p in new[:5]))
    eb = ext[ext.index("Definition native_effects"):]
    eb = eb[:eb.index("].\n") + 2]
    prot = re.findall(r'\(\("([^"]*)", "([^"]+)"\), \[([^\]]*)\]\)', eb)
    ctx.cov["natives_with_effects"] = {"fs": sum('"fs"' in e for _, _, e in prot), "net": sum('"net"' in e for _, _, e in prot),
                                       "process": sum('"process"' in e for _, _, e in prot), "env (not protected)": sum('"env"' in e for _, _, e in prot),
                                       "exit (not protected)": sum('"exit"' in e for _, _, e in prot)}


def native_cases(lib_fnv):
    """(name, flags, route, manifest policy dict or None, bundled?, coq query, what the manifest declares for this config)"""
    ok_ck = "%016x" % lib_fnv
    C = []

    def pol(caps=None, ck=None, ver=None, key=None, raw=""):
        return {"caps": caps or [], "checksum": ck, "version": ver, "key": key, "raw": raw}

    def coq_pol(p, model_ck):
        caps = "[" + "; ".join('"%s"' % c for c in p["caps"]) + "]"
        ck = "None" if p["checksum"] is None else ("(Some (fnv_bytes [1; 2; 3]%N))" if model_ck else "(Some 0%N)")
        ver = "None" if p["version"] is None else "(Some (%d, %d, %d)%%N)" % p["version"]
        return f"(mkpol {caps} {ck} {ver})"

    def add(name, flags, route, p, declares, embedded=False, ck_ok=True, imp="sentry", alias=None, symbol=False, append_manf=False, nested=False):
        fl = "[" + "; ".join('"%s"' % x for x in flags) + "]"
        man = "None" if p is None else f'(Some [("{p.get("key") or "sentry"}", {coq_pol(p, ck_ok)})])'
        r = {"source": "RSource", "aasm": "RAasm", "avbc-plain": "RAvbc", "avbc-bundled": "RAvbc"}[route]
        project, emb = (man, "None") if not embedded else ("None", man)
        path = "[" + "; ".join('"%s"' % seg for seg in imp.split(".")) + "]"
        q = f'({fl}, {r}, {project}, {emb}, {path}, mkfile [[1; 2]; [3]]%N (Some (0, 1, 0)%N))'
        C.append({"name": name, "flags": flags, "route": route, "policy": p, "declares": declares, "query": q, "import": imp, "alias": alias, "symbol": symbol, "append_manf": append_manf, "nested": nested})

    add("no-manifest", [], "source", None, None)
    add("caps-no-flags", [], "source", pol(["danger"]), None)
    add("caps-denied", ["--deny-caps=danger"], "source", pol(["danger"]), "denied-capability")
    add("caps-not-in-allow-list", ["--allow-caps=other"], "source", pol(["danger"]), "denied-capability")
    add("caps-deny-beats-allow", ["--allow-caps=danger", "--deny-caps=danger"], "source", pol(["danger"]), "denied-capability")
    add("caps-allow-then-deny-other-order", ["--deny-caps=danger", "--allow-caps=danger"], "source", pol(["danger"]), "denied-capability")
    add("caps-allowed", ["--allow-caps=danger,fs"], "source", pol(["danger"]), None)
    add("caps-denied-but-trusted", ["--deny-caps=danger", "--ae-trusted=true"], "source", pol(["danger"]), None)
    add("caps-second-of-two-denied", ["--deny-caps=danger"], "source", pol(["safe", "danger"]), "denied-capability")
    add("caps-two-allowed-one-missing", ["--allow-caps=safe"], "source", pol(["safe", "danger"]), "denied-capability")
    add("checksum-ok", [], "source", pol([], ok_ck), None)
    add("checksum-prefix-only", [], "source", pol([], ok_ck[:6]), "different-checksum", ck_ok=False)
    add("checksum-uppercase", [], "source", pol([], ok_ck.upper() if ok_ck.upper() != ok_ck else "0" + ok_ck[1:]), "different-checksum", ck_ok=False)
    add("checksum-wrong", [], "source", pol([], "0000000000000000"), "different-checksum", ck_ok=False)
    add("checksum-wrong-and-caps-ok", ["--allow-caps=danger"], "source", pol(["danger"], "00000000deadbeef"), "different-checksum", ck_ok=False)
    add("version-ok", [], "source", pol([], None, (0, 1, 0)), None)
    add("version-unsatisfied", [], "source", pol([], None, (9, 0, 0)), "unsatisfied-version")
    add("version-unsatisfied-checksum-ok", [], "source", pol(["danger"], ok_ck, (0, 2, 0)), "unsatisfied-version")
    # the same policy components for a module reached through a subdirectory (dotted import path), with and without alias:
    # [module.NAME] entries are keyed by the last segment, and every component must use that key
    for imp, alias, tag in (("libs.sentry", None, "dotted"), ("libs.sentry", "gl", "dotted-alias"), ("libs.deep.sentry", "dd", "dotted2-alias")):
        add(f"{tag}-caps-denied", ["--deny-caps=danger"], "source", pol(["danger"]), "denied-capability", imp=imp, alias=alias)
        add(f"{tag}-checksum-wrong", [], "source", pol([], "0000000000000000"), "different-checksum", ck_ok=False, imp=imp, alias=alias)
        add(f"{tag}-version-unsatisfied", [], "source", pol([], None, (9, 0, 0)), "unsatisfied-version", imp=imp, alias=alias)
        add(f"{tag}-all-ok", ["--allow-caps=danger"], "source", pol(["danger"], ok_ck, (0, 1, 0)), None, imp=imp, alias=alias)
    # round 4: the VM's own capability bits must govern native modules that declare fs / net / exec
    for capn, flagsets in (("fs", ([], ["-ae.allow-fs=false"], ["--ae-allow-net=true"])), ("net", ([],)), ("exec", (["--ae-allow-fs=true"],))):
        for fl in flagsets:
            add(f"std-cap-{capn}-off-{'-'.join(x.strip('-').replace('=', '_') for x in fl) or 'default'}", list(fl), "source", pol([capn]), "std-capability-off")
    add("std-cap-fs-on-by-bit", ["--ae-allow-fs=true"], "source", pol(["fs"]), None)
    add("std-cap-fs-on-by-list", ["--allow-caps=fs"], "source", pol(["fs"]), None)
    add("std-cap-fs-trusted", ["--ae-trusted=true"], "source", pol(["fs", "exec"]), None)
    # round 4: a manifest entry keyed by the dotted import path (the resolver's key)
    add("dotted-key-caps-denied", ["--deny-caps=danger"], "source", pol(["danger"], key="libs.sentry"), "dotted-key-denied-capability", imp="libs.sentry")
    add("dotted-key-checksum-wrong", [], "source", pol([], "0000000000000000", key="libs.sentry"), "dotted-key-different-checksum", ck_ok=False, imp="libs.sentry", alias="dk")
    add("dotted-key-allowed", ["--allow-caps=danger"], "source", pol(["danger"], key="libs.sentry"), None, imp="libs.sentry")
    # round 4: a manifest that does not deserialize must not mean "no policy"
    add("unparsable-manifest-caps-denied", ["--deny-caps=danger"], "source", pol(["danger"], raw="checksum = 12345\n"), "unparsable-manifest")
    add("unparsable-manifest-aasm", ["--deny-caps=danger"], "aasm", pol(["danger"], raw="required_version = 7\n"), "unparsable-manifest")
    # the selected-symbol dotted spelling `needs mod.symbol` / `needs dir.mod.symbol` (rewritten by the loader into a selective import):
    # every policy class must hold for it as for the whole-module spelling
    for imp, tag in (("sentry", "symbol"), ("libs.sentry", "dotted-symbol"), ("libs.deep.sentry", "dotted2-symbol")):
        add(f"{tag}-caps-denied", ["--deny-caps=danger"], "source", pol(["danger"]), "denied-capability", imp=imp, symbol=True)
        add(f"{tag}-std-cap-off", [], "source", pol(["fs"]), "std-capability-off", imp=imp, symbol=True)
        add(f"{tag}-checksum-wrong", [], "source", pol([], "0000000000000000"), "different-checksum", ck_ok=False, imp=imp, symbol=True)
        add(f"{tag}-version-unsatisfied", [], "source", pol([], None, (9, 0, 0)), "unsatisfied-version", imp=imp, symbol=True)
        add(f"{tag}-all-ok", ["--allow-caps=danger"], "source", pol(["danger"], ok_ck, (0, 1, 0)), None, imp=imp, symbol=True)
    add("sentry-alias-version-unsatisfied", [], "source", pol([], None, (9, 0, 0)), "unsatisfied-version", alias="sn")
    add("aasm-caps-denied", ["--deny-caps=danger"], "aasm", pol(["danger"]), "denied-capability")
    add("aasm-checksum-wrong", [], "aasm", pol([], "0000000000000000"), "different-checksum", ck_ok=False)
    add("aasm-version-unsatisfied", [], "aasm", pol([], None, (9, 0, 0)), "unsatisfied-version")
    add("aasm-no-manifest", [], "aasm", None, None)
    add("avbc-plain-caps-denied", ["--deny-caps=danger"], "avbc-plain", pol(["danger"]), "denied-capability")
    add("avbc-plain-checksum-wrong", [], "avbc-plain", pol([], "0000000000000000"), "different-checksum", ck_ok=False)
    add("avbc-bundled-caps-denied", ["--deny-caps=danger"], "avbc-bundled", pol(["danger"]), "denied-capability", embedded=True)
    add("avbc-bundled-allowed", [], "avbc-bundled", pol(["danger"]), None, embedded=True)
    # round 6 reviewer: a bytecode file that carries an EMPTY manifest section of its own (8 bytes appended to a file
    # assembled without one) must not switch the project manifest next to it off
    add("avbc-empty-embedded-manifest-caps-denied", ["--deny-caps=danger"], "avbc-plain", pol(["danger"]), "empty-embedded-manifest-denied-capability", append_manf=True)
    add("avbc-empty-embedded-manifest-checksum-wrong", [], "avbc-plain", pol([], "0000000000000000"), "empty-embedded-manifest-different-checksum", ck_ok=False, append_manf=True)
    add("avbc-empty-embedded-manifest-allowed", ["--allow-caps=danger"], "avbc-plain", pol(["danger"]), None, append_manf=True)
    # round 6: the native name smuggled through a SCRIPT module in a subdirectory that has no manifest of its own
    # (main: `needs plugins.wrap`; plugins/wrap.aelys: `needs sentry`, re-exported): the project manifest still decides
    add("nested-import-caps-denied", ["--deny-caps=danger"], "source", pol(["danger"]), "denied-capability", nested=True)
    add("nested-import-std-cap-off", [], "source", pol(["fs"]), "std-capability-off", nested=True)
    add("nested-import-checksum-wrong", [], "source", pol([], "0000000000000000"), "different-checksum", ck_ok=False, nested=True)
    add("nested-import-allowed", ["--allow-caps=danger"], "source", pol(["danger"], ok_ck), None, nested=True)
    return C


def manifest_toml(p, bundle=False):
    key = p.get("key") or "sentry"
    t = ("[module.%s]\n" % (key if "." not in key else '"%s"' % key)) + "kind = \"native\"\n"
    if p["caps"]:
        t += "capabilities = [" + ", ".join('"%s"' % c for c in p["caps"]) + "]\n"
    if p["checksum"]:
        t += f"checksum = \"{p['checksum']}\"\n"
    if p["version"]:
        t += "required_version = \">=%d.%d.%d\"\n" % p["version"]
    t += p.get("raw", "")
    if bundle:
        t += "\n[build]\nbundle_native_modules = true\n"
    return t


SENTRY_ASM = ".version 1\n.function 0\n  .arity 0\n  .registers 2\n\n  .globals\n    0: \"sentry::touch\"\n\n  .code\n    0000: CallGlobal r0, 0, 0\n    0003: Return    r0\n"


def run_native(ctx, cli, lib, root, stats):
    lib_bytes = open(lib, "rb").read()
    cases = native_cases(fnv1a(lib_bytes))
    obs = []
    for i, c in enumerate(cases):
        d = os.path.join(root, f"nat{i}")
        shutil.rmtree(d, ignore_errors=True)
        os.makedirs(d)
        imp, alias = c.get("import", "sentry"), c.get("alias")
        sub = os.path.join(d, *imp.split(".")[:-1])
        os.makedirs(sub, exist_ok=True)
        shutil.copy(lib, os.path.join(sub, "libsentry.so"))
        if c.get("nested"):
            os.makedirs(os.path.join(d, "plugins"), exist_ok=True)
            shutil.move(os.path.join(sub, "libsentry.so"), os.path.join(d, "plugins", "libsentry.so"))
            open(os.path.join(d, "plugins", "wrap.aelys"), "w").write("needs sentry\npub fn f() { return sentry.touch() }\n")
            open(os.path.join(d, "main.aelys"), "w").write("needs plugins.wrap\nwrap.f()\n")
        elif c.get("symbol"):
            open(os.path.join(d, "main.aelys"), "w").write(f"needs {imp}.touch\ntouch()\n")
        else:
            open(os.path.join(d, "main.aelys"), "w").write(f"needs {imp}" + (f" as {alias}" if alias else "") + f"\n{alias or 'sentry'}.touch()\n")
        target = os.path.join(d, "main.aelys")
        run_dir = d
        if c["route"] == "avbc-bundled":
            open(os.path.join(d, "aelys.toml"), "w").write(manifest_toml(c["policy"], bundle=True))
            rc, out = vlib.sh([cli, "compile", target, "-o", os.path.join(d, "main.avbc")], timeout=120, cwd=d)
            if rc != 0:
                ctx.broken.append("cli: cannot compile the bundled probe: " + out[-300:])
                continue
            run_dir = os.path.join(d, "elsewhere")      # no library, no manifest next to the bytecode
            os.makedirs(run_dir)
            shutil.move(os.path.join(d, "main.avbc"), os.path.join(run_dir, "main.avbc"))
            target = os.path.join(run_dir, "main.avbc")
        else:
            if c["policy"] is not None:
                open(os.path.join(d, "aelys.toml"), "w").write(manifest_toml(c["policy"]))
            if c["route"] in ("aasm", "avbc-plain"):
                open(os.path.join(d, "main.aasm"), "w").write(SENTRY_ASM)
                target = os.path.join(d, "main.aasm")
                if c["route"] == "avbc-plain":
                    rc, out = vlib.sh([cli, "compile", target, "-o", os.path.join(d, "main2.avbc")], timeout=60, cwd=d)
                    if rc != 0:
                        ctx.broken.append("cli: cannot assemble the native probe: " + out[-300:])
                        continue
                    target = os.path.join(d, "main2.avbc")
                    if c.get("append_manf"):
                        open(target, "ab").write(b"MANF" + (0).to_bytes(4, "little"))
        ctor, call = os.path.join(d, "ctor.flag"), os.path.join(d, "call.flag")
        rc, out = vlib.sh([cli, "run"] + c["flags"] + [target], timeout=60, cwd=run_dir,
                          env={"C11_CTOR_SENTINEL": ctor, "C11_CALL_SENTINEL": call})
        cls = stderr_class(rc, out)
        loaded, called = os.path.exists(ctor), os.path.exists(call)
        refusal = {"capability-denied": 1, "checksum-mismatch": 2, "version-mismatch": 4}.get(cls, 0 if cls == "ok" else 9)
        c.update({"class": cls, "loaded": loaded, "called": called, "output": out[-400:]})
        if c["declares"] != "unparsable-manifest" and not c.get("append_manf"):
            obs.append((c["query"], f"[{refusal}; {int(loaded)}; {int(called)}]%N"))
        stats["native_runs"] += 1
        stats["distinct"].add(("native", c["name"]))
        # direct oracle: what the statement forbids
        if c["declares"] and (loaded or called):
            ctx.violation(f"native-module-{'run' if called else 'loaded'}:{c['route']}:{c['declares']}",
                          f"native module with {c['declares']} in the project manifest, imported as `needs {c.get('import', 'sentry')}{'.touch' if c.get('symbol') else ''}"
                          f"{' as ' + c['alias'] if c.get('alias') else ''}`, route {c['route']}, flags {c['flags']}: "
                          f"outcome {cls}, library loaded={loaded}, export called={called}",
                          {"case": c["name"], "import": c.get("import", "sentry"), "alias": c.get("alias"), "flags": c["flags"], "route": c["route"], "manifest": manifest_toml(c["policy"]),
                           "outcome": cls, "loaded": loaded, "called": called, "output": out[-400:]})
        if not c["declares"] and not called:
            ctx.broken.append(f"native probe {c['name']}: permitted module was not run ({cls}): the probe no longer works")
        shutil.rmtree(d, ignore_errors=True)
    fails, err = vlib.coq_eval_cases("c11n", IMPORTS, "route_summary", "nlist_eqb", obs)
    if err:
        ctx.broken.append("correspondence C11/native: model evaluation failed")
        ctx.log(err[-2500:])
    if fails:
        ctx.broken.append(f"correspondence C11/native: native-module decisions differ from Model/Caps.v on {len(fails)} of {len(obs)} cases")
        mo, _ = vlib.coq_eval_terms("c11n", IMPORTS, [f"route_summary {obs[i][0]}" for i in fails[:6]])
        ctx.cov["disagreements_native"] = [{"case": cases[i]["name"], "query": obs[i][0], "implementation": obs[i][1], "model": m}
                                           for i, m in zip(fails[:6], mo)]
    ctx.cov["native_module_cases"] = [{k: c.get(k) for k in ("name", "route", "flags", "declares", "class", "loaded", "called")} for c in cases]
    return len(obs)


def run_start_matrix(ctx, cli, lib, root, stats):
    """the policy a manifest declares must be in force for EVERY way a program can be started:
    entry .aelys / other extension / .aasm / assembled .avbc / compiled .avbc (in place, moved, bundled);
    manifest as `<entry file name>.toml` or as aelys.toml (or embedded by `compile`);
    denied capability => refused (E0407), tampered library => refused (E0408), nothing loaded, nothing called"""
    lib_bytes = open(lib, "rb").read()
    ok_ck = "%016x" % fnv1a(lib_bytes)
    src_text = "needs sentry\nsentry.touch()\n"
    entries = [  # (tag, entry file written, how the run target is produced)
        ("source", "main.aelys", None), ("source-other-ext", "job.ae", None), ("aasm", "main.aasm", None),
        ("avbc-assembled", "main.aasm", "assemble"), ("avbc-compiled", "main.aelys", "compile"),
        ("avbc-compiled-moved", "main.aelys", "compile-move"), ("avbc-compiled-bundled-moved", "main.aelys", "compile-bundle-move"),
    ]
    n = 0
    for tag, entry, how in entries:
        for mloc in ("per-file", "directory"):
            for policy in ("caps-denied", "checksum-tampered", "permitted"):
                if policy == "checksum-tampered" and how == "compile-bundle-move":
                    continue            # the library travels inside the file: there is nothing to tamper with afterwards
                n += 1
                d = os.path.join(root, f"start{n}")
                shutil.rmtree(d, ignore_errors=True)
                os.makedirs(d)
                libp = os.path.join(d, "libsentry.so")
                shutil.copy(lib, libp)
                toml = "[module.sentry]\nkind = \"native\"\ncapabilities = [\"danger\"]\n" + \
                       (f"checksum = \"{ok_ck}\"\n" if policy == "checksum-tampered" else "")
                if how == "compile-bundle-move":
                    toml += "\n[build]\nbundle_native_modules = true\n"
                text = SENTRY_ASM if entry.endswith(".aasm") else src_text
                open(os.path.join(d, entry), "w").write(text)
                # the manifest the user wrote, next to the file he starts with
                target = os.path.join(d, entry)
                run_dir = d
                steps = []
                if how == "assemble":
                    rc, out = vlib.sh([cli, "compile", target, "-o", os.path.join(d, "main.avbc")], timeout=60, cwd=d)
                    steps.append("compile main.aasm -o main.avbc")
                    if rc != 0:
                        ctx.broken.append("start matrix: cannot assemble: " + out[-200:])
                        continue
                    target = os.path.join(d, "main.avbc")
                mname = (os.path.basename(target) + ".toml") if mloc == "per-file" else "aelys.toml"
                if how and how.startswith("compile"):
                    mname = (entry + ".toml") if mloc == "per-file" else "aelys.toml"   # found by `compile`, embedded in the .avbc
                open(os.path.join(d, mname), "w").write(toml)
                if how and how.startswith("compile"):
                    rc, out = vlib.sh([cli, "compile", target, "-o", os.path.join(d, "main.avbc")], timeout=120, cwd=d)
                    steps.append(f"compile {entry} -o main.avbc   (manifest {mname})")
                    if rc != 0:
                        ctx.broken.append(f"start matrix: `compile` fails for {tag}/{mloc}/{policy}: " + out[-200:])
                        continue
                    target = os.path.join(d, "main.avbc")
                    if "move" in how:
                        run_dir = os.path.join(d, "elsewhere")
                        os.makedirs(run_dir)
                        shutil.move(target, os.path.join(run_dir, "main.avbc"))
                        target = os.path.join(run_dir, "main.avbc")
                        if how == "compile-move":
                            shutil.move(libp, os.path.join(run_dir, "libsentry.so"))
                            libp = os.path.join(run_dir, "libsentry.so")
                        steps.append("mv main.avbc" + (" libsentry.so" if how == "compile-move" else "") + " elsewhere/   (no manifest there)")
                if policy == "checksum-tampered":
                    with open(libp, "ab") as f:
                        f.write(b"\0tampered")
                    steps.append("append 9 bytes to libsentry.so")
                flags = ["--deny-caps=danger"] if policy == "caps-denied" else []
                ctor, call = os.path.join(d, "ctor.flag"), os.path.join(d, "call.flag")
                rc, out = vlib.sh([cli, "run"] + flags + [target], timeout=60, cwd=run_dir,
                                  env={"C11_CTOR_SENTINEL": ctor, "C11_CALL_SENTINEL": call})
                steps.append("run " + " ".join(flags + [os.path.relpath(target, d)]))
                cls = stderr_class(rc, out)
                loaded, called = os.path.exists(ctor), os.path.exists(call)
                stats["start_runs"] = stats.get("start_runs", 0) + 1
                stats["distinct"].add(("start", tag, mloc, policy))
                ctx.cov.setdefault("start_matrix", []).append({"entry": tag, "manifest": mloc, "policy": policy, "outcome": cls, "loaded": loaded, "called": called})
                want = {"caps-denied": "capability-denied", "checksum-tampered": "checksum-mismatch"}.get(policy)
                if want:
                    if loaded or called or cls != want:
                        ctx.violation(f"manifest-policy-not-in-force:{tag}:{mloc}:{policy}",
                                      f"entry {tag}, manifest as {mname} ({mloc}), {policy}: expected {want} and nothing loaded, got {cls}, "
                                      f"library loaded={loaded}, export called={called}",
                                      {"entry": tag, "manifest_file": mname, "manifest": toml, "policy": policy, "steps": steps, "flags": flags,
                                       "outcome": cls, "loaded": loaded, "called": called, "output": out[-300:]})
                elif not called:
                    ctx.broken.append(f"start matrix: permitted control {tag}/{mloc} did not run the module ({cls}): the probe no longer works")
                shutil.rmtree(d, ignore_errors=True)


def run(ctx):
    ctx.level = "proof"
    ctx.cov["trusted_base"] = TRUSTED
    ctx.assumptions = [
        "the only ways natives enter a VM are VM init, register_std_module and native-module loading (read from the source; other "
        "embedder APIs such as register_native are outside 'programs written in the language')",
        "the models of parse_vm_args / register_std_module / native-module decisions are the code: contract ties on every run",
    ]
    ctx.cov["refuted_lemmas"] = [
        "version_checked_after_load_refuted (OPEN, KF-C11-1): ELoaded precedes ERefusedVersion (the library is dlopen'ed, its constructors run, "
        "before the version is compared) -- the version exists only inside the loaded descriptor, so checking it earlier is not a small repair",
        "old_routes_ignored_manifest_witness (about the definition BEFORE the repair of KF-C11-2 only); now route_manifest_applies holds for every route",
        "lowering_caps_keeps_natives_registered is still true but harmless: revoked_capability_is_refused (repair of KF-C11-3: per-call checks)",
        "deny_then_allow_order_dependent (recorded, not a violation): for the std bits the last of --deny-caps/--allow-caps wins",
    ]
    proved = ctx.prove("C11", extracted=["StdModules"])
    registration_report(ctx)
    if ctx.tier == "thorough" and proved:
        ctx.coqchk("C11")
    ok, out = vlib.coq_make(["Base/CaseCheck.vo", "Model/Caps.vo"], timeout=900)
    if not ok:
        ctx.broken.append("coq: model files for the C11 ties do not build")
        ctx.log(out[-2000:])
        return
    quick = ctx.tier == "quick"
    root = os.path.join(vlib.CACHE, "caps-%d" % os.getpid())
    shutil.rmtree(root, ignore_errors=True)
    os.makedirs(root)
    stats = {"cli_runs": 0, "native_runs": 0, "denied_attempts": 0, "allowed_effects": 0, "distinct": set()}
    total = 0
    try:
        profiles = ["dev"] if quick else ["dev", "release"]
        for prof in profiles:
            ok, paths, log = vlib.harness_build(["hx_caps"], profile=prof)
            if not ok:
                ctx.broken.append("harness build failed (hx_caps, %s)" % prof)
                ctx.log(log[-3000:])
                return
            exe = paths["hx_caps"]
            # ---- contract tie 1: flag parsing
            rc, out = vlib.sh([exe, "--mode", "parse", "--seed", str(ctx.seed), "--n", str(1200 if quick else 12000)], timeout=600)
            if rc != 0:
                ctx.violation("hx_caps-crash:parse", "parse harness crashed", {"output_tail": out[-2000:]})
                return
            cases = [tuple(l.split("\t")[:2]) for l in out.splitlines() if "\t" in l]
            total += len(cases)
            pd = set(q for q, _ in cases if q != "[]")
            fails, err = vlib.coq_eval_cases("c11p", IMPORTS, "parse_obs", "parse_obs_eqb", cases)
            if err:
                ctx.broken.append("correspondence C11/parse: model evaluation failed")
                ctx.log(err[-2500:])
            if fails:
                ctx.broken.append(f"correspondence C11/parse ({prof}): parse_vm_args and Model/Caps.v differ on {len(fails)} cases")
                bad = [cases[i] for i in fails[:6]]
                mo, _ = vlib.coq_eval_terms("c11p", IMPORTS, [f"parse_obs {q}" for q, _ in bad])
                ctx.cov["disagreements_parse"] = [{"flags": q, "implementation": o, "model": m} for (q, o), m in zip(bad, mo)]
                for (q, o), m in zip(bad, mo):
                    # direct statement of what went wrong for the reader: which configuration does the spelling denote
                    ctx.violation("flag-spelling-denotes-other-config", f"flags {q}: parse_vm_args gives {o}, documented/model {m}",
                                  {"flags": q, "implementation": o, "model": m})
            if cases and prof == profiles[0]:
                ctx.add_samples([{"flags": cases[len(cases) // 2][0], "parsed": cases[len(cases) // 2][1]}])
            # ---- contract tie 2: native registry
            rc, out = vlib.sh([exe, "--mode", "natives", "--seed", str(ctx.seed), "--n", str(6 if quick else 60),
                               "--dir", os.path.join(root, "natives")], timeout=900)
            if rc != 0:
                ctx.violation("hx_caps-crash:natives", "natives harness crashed", {"output_tail": out[-2000:]})
                return
            ncases = [tuple(l.split("\t")[:2]) for l in out.splitlines() if "\t" in l]
            total += len(ncases)
            nd = set(q for q, _ in ncases)
            fails, err = vlib.coq_eval_cases("c11r", IMPORTS, "natives_obs", "sset_eqb", ncases, shard=60)
            if err:
                ctx.broken.append("correspondence C11/natives: model evaluation failed")
                ctx.log(err[-2500:])
            if fails:
                ctx.broken.append(f"correspondence C11/natives ({prof}): VM native registry and reachable_natives differ on {len(fails)} cases")
                for i in fails[:4]:
                    q, o = ncases[i]
                    mo, _ = vlib.coq_eval_terms("c11r", IMPORTS, [f"natives_obs {q}"])
                    got = set(re.findall(r'"([^"]*)"', o))
                    want = set(re.findall(r'"([^"]*)"', mo[0] or ""))
                    extra, missing = sorted(got - want), sorted(want - got)
                    ctx.cov.setdefault("disagreements_natives", []).append({"query": q, "registered_but_not_in_model": extra[:12], "in_model_but_not_registered": missing[:12]})
                    gated_extra = [x for x in extra if x.startswith(("fs::", "net::"))]
                    if gated_extra:
                        ctx.violation("gated-native-registered:" + gated_extra[0].split("::")[0],
                                      f"with {q} the VM registers {gated_extra[:5]} although the model (and the property) say it must not",
                                      {"query": q, "registered": gated_extra[:40]})
            if ncases and prof == profiles[0]:
                q, o = ncases[min(3, len(ncases) - 1)]
                ctx.add_samples([{"natives_query": q, "registry_size": o.count('"') // 2}])
            # ---- direct oracle: sentinels through the API routes
            rc, out = vlib.sh([exe, "--mode", "sentinel", "--dir", os.path.join(root, "sent-" + prof)], timeout=1200)
            if rc != 0:
                ctx.violation("hx_caps-crash:sentinel", "sentinel harness crashed", {"output_tail": out[-2000:]})
                return
            na = 0
            dist = ctx.cov.setdefault("sentinel_distribution", {"route": {}, "module": {}, "outcome_when_denied": {}, "outcome_when_allowed": {}, "spelling": {}})
            for line in out.splitlines():
                f = line.split("\t")
                if f[0] == "A" and len(f) >= 10:
                    na += 1
                    spname, flags, form, module, func, allowed, cls, eff, kind = f[1], f[2], f[3], f[4], f[5], f[6] == "1", f[7], f[8], f[9]
                    stats["distinct"].add(("api", form, module, func, flags))
                    for k, v in (("route", form), ("module", module), ("spelling", spname),
                                 ("outcome_when_allowed" if allowed else "outcome_when_denied", cls)):
                        dist[k][v] = dist[k].get(v, 0) + 1
                    if not allowed:
                        stats["denied_attempts"] += 1
                        if eff != "-" or cls not in DENIED_OK:
                            ctx.violation(f"std-native-exercised:{form}:{module}::{func}:{cls}",
                                          f"{module}.{func} through route '{form}' with {flags} ({prof}): outcome {cls}, effects {eff}",
                                          {"flags": flags.split(), "route": form, "native": f"{module}::{func}", "outcome": cls, "effects": eff,
                                           "detail": f[10] if len(f) > 10 else "", "profile": prof})
                    elif form != "no-needs":
                        if eff == "-" and kind != "value" and not cls.startswith("ok"):
                            ctx.broken.append(f"sentinel insensitive: {module}.{func} via {form} with {flags} allowed but {cls}, no effect")
                        elif eff != "-":
                            stats["allowed_effects"] += 1
                elif f[0] == "L":
                    module, func, cls, eff = f[1], f[2], f[3], f[4]
                    stats["revoked_attempts"] = stats.get("revoked_attempts", 0) + 1
                    if cls not in DENIED_OK or eff != "-":
                        ctx.violation(f"revoked-capability-still-exercised:{module}",
                                      f"std.{module} registered under a permitting configuration, then VM::set_capabilities(none): {module}.{func} still succeeds ({cls}, effects {eff})",
                                      {"module": module, "native": func, "outcome": cls, "effects": eff})
                elif f[0] == "N":
                    ctx.cov["hostname_value_equals_etc_hostname"] = f[3] == "1"   # informational: see hostname_trace below
                elif f[0] == "X":
                    ctx.broken.append("sentinel harness: " + line)
            total += na
            if na < 1000:
                ctx.broken.append("sentinel harness produced too few attempts (%d)" % na)
        # ---- translator audit: ungated natives that touch files / processes / sockets
        ext = open(os.path.join(vlib.COQ, "Extracted", "StdModules.v")).read()
        m = re.search(r"Definition ungated_effectful[^\n]*:= \[(.*?)\]\.", ext)
        for a, b in re.findall(r'\("([^"]+)", "([^"]+)"\)', m.group(1) if m else ""):
            ctx.violation(f"ungated-effect:{a}::{b}",
                          f"native {a}::{b} is registered without any capability and its body uses file/process/socket APIs without a capability test",
                          {"native": f"{a}::{b}", "source": f"runtime/src/stdlib/{a}.rs"})
        # ---- CLI routes
        cli = cli_build(ctx)
        if not cli:
            ctx.broken.append("cli: aelys-cli does not build from the current tree")
        else:
            hostname_trace(ctx, cli, root)
            run_cli_routes(ctx, cli, root, stats)
            lib = native_lib_build(ctx)
            if not lib:
                ctx.broken.append("native probe library does not build against the tree's aelys-native crate")
            else:
                total += run_native(ctx, cli, lib, root, stats)
                run_start_matrix(ctx, cli, lib, root, stats)
                total += stats.get("start_runs", 0)
        total += stats["cli_runs"]
        ctx.cov["evaluations"] = total
        ctx.cov["distinct_nontrivial"] = len(stats["distinct"]) + len(pd) + len(nd)
        ctx.cov["distinct_breakdown"] = {"sentinel attempts (route, native, flags) + cli/native cases": len(stats["distinct"]),
                                         "non-empty flag lists parsed": len(pd), "(flags, request sequence) registry comparisons": len(nd)}
        st = dict(stats)
        st.pop("distinct")
        ctx.cov["sentinel_oracle"] = st
        ctx.cov["rule"] = (
            "sentinel: all 8 subsets of {fs,net,exec} x 5-7 flag spellings (rotated) x 11 routes (needs module / alias / selected symbol / wildcard / "
            "no needs / REPL history / REPL history with alias after another import / user module that re-exports / file / native passed as a callback / native stored in a global and called later) x 18 gated natives "
            "(11 fs, 3 net, 4 exec) against a fresh scratch directory with a victim file and directory, a loopback listener and `touch sentinel`; "
            "start matrix: 7 ways to start (source, source with another extension, .aasm, assembled .avbc, compiled .avbc in place / moved with its library / "
            "bundled and moved) x manifest as `<entry file name>.toml` or aelys.toml x {capability denied, library tampered after the checksum was pinned, permitted control}; "
            "denied => outcome must be CapabilityDenied or an unknown-name error and the directory snapshot, the listener and the sentinel untouched; "
            "allowed => the effect must be seen (sentinel sensitivity). cli: hand-written .aasm and assembled .avbc naming fs::write_text / "
            "net::connect / sys::exec for 8 subsets x 3 spellings. native: 39 manifest/flag/route cases (top-level, dotted path / subdirectory, aliases, for every policy component) with a probe cdylib whose constructor and "
            "export each drop a flag file. parse: all subsets x spellings + seeded flag lists incl. malformed; natives: registry after fixed + "
            "seeded request sequences per subset x spelling. distinct = see distinct_breakdown")
        ctx.cov["input_distribution"] = {"parse": "0-5 flags from 9 templates, ~35% malformed pieces", "natives": "1-5 requests, 25% name lists"}
        ctx.cov["exhaustive"] = False
    finally:
        shutil.rmtree(root, ignore_errors=True)
    if getattr(ctx, "replay_file", None):
        ctx.notes.append("replay: the whole (deterministic, fixed) sentinel matrix was re-run; see the violation list")
