"""C05 -- a call always runs the function its callee currently denotes.
Proof over the inline-cache protocol model (Model/CallCache.v) + observational tie by histories
(hx_callcache): real tag sequence vs the property's reference interpreter (direct oracle) and vs
the Coq model's prediction."""
import json, os, re
import vlib

IMPORTS = "From Aelys Require Import Model.CallCache.\nOpen Scope N_scope."

TRUSTED = [
    "Coq 8.16.1 kernel + vm_compute (Examples, evaluation of the model on the tie's histories)",
    "tools/extractors/c05.py transcribes opcode numbers 77/78/104, MAX_FRAMES, MAX_CALL_SITE_SLOTS and four source-shape "
    "flags (set_global* clear call_site_cache; the 78 fast path checks the entry's owner and the current global; a 104 site "
    "de-specialises itself when its global no longer denotes the cached native; REPL compiler starts slot ids at 0) "
    "from opcode.rs, core.rs, access.rs, call_global*.inc, binary.rs, constructors.rs, repl.rs",
    "Model/CallCache.v is a hand model of opcodes 77/78/104, set_global*, write_function's cache stripping and slot "
    "numbering; globals are identified by name (per-layout index vectors and their synchronisation are C14's model), "
    "arities and the frame/register mechanics of a call are not modelled; tied by hx_callcache on every run",
    "hx_callcache (generator, source renderer, reference interpreter of the property, reading of slot ids / heap indices "
    "from the real VM) and hxlib::runner (output capture hook H1, budget hook H3)",
    "Collect events are covered by the theorem under the assumption that a collection frees no object bound to a global (C03)",
]

# every event / object / value kind of Model/CallCache.v as it appears in the histories the harness emits
MODEL_CLASSES = [
    ("Call", r"\bCall \d+"), ("SetGlobal to a pointer", r"SetGlobal \d+ \(GPtr"), ("SetGlobal to a non-callable", r"SetGlobal \d+ GOther"),
("Alloc of a function", r"mkObj KFn"), ("Alloc of a closure", r"mkObj KClo"),
    ("Alloc of a native", r"mkObj KNat"), ("function body with call sites", r"mkObj K\w+ \d+ \[\d"), ("NewUnit", r"\bNewUnit\b"),
    ("site compiled as a native call (104)", r"mkDecl true"), ("site compiled as a plain call (77)", r"mkDecl false"),
    ("Retire", r"\bRetire\b"), ("SaveReload", r"\bSaveReload\b"), ("Collect", r"\bCollect\b"),
]


def parse_obs(t):
    return [[int(x) for x in re.findall(r"\d+", part)] for part in re.findall(r"\[([^\[\]]*)\]", t)]


def run(ctx):
    ctx.level = "proof"
    ctx.cov["trusted_base"] = TRUSTED
    ctx.assumptions = [
        "the model of the cache protocol is the code: checked on every run by comparing the model's predicted tag sequence "
        "with the real one on all generated histories (including the ones where the real code violates the property)",
        "a garbage collection frees no object that is bound to a global (C03's property)",
    ]
    ctx.cov["refuted_lemmas"] = []
    proved = ctx.prove("C05", extracted=["CallCacheConsts"])
    # whole programs and sessions: the same protocol inside the machine of Model/Session.v (arities, per-layout index
    # vectors, snapshots, frames, the driver loop); the machine itself is tied to the implementation by C14's sessions
    proved2 = ctx.prove("C05Session", extracted=["CallCacheConsts", "ReplShape"])
    if ctx.tier == "thorough" and proved and proved2:
        ctx.coqchk("C05")
        ctx.coqchk("C05Session")
    ok, out = vlib.coq_make(["Base/CaseCheck.vo", "Model/CallCache.vo"])
    if not ok:
        ctx.broken.append("coq: model files for the C05 tie do not build")
        ctx.log(out[-2000:])
        return
    n_cases = 400 if ctx.tier == "quick" else 12000
    # (build profile, optimisation level, cases, seed): quick = one run; thorough = dev + release (overflow checks and debug
    # assertions on / off), every optimisation level, three more seeds
    if ctx.tier == "quick":
        runs = [("dev", 1, n_cases, ctx.seed)]
    else:
        runs = [("dev", 1, n_cases, ctx.seed), ("release", 1, n_cases, ctx.seed), ("dev", 2, n_cases // 2, ctx.seed + 101),
                ("dev", 3, n_cases // 2, ctx.seed + 202), ("release", 3, n_cases // 2, ctx.seed + 303), ("release", 2, n_cases // 4, ctx.seed + 404),
                ("dev", 0, n_cases // 4, ctx.seed + 505)]
    total, ncalls = 0, 0
    distinct = set()
    modes, kinds, by_sig = {}, set(), {}
    model_classes, outcome_classes, sizes = {}, {}, {}
    env_in, env_out = 0, 0
    corpus_cases(ctx)
    for prof, opt_level, n_cases, run_seed in runs:
        ok, paths, log = vlib.harness_build(["hx_callcache"], profile=prof)
        if not ok:
            ctx.broken.append("harness build failed (hx_callcache, %s)" % prof)
            ctx.log(log[-3000:])
            return
        rc, out = vlib.sh([paths["hx_callcache"], "--seed", str(run_seed), "--n", str(n_cases), "--opt", str(opt_level)], timeout=2400)
        cases = []
        for line in out.splitlines():
            f = line.split("\t")
            if len(f) >= 10 and f[0] == "CASE":
                cases.append({"mode": f[1], "seed": f[2], "query": f[3], "observed": f[4], "spec": f[5], "source": f[6],
                              "problems": f[7], "kinds": f[8], "ncalls": int(f[9])})
        if rc != 0 or len(cases) != n_cases:
            ctx.violation("c05:harness-crash", "hx_callcache died (the VM took the process down) after %d cases" % len(cases),
                          {"profile": prof, "opt": opt_level, "seed": run_seed, "completed_cases": len(cases),
                           "cmd": f"hx_callcache --seed {run_seed} --n {n_cases} --opt {opt_level}", "output_tail": out[-1500:]})
            if not cases:
                return
        total += len(cases)
        for c in cases:
            for key, pat in MODEL_CLASSES:
                model_classes[key] = model_classes.get(key, 0) + len(re.findall(pat, c["query"]))
            for step in parse_obs(c["observed"]):
                if step:
                    outcome_classes["step ok" if step[0] == 0 else "step failed (callee not callable / undefined)"] = \
                        outcome_classes.get("step ok" if step[0] == 0 else "step failed (callee not callable / undefined)", 0) + 1
                    for tag in step[2:]:
                        k = "native ran" if tag < 10 else "function / closure ran"
                        outcome_classes[k] = outcome_classes.get(k, 0) + 1
            nin = c["query"].count("NewUnit")
            sizes[nin] = sizes.get(nin, 0) + 1
        for c in cases:
            modes[c["mode"]] = modes.get(c["mode"], 0) + 1
            kinds.update(k for k in c["kinds"].split(",") if k)
            ncalls += c["ncalls"]
            if c["ncalls"] > 0:
                distinct.add(c["source"])
        for c in cases:
            if c["problems"]:
                if "RELOAD-SLOTS-KEPT" in c["problems"]:
                    ctx.broken.append("tie C05: the serializer no longer zeroes slot ids; Model/CallCache.v:reload_site is out of date")
                else:
                    ctx.broken.append("tie C05: harness could not relate the compiled call sites to the generated program: "
                                      + c["problems"][:200])
                ctx.cov.setdefault("harness_problems", []).append({"seed": c["seed"], "mode": c["mode"], "problems": c["problems"][:300]})
                break
        # (1) model prediction == observation, for every history
        # ("script" cases -- captured locals, nested lambdas, imports, the whole-program optimizer -- have their own oracle and
        #  no event history: they only take part in the direct comparison below)
        pairs = [(c["query"], c["observed"]) if c["mode"] != "script" else ("[]", "[]") for c in cases]
        fails, err = vlib.coq_eval_cases("c05", IMPORTS, "session_obs", "obs_eqb", pairs, shard=40)
        if err:
            ctx.broken.append("correspondence C05: model evaluation failed")
            ctx.log(err[-3000:])
        failset = set(fails)
        # (a site that the run rewrote to CallGlobalNative no longer shows its slot id; the harness records 60000 for it.
        #  Such a site never uses its slot again; for the domain check it gets a valid stand-in.)
        # the histories are inside the theorems' domain: env_ok (slot ids fit, allocations use free heap indices,
        # collections free nothing that is bound to a global) holds of every generated history
        outside, err2 = vlib.coq_eval_cases("c05e", IMPORTS + "\nFrom Coq Require Import Bool List.", "(fun q => env_ok init (concat q))", "Bool.eqb",
                                            [(re.sub(r"mkDecl (true|false) 6\d\d\d\d ", r"mkDecl \1 0 ", c["query"]), "true") for c in cases], shard=40)
        if err2:
            ctx.log(err2[-2000:])
        env_in += len(cases) - len(outside)
        env_out += len(outside)
        # (2) direct oracle: observation == the property's reference interpreter.  No failure class is excused any
        # more (KF-C05-1..3 are repaired): every wrong callee is a violation with its session as the failing input
        # concrete failing histories first (they are what a reader needs), then model mismatches
        wrong = [i for i, c in enumerate(cases) if c["observed"] != c["spec"]]
        mism = [i for i, c in enumerate(cases) if c["observed"] == c["spec"] and i in failset]
        for i in wrong[:5] + mism[:3]:
            c = cases[i]
            rep = {"mode": c["mode"], "case_seed": c["seed"], "profile": prof, "opt": opt_level, "seed": run_seed, "source": c["source"],
                   "observed": c["observed"], "spec": c["spec"], "model_query": c["query"]}
            if i in failset:
                mo, _ = vlib.coq_eval_terms("c05", IMPORTS, [f"session_obs ({c['query']})"])
                rep["model"] = mo[0]
            if c["observed"] != c["spec"]:
                ctx.violation("c05:wrong-callee:" + c["mode"], "a call ran a function other than the one its callee denotes "
                              f"(observed {c['observed']}, the property requires {c['spec']})", rep)
            else:
                ctx.violation("c05:model-mismatch:" + c["mode"],
                              "the implementation follows the property here but the model predicts something else: "
                              "Model/CallCache.v no longer describes the code", rep)
        for i in wrong:
            sig = "c05:wrong-callee:" + cases[i]["mode"]
            by_sig[sig] = by_sig.get(sig, 0) + 1
        if mism:
            by_sig["c05:model-mismatch"] = by_sig.get("c05:model-mismatch", 0) + len(mism)
        ctx.add_samples([{"mode": c["mode"], "source": c["source"][:400], "observed": c["observed"], "spec": c["spec"]}
                         for c in cases[:2] + cases[5:6] + cases[8:9]])
    sessions_tie(ctx)
    ctx.cov["evaluations"] = total
    ctx.cov["runs (profile, optimisation level, cases, seed)"] = [list(r) for r in runs]
    ctx.cov["distinct_nontrivial"] = len(distinct)
    ctx.cov["calls_executed_top_level"] = ncalls
    ctx.cov["input_distribution"] = {"modes": modes, "object_kinds_allocated_by_the_programs": sorted(kinds),
                                     "histories_violating_the_property_by_signature": by_sig,
                                     "model_event_classes (occurrences in the histories of this run)": model_classes,
                                     "outcomes": outcome_classes,
                                     "histories_inside_env_ok (the hypothesis of call_runs_current)": env_in,
                                     "histories_outside_env_ok": env_out,
                                     "units_per_history (histogram)": {str(k): v for k, v in sorted(sizes.items())}}
    need = 3 if ctx.tier == "quick" else 30
    starved = [k for k, _ in MODEL_CLASSES if model_classes.get(k, 0) < need]
    if total and starved:
        ctx.broken.append("tie C05: the generator reaches these classes of Model/CallCache.v fewer than %d times: %s" % (need, "; ".join(starved)))
    ctx.cov["rule"] = ("seeded random histories: 50% multi-input REPL sessions on one VM (2-7 inputs), 30% single programs, 20% programs "
                       "run after serialize/deserialize in a fresh VM; statements: fn definitions at three call-graph levels "
                       "(bodies with 0-2 call sites), redefinitions across inputs, let mut / assignments binding leaf functions, "
                       "closures, natives (abs, floor, type) and non-callables, rebinding of the builtin name `type`, calls from "
                       "top-level and body sites; opt level 1 (REPL default) and 0 (every 7th case); every history is checked "
                       "against the reference interpreter of the property (direct oracle) and, exactly, against the Coq model; "
                       "distinct = distinct sources with at least one top-level call; " + SCRIPT_RULE)


IMPORTS_S = "From Aelys Require Import Extracted.CallCacheConsts Extracted.ReplShape Model.Session.\nOpen Scope Z_scope."


SCRIPT_RULE = ("script mode (20% of the cases): whole programs with their own oracle -- (a) one name for a global function and for a local / parameter "
               "captured by closures that call it, the captured one reassigned between calls (also with the global defined by an earlier REPL input); "
               "(b) files: a name bound by an import, a caller declared first and called before and after the name is redefined further down by a "
               "trivial function after effectful statements, padding declarations in between, run through run_file (whole-program optimizer, -O0..-O3); "
               "(c) a capturing closure in a global that creates nested lambdas / functions, called 3-6 times from one site")


def sessions_tie(ctx):
    """The machine under Props/C05Session.v (layouts, arities, frames, calls through values) against the implementation:
    generated REPL sessions (hx_repl, shared with C14) with global calls, calls of function-valued variables and arguments
    (functions and CLOSURES of earlier inputs, from functions without globals of their own), rebindings in the same input,
    host calls.  A step that differs from the session's reference semantics is a call that ran the wrong function (or
    read the wrong global); sessions are also evaluated on Model/Session.v inside Coq."""
    ok, out = vlib.coq_make(["Model/Session.vo"])
    n = 200 if ctx.tier == "quick" else 4000
    runs = [("dev", 1, n, ctx.seed + 7)] if ctx.tier == "quick" else [("dev", 1, n, ctx.seed + 7), ("release", 1, n, ctx.seed + 7), ("dev", 0, n // 2, ctx.seed + 77)]
    total, through_values, closures = 0, 0, 0
    for prof, opt_level, n_cases, run_seed in runs:
        okb, paths, log = vlib.harness_build(["hx_repl"], profile=prof)
        if not okb:
            ctx.broken.append("harness build failed (hx_repl, %s)" % prof)
            ctx.log(log[-3000:])
            return
        rc, outp = vlib.sh([paths["hx_repl"], "--seed", str(run_seed), "--n", str(n_cases), "--opt", str(opt_level)], timeout=2400)
        cases, sess = [], {}
        for line in outp.splitlines():
            f = line.split("\t")
            if len(f) >= 7 and f[0] == "SESS":
                sess[f[1]] = {"ok": f[2] == "1", "code": f[3], "steps": f[4], "expect": f[5]}
            if len(f) >= 9 and f[0] == "CASE":
                cases.append({"seed": f[1], "real": f[4].split(" ;; "), "oracle": f[5].split(" ;; "), "source": f[6], "problems": f[7]})
        if rc != 0 or len(cases) != n_cases:
            ctx.violation("c05:harness-crash", "hx_repl died after %d sessions" % len(cases),
                          {"profile": prof, "cmd": f"hx_repl --seed {run_seed} --n {n_cases} --opt {opt_level}", "output_tail": outp[-1500:]})
            if not cases:
                return
        total += len(cases)
        for c in cases:
            through_values += len(re.findall(r"println\(a\d+\(", c["source"]))
            closures += c["source"].count("fn mkk")
        def first_div(c):
            return next((j for j in range(len(c["real"])) if j >= len(c["oracle"]) or c["real"][j] != c["oracle"][j]), None)
        div = [c for c in cases if first_div(c) is not None]
        scases = [(c, sess[c["seed"]]) for c in cases if first_div(c) is None and c["seed"] in sess and sess[c["seed"]]["ok"]]
        sfails = []
        if ok:
            sfails, serr = vlib.coq_eval_cases("c05s", IMPORTS_S, "session_tie", "sobs_eqb",
                                               [(f"({x['code']}, {x['steps']})", x["expect"]) for _, x in scases], shard=20)
            if serr:
                ctx.broken.append("correspondence C05: evaluation of Model/Session.v failed")
                ctx.log(serr[-2000:])
        for c in div[:4]:
            k = first_div(c)
            ctx.violation("c05:wrong-callee:session", f"step {k} of the session ran / read something else than what its names denote at that moment "
                          f"(real {c['real'][k] if k < len(c['real']) else None!r}, the property requires {c['oracle'][k] if k < len(c['oracle']) else None!r})",
                          {"case_seed": c["seed"], "profile": prof, "opt": opt_level, "source": c["source"], "real_steps": c["real"],
                           "oracle_steps": c["oracle"], "first_step_differing_from_oracle": k})
        for i in sfails[:2]:
            c, x = scases[i]
            ctx.violation("c05:model-mismatch:session", "the session follows the property but Model/Session.v predicts other observations",
                          {"case_seed": c["seed"], "profile": prof, "source": c["source"], "code": x["code"], "steps": x["steps"], "real_observations": x["expect"]})
    ctx.cov["sessions (hx_repl)"] = {"sessions": total, "calls_through_a_function_valued_argument": through_values, "closure_definitions": closures}
    if total and (through_values < 3 or closures < 3):
        ctx.broken.append("tie C05: the session generator no longer reaches calls through values / closures")


def corpus_cases(ctx):
    """Minimised failing histories, replayed first; each is a known finding when it still fails."""
    d = os.path.join(vlib.VERIF, "corpus", "C05")
    if not os.path.isdir(d):
        return
    ok, paths, log = vlib.harness_build(["hx_callcache"])
    if not ok:
        return
    for fn in sorted(os.listdir(d)):
        if not fn.endswith(".json"):
            continue
        spec = json.load(open(os.path.join(d, fn)))
        if spec.get("dir"):
            # a program made of files (imports): DIR/main.aelys run the way `aelys run` does; what it prints vs what the property requires
            rc, out = vlib.sh([paths["hx_callcache"], "--files", os.path.join(d, spec["dir"]), "--opt", str(spec.get("opt", 1))], timeout=120)
            f = (out.splitlines() or ["\t\t"])[0].split("\t")
            got = f[2] if len(f) > 2 and f[1] == "ok" else "<" + (f[1] if len(f) > 1 else "no output") + ">"
            ctx.cov.setdefault("corpus", []).append({"file": fn, "observed": got, "expected_by_property": spec["expected_output"]})
            if got != spec["expected_output"]:
                ctx.violation(spec["signature"], spec["what"] + f" (observed {got!r}, the property requires {spec['expected_output']!r})",
                              {"corpus": fn, "dir": spec["dir"], "files": {x: open(os.path.join(d, spec["dir"], x)).read() for x in sorted(os.listdir(os.path.join(d, spec["dir"])))},
                               "observed": got, "expected": spec["expected_output"]})
            continue
        src = os.path.join(d, spec["session"])
        cmd = [paths["hx_callcache"], "--session", src, "--opt", str(spec.get("opt", 1))]
        if spec.get("reload"):
            cmd.append("--reload")
        rc, out = vlib.sh(cmd, timeout=120)
        got = [l.split("\t")[2] for l in out.splitlines() if "\t" in l]
        want = spec["expected"]
        ctx.cov.setdefault("corpus", []).append({"file": fn, "observed": got, "expected_by_property": want})
        if got != want:
            ctx.violation(spec["signature"], spec["what"] + f" (observed {got}, the property requires {want})",
                          {"corpus": fn, "session": open(src).read(), "observed": got, "expected": want})
