"""C05 -- a call always runs the function its callee currently denotes.
Proof over the inline-cache protocol model (Model/CallCache.v) + observational tie by histories
(hx_callcache): real tag sequence vs the property's reference interpreter (direct oracle) and vs
the Coq model's prediction."""
import json, os, re
import vlib

IMPORTS = "From Aelys Require Import Model.CallCache."

TRUSTED = [
    "Coq 8.16.1 kernel + vm_compute (refutation witnesses, Examples, evaluation of the model on the tie's histories)",
    "tools/extractors/c05.py transcribes opcode numbers 77/78/104, MAX_FRAMES, MAX_CALL_SITE_SLOTS and three source-shape "
    "flags (set_global* clear call_site_cache; 78 fast path does not re-read the global; REPL compiler starts slot ids at 0) "
    "from opcode.rs, core.rs, access.rs, call_global*.inc, binary.rs, constructors.rs, repl.rs",
    "Model/CallCache.v is a hand model of opcodes 77/78/104, set_global*, write_function's cache stripping and slot "
    "numbering; globals are identified by name (per-layout index vectors and their synchronisation are C14's model), "
    "arities and the frame/register mechanics of a call are not modelled; tied by hx_callcache on every run",
    "hx_callcache (generator, source renderer, reference interpreter of the property, reading of slot ids / heap indices "
    "from the real VM) and hxlib::runner (output capture hook H1, budget hook H3)",
    "Collect events are covered by the theorem under the assumption that a collection frees no object bound to a global (C03)",
]

CLASSES = {
    # signature -> (regex in known_findings.jsonl matches these)
    "repl": "c05:repl-slot-collision",
    "unit": "c05:unit-slot-collision",
    "reload": "c05:reload-zeroed-slots",
}


def parse_obs(t):
    return [[int(x) for x in re.findall(r"\d+", part)] for part in re.findall(r"\[([^\[\]]*)\]", t)]


def guard_query(q):
    return f"guard_flags ({q})"


GUARD_DEFS = """
Definition flat (inputs : list (list event)) : list event := List.concat inputs.
(* which guards of the theorem fail somewhere along the (specification's view of the) history:
   [slot ids not injective over live sites; a native-bound name is rebound / a CallGlobalNative site's name no longer denotes a native] *)
Fixpoint guard_scan (st : state) (h : list event) (u n : bool) : bool * bool :=
  match h with
  | [] => (u || negb (unique_slots st), n)
  | e :: r =>
      let n' := n || negb (event_ok st e)
                  || existsb (fun s => s_live s && negb (s_slotted s) &&
                                match resolve st (s_idx s) with ROk _ o => match o_kind o with KNat => false | _ => true end | _ => false end)
                             (sites st) in
      guard_scan (fst (spec_step st e)) r (u || negb (unique_slots st)) n'
  end.
Definition guard_flags (inputs : list (list event)) : list (list N) :=
  let '(u, n) := guard_scan init (flat inputs) false false in [[if u then 1 else 0; if n then 1 else 0]]%N.
"""


def run(ctx):
    ctx.level = "proof"
    ctx.cov["trusted_base"] = TRUSTED
    ctx.assumptions = [
        "the model of the cache protocol is the code: checked on every run by comparing the model's predicted tag sequence "
        "with the real one on all generated histories (including the ones where the real code violates the property)",
        "a garbage collection frees no object that is bound to a global (C03's property)",
    ]
    proved = ctx.prove("C05", extracted=["CallCacheConsts"])
    if ctx.tier == "thorough" and proved:
        ctx.coqchk("C05")
    ok, out = vlib.coq_make(["Base/CaseCheck.vo", "Model/CallCache.vo"])
    if not ok:
        ctx.broken.append("coq: model files for the C05 tie do not build")
        ctx.log(out[-2000:])
        return
    n_cases = 400 if ctx.tier == "quick" else 6000
    profiles = ["dev"] if ctx.tier == "quick" else ["dev", "release"]
    total = 0
    distinct = set()
    modes = {}
    kinds = set()
    known_counts = {}
    ncalls = 0
    # corpus first
    corpus_cases(ctx)
    for prof in profiles:
        ok, paths, log = vlib.harness_build(["hx_callcache"], profile=prof)
        if not ok:
            ctx.broken.append("harness build failed (hx_callcache, %s)" % prof)
            ctx.log(log[-3000:])
            return
        rc, out = vlib.sh([paths["hx_callcache"], "--seed", str(ctx.seed), "--n", str(n_cases)], timeout=1500)
        cases = []
        for line in out.splitlines():
            f = line.split("\t")
            if len(f) >= 10 and f[0] == "CASE":
                cases.append({"mode": f[1], "seed": f[2], "query": f[3], "observed": f[4], "spec": f[5], "source": f[6],
                              "problems": f[7], "kinds": f[8], "ncalls": int(f[9])})
        if rc != 0 or len(cases) != n_cases:
            # the harness died: the case after the last complete one is the culprit
            ctx.violation("c05:harness-crash", "hx_callcache crashed (the VM took the process down) after %d cases" % len(cases),
                          {"profile": prof, "completed_cases": len(cases), "next_case_index": len(cases),
                           "cmd": f"hx_callcache --seed {ctx.seed} --n {n_cases}", "output_tail": out[-1500:]})
            if not cases:
                return
        total += len(cases)
        for c in cases:
            modes[c["mode"]] = modes.get(c["mode"], 0) + 1
            kinds.update(k for k in c["kinds"].split(",") if k)
            ncalls += c["ncalls"]
            if c["ncalls"] > 0:
                distinct.add(c["source"])
        # harness self-consistency (site scan vs generated program)
        for c in cases:
            if c["problems"]:
                if "RELOAD-SLOTS-KEPT" in c["problems"]:
                    ctx.broken.append("tie C05: the serializer no longer zeroes slot ids; Model/CallCache.v:reload_site is out of date")
                else:
                    ctx.broken.append("tie C05: harness could not relate the compiled call sites to the generated program: "
                                      + c["problems"][:200])
                ctx.cov.setdefault("harness_problems", []).append({"seed": c["seed"], "mode": c["mode"], "problems": c["problems"][:300]})
                break
        # model prediction for every history
        pairs = [(c["query"], c["observed"] + "%N") for c in cases]
        fails, err = vlib.coq_eval_cases("c05", IMPORTS, "session_obs", "obs_eqb", pairs, shard=40)
        if err:
            ctx.broken.append("correspondence C05: model evaluation failed")
            ctx.log(err[-3000:])
        failset = set(fails)
        # direct oracle: real vs the property's reference interpreter
        diverging = [i for i, c in enumerate(cases) if c["observed"] != c["spec"]]
        gflags = {}
        if diverging:
            gq = [(c["query"], "[[0;0]]%N") for c in (cases[i] for i in diverging)]
            gf, gerr = vlib.coq_eval_cases("c05g", IMPORTS, "guard_flags", "obs_eqb", gq, shard=40, extra_defs=GUARD_DEFS)
            if gerr:
                ctx.broken.append("correspondence C05: guard evaluation failed")
                ctx.log(gerr[-3000:])
            # a second pass to tell the two guards apart
            gq2 = [(c["query"], "[[1;0]]%N") for c in (cases[i] for i in diverging)]
            gf2, _ = vlib.coq_eval_cases("c05g", IMPORTS, "guard_flags", "obs_eqb", gq2, shard=40, extra_defs=GUARD_DEFS)
            gq3 = [(c["query"], "[[0;1]]%N") for c in (cases[i] for i in diverging)]
            gf3, _ = vlib.coq_eval_cases("c05g", IMPORTS, "guard_flags", "obs_eqb", gq3, shard=40, extra_defs=GUARD_DEFS)
            for k, i in enumerate(diverging):
                if k not in set(gf):
                    gflags[i] = (0, 0)
                elif k not in set(gf2):
                    gflags[i] = (1, 0)
                elif k not in set(gf3):
                    gflags[i] = (0, 1)
                else:
                    gflags[i] = (1, 1)
        nviol = 0
        for i, c in enumerate(cases):
            rep = {"mode": c["mode"], "case_seed": c["seed"], "profile": prof, "source": c["source"],
                   "observed": c["observed"], "spec": c["spec"], "model_query": c["query"]}
            if i in failset:
                # the model does not predict the real behaviour: the tie is broken
                nviol += 1
                if nviol <= 3:
                    mo, _ = vlib.coq_eval_terms("c05", IMPORTS, [f"session_obs ({c['query']})"])
                    rep["model"] = mo[0]
                    what = ("model and implementation differ" if c["observed"] == c["spec"] else
                            "the call ran a callee that is neither what the name denotes nor what the modelled cache protocol predicts")
                    ctx.violation("c05:model-mismatch:" + c["mode"], what, rep)
                continue
            if c["observed"] != c["spec"]:
                u, n = gflags.get(i, (0, 0))
                if u and not n:
                    sig = CLASSES[c["mode"]]
                elif n and not u:
                    sig = "c05:native-site-rebound"
                elif u and n:
                    sig = CLASSES[c["mode"]] + "+native-site-rebound"
                else:
                    sig = "c05:divergence-inside-guard"      # contradicts the theorem: report
                r = ctx.violation(sig, "a call ran a function other than the one its callee denotes "
                                  f"(observed {c['observed']}, specification {c['spec']})", rep)
                known_counts[sig] = known_counts.get(sig, 0) + 1
        ctx.add_samples([{"mode": c["mode"], "source": c["source"][:400], "observed": c["observed"], "spec": c["spec"]}
                         for c in cases[:2] + cases[5:6] + cases[8:9]])
    ctx.cov["evaluations"] = total
    ctx.cov["distinct_nontrivial"] = len(distinct)
    ctx.cov["calls_executed_top_level"] = ncalls
    ctx.cov["input_distribution"] = {"modes": modes, "object_kinds_seen": sorted(kinds),
                                     "diverging_histories_by_class": known_counts}
    ctx.cov["rule"] = ("seeded random histories: 50% multi-input REPL sessions on one VM (2-7 inputs), 30% single programs, 20% programs "
                       "run after serialize/deserialize in a fresh VM; statements: fn definitions at three call-graph levels "
                       "(bodies with 0-2 call sites), redefinitions across inputs, let mut / assignments binding leaf functions, "
                       "closures, natives (abs, floor, type) and non-callables, rebinding of the builtin name `type`, calls from "
                       "top-level and body sites; opt level 1 (REPL default) and 0; distinct = distinct sources with at least one call")


def corpus_cases(ctx):
    """Minimised failing histories, replayed first; each is a known finding when it still fails."""
    d = os.path.join(vlib.VERIF, "corpus", "C05")
    if not os.path.isdir(d):
        return
    ok, paths, log = vlib.harness_build(["hx_callcache"])
    if not ok:
        return
    for fn in sorted(os.listdir(d)):
        if not fn.endswith(".json"):
            continue
        spec = json.load(open(os.path.join(d, fn)))
        src = os.path.join(d, spec["session"])
        cmd = [paths["hx_callcache"], "--session", src, "--opt", str(spec.get("opt", 1))]
        if spec.get("reload"):
            cmd.append("--reload")
        rc, out = vlib.sh(cmd, timeout=120)
        got = [l.split("\t")[2] for l in out.splitlines() if "\t" in l]
        want = spec["expected"]
        ctx.cov.setdefault("corpus", []).append({"file": fn, "observed": got, "expected_by_property": want})
        if got != want:
            ctx.violation(spec["signature"], spec["what"] + f" (observed {got}, the property requires {want})",
                          {"corpus": fn, "session": open(src).read(), "observed": got, "expected": want})
