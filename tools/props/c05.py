"""C05 -- a call always runs the function its callee currently denotes.
Proof over the inline-cache protocol model (Model/CallCache.v) + observational tie by histories
(hx_callcache): real tag sequence vs the property's reference interpreter (direct oracle) and vs
the Coq model's prediction."""
import json, os, re
import vlib

IMPORTS = "From Aelys Require Import Model.CallCache.\nOpen Scope N_scope."

TRUSTED = [
    "Coq 8.16.1 kernel + vm_compute (refutation witnesses, Examples, evaluation of the model on the tie's histories)",
    "tools/extractors/c05.py transcribes opcode numbers 77/78/104, MAX_FRAMES, MAX_CALL_SITE_SLOTS and three source-shape "
    "flags (set_global* clear call_site_cache; 78 fast path does not re-read the global; REPL compiler starts slot ids at 0) "
    "from opcode.rs, core.rs, access.rs, call_global*.inc, binary.rs, constructors.rs, repl.rs",
    "Model/CallCache.v is a hand model of opcodes 77/78/104, set_global*, write_function's cache stripping and slot "
    "numbering; globals are identified by name (per-layout index vectors and their synchronisation are C14's model), "
    "arities and the frame/register mechanics of a call are not modelled; tied by hx_callcache on every run",
    "hx_callcache (generator, source renderer, reference interpreter of the property, reading of slot ids / heap indices "
    "from the real VM) and hxlib::runner (output capture hook H1, budget hook H3)",
    "Collect events are covered by the theorem under the assumption that a collection frees no object bound to a global (C03)",
]

SIG_BY_MODE = {"repl": "c05:repl-slot-collision", "reload": "c05:reload-zeroed-slots", "unit": "c05:unit-slot-collision"}


def parse_obs(t):
    return [[int(x) for x in re.findall(r"\d+", part)] for part in re.findall(r"\[([^\[\]]*)\]", t)]


def agrees_through_first_divergence(real, spec, model):
    """real/spec/model: per-input [status, count, tags...].  Inputs before the first diverging one
    must be predicted exactly; in the diverging input the model must predict the real tags up to
    and including the first tag that differs from the specification (after a call has entered the
    wrong body the VM runs that body under a foreign frame identity, which the model does not
    describe).  Returns None when fine, else a description."""
    for k, (r, s_) in enumerate(zip(real, spec)):
        if k >= len(model):
            return f"model has no prediction for input {k}"
        m = model[k]
        if r == s_:
            if m != r:
                return f"input {k}: model {m} != observed {r}"
            continue
        rt, st_, mt = r[2:], s_[2:], m[2:]
        j = 0
        while j < len(rt) and j < len(st_) and rt[j] == st_[j]:
            j += 1
        if m[0] == 5:
            # the model stops at a call whose outcome it does not describe (OConfused: the 78 fast path fell
            # through to the miss path after switching the index layout): everything printed before that
            # call must match, and that call must not come after the first visible divergence
            if len(mt) <= j:
                if mt == rt[:len(mt)]:
                    return None
                return f"input {k}: model stops (layout confusion) after tags {mt}, observed {rt[:j + 1]}"
            # the confusion comes after the first wrong callee: the ordinary rule applies
        upto = min(j + 1, len(rt))
        if mt[:upto] != rt[:upto]:
            return f"input {k}: model tags {mt[:upto]} != observed tags {rt[:upto]} (through the first wrong callee)"
        if j >= len(rt) and m[0] != r[0] and len(rt) < 24:
            return f"input {k}: model status {m[0]} != observed status {r[0]}"
        return None
    return None


def run(ctx):
    ctx.level = "proof"
    ctx.cov["trusted_base"] = TRUSTED
    ctx.assumptions = [
        "the model of the cache protocol is the code: checked on every run by comparing the model's predicted tag sequence "
        "with the real one on all generated histories (including the ones where the real code violates the property)",
        "a garbage collection frees no object that is bound to a global (C03's property)",
    ]
    ctx.cov["refuted_lemmas"] = ["call_runs_current (unconditional, every history): refuted by repl_slot_collision_refuted, "
                                 "reload_zeroed_slots_refuted, native_rebind_stale_refuted"]
    proved = ctx.prove("C05", extracted=["CallCacheConsts"])
    if ctx.tier == "thorough" and proved:
        ctx.coqchk("C05")
    ok, out = vlib.coq_make(["Base/CaseCheck.vo", "Model/CallCache.vo"])
    if not ok:
        ctx.broken.append("coq: model files for the C05 tie do not build")
        ctx.log(out[-2000:])
        return
    n_cases = 400 if ctx.tier == "quick" else 5000
    profiles = ["dev"] if ctx.tier == "quick" else ["dev", "release"]
    total, ncalls = 0, 0
    distinct = set()
    modes, kinds, by_sig = {}, set(), {}
    corpus_cases(ctx)
    for prof in profiles:
        ok, paths, log = vlib.harness_build(["hx_callcache"], profile=prof)
        if not ok:
            ctx.broken.append("harness build failed (hx_callcache, %s)" % prof)
            ctx.log(log[-3000:])
            return
        rc, out = vlib.sh([paths["hx_callcache"], "--seed", str(ctx.seed), "--n", str(n_cases)], timeout=1500)
        cases = []
        for line in out.splitlines():
            f = line.split("\t")
            if len(f) >= 10 and f[0] == "CASE":
                cases.append({"mode": f[1], "seed": f[2], "query": f[3], "observed": f[4], "spec": f[5], "source": f[6],
                              "problems": f[7], "kinds": f[8], "ncalls": int(f[9])})
        if rc != 0 or len(cases) != n_cases:
            ctx.violation("c05:harness-crash", "hx_callcache died (the VM took the process down) after %d cases" % len(cases),
                          {"profile": prof, "completed_cases": len(cases),
                           "cmd": f"hx_callcache --seed {ctx.seed} --n {n_cases}", "output_tail": out[-1500:]})
            if not cases:
                return
        total += len(cases)
        for c in cases:
            modes[c["mode"]] = modes.get(c["mode"], 0) + 1
            kinds.update(k for k in c["kinds"].split(",") if k)
            ncalls += c["ncalls"]
            if c["ncalls"] > 0:
                distinct.add(c["source"])
        for c in cases:
            if c["problems"]:
                if "RELOAD-SLOTS-KEPT" in c["problems"]:
                    ctx.broken.append("tie C05: the serializer no longer zeroes slot ids; Model/CallCache.v:reload_site is out of date")
                else:
                    ctx.broken.append("tie C05: harness could not relate the compiled call sites to the generated program: "
                                      + c["problems"][:200])
                ctx.cov.setdefault("harness_problems", []).append({"seed": c["seed"], "mode": c["mode"], "problems": c["problems"][:300]})
                break
        # (1) model prediction == observation, for every history
        pairs = [(c["query"], c["observed"]) for c in cases]
        fails, err = vlib.coq_eval_cases("c05", IMPORTS, "session_obs", "obs_eqb", pairs, shard=40)
        if err:
            ctx.broken.append("correspondence C05: model evaluation failed")
            ctx.log(err[-3000:])
        failset = set(fails)
        # (2) direct oracle: observation == the property's reference interpreter
        diverging = [i for i, c in enumerate(cases) if c["observed"] != c["spec"]]
        need_model = sorted(set(diverging) & failset)
        model_obs = {}
        if need_model:
            mo, _e2 = vlib.coq_eval_terms("c05", IMPORTS, [f"session_obs ({cases[i]['query']})" for i in need_model])
            for i, m in zip(need_model, mo):
                model_obs[i] = parse_obs(m.split(":")[0]) if m else None
        causes = {}
        if diverging:
            dg, _e3 = vlib.coq_eval_terms("c05", IMPORTS, [f"diagnose ({cases[i]['query']})" for i in diverging])
            for i, d in zip(diverging, dg):
                mm = re.search(r"=\s*(\d+)", d or "")
                causes[i] = int(mm.group(1)) if mm else -1
        nrep = 0
        for i, c in enumerate(cases):
            rep = {"mode": c["mode"], "case_seed": c["seed"], "profile": prof, "source": c["source"],
                   "observed": c["observed"], "spec": c["spec"], "model_query": c["query"]}
            if c["observed"] == c["spec"]:
                if i in failset:
                    nrep += 1
                    if nrep <= 3:
                        mo, _ = vlib.coq_eval_terms("c05", IMPORTS, [f"session_obs ({c['query']})"])
                        rep["model"] = mo[0]
                        ctx.violation("c05:model-mismatch:" + c["mode"],
                                      "the implementation follows the property here but the model predicts something else: "
                                      "Model/CallCache.v no longer describes the code", rep)
                continue
            # the property is violated on this history
            real, spec = parse_obs(c["observed"]), parse_obs(c["spec"])
            if i in failset:
                m = model_obs.get(i)
                why = "no model output" if m is None else agrees_through_first_divergence(real, spec, m)
                if why:
                    rep["model"] = m
                    rep["why"] = why
                    ctx.violation("c05:unexplained-wrong-callee:" + c["mode"],
                                  "a call ran a callee that is neither what the name denotes nor what the modelled "
                                  "cache protocol does: " + why, rep)
                    continue
            cause = causes.get(i, -1)
            if cause == 1:
                sig = SIG_BY_MODE[c["mode"]]          # a 78 site used a cache entry that is not its own
            elif cause == 2:
                sig = "c05:native-site-rebound"       # a 104 site did not follow the rebinding
            elif cause == 4:
                sig = "c05:stale-entry-after-rebinding:" + c["mode"]   # own slot, own outdated entry: invalidation missing
            else:
                sig = f"c05:wrong-callee-cause-{cause}:" + c["mode"]
            rep["cause"] = cause
            ctx.violation(sig, "a call ran a function other than the one its callee denotes "
                          f"(observed {c['observed']}, the property requires {c['spec']})", rep)
            by_sig[sig] = by_sig.get(sig, 0) + 1
        ctx.add_samples([{"mode": c["mode"], "source": c["source"][:400], "observed": c["observed"], "spec": c["spec"]}
                         for c in cases[:2] + cases[5:6] + cases[8:9]])
    ctx.cov["evaluations"] = total
    ctx.cov["distinct_nontrivial"] = len(distinct)
    ctx.cov["calls_executed_top_level"] = ncalls
    ctx.cov["input_distribution"] = {"modes": modes, "object_kinds_seen": sorted(kinds),
                                     "histories_violating_the_property_by_signature": by_sig}
    ctx.cov["rule"] = ("seeded random histories: 50% multi-input REPL sessions on one VM (2-7 inputs), 30% single programs, 20% programs "
                       "run after serialize/deserialize in a fresh VM; statements: fn definitions at three call-graph levels "
                       "(bodies with 0-2 call sites), redefinitions across inputs, let mut / assignments binding leaf functions, "
                       "closures, natives (abs, floor, type) and non-callables, rebinding of the builtin name `type`, calls from "
                       "top-level and body sites; opt level 1 (REPL default) and 0 (every 7th case); every history is checked "
                       "against the reference interpreter of the property (direct oracle) and against the Coq model "
                       "(exactly when the property holds on it; through the first wrong callee when it does not); "
                       "distinct = distinct sources with at least one top-level call")


def corpus_cases(ctx):
    """Minimised failing histories, replayed first; each is a known finding when it still fails."""
    d = os.path.join(vlib.VERIF, "corpus", "C05")
    if not os.path.isdir(d):
        return
    ok, paths, log = vlib.harness_build(["hx_callcache"])
    if not ok:
        return
    for fn in sorted(os.listdir(d)):
        if not fn.endswith(".json"):
            continue
        spec = json.load(open(os.path.join(d, fn)))
        src = os.path.join(d, spec["session"])
        cmd = [paths["hx_callcache"], "--session", src, "--opt", str(spec.get("opt", 1))]
        if spec.get("reload"):
            cmd.append("--reload")
        rc, out = vlib.sh(cmd, timeout=120)
        got = [l.split("\t")[2] for l in out.splitlines() if "\t" in l]
        want = spec["expected"]
        ctx.cov.setdefault("corpus", []).append({"file": fn, "observed": got, "expected_by_property": want})
        if got != want:
            ctx.violation(spec["signature"], spec["what"] + f" (observed {got}, the property requires {want})",
                          {"corpus": fn, "session": open(src).read(), "observed": got, "expected": want})
