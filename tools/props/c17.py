"""C17 -- Lowering to AIR always yields well-formed, fully monomorphic IR.

Proof (Props/C17.v over Model/AirLower.v + Model/Mono.v) + ties (hx_air):
  (a) direct oracle: an independent validator written in the harness, applied to the real
      AirProgram before and after monomorphisation (model-independent);
  (b) contract tie for the block-structure skeleton: canonical (id, terminator targets) lists of
      the real lower() vs the Coq model's prediction, on every generated function;
  (c) contract tie for monomorphisation: instances created, per-function types, call sites and
      StructInit names (canonical, independent of the HashMap order) vs the Coq model.
Validator findings are classified by root-cause signature; the known ones are listed in
known_findings.jsonl, anything else is a VIOLATION."""
import ast, hashlib, json, os, re
import vlib

TRUSTED = [
    "Coq 8.16.1 kernel + vm_compute (witness evaluation, one small sweep for mono_closed; the lowering theorems are unbounded inductions)",
    "tools/extractors/c17.py recomputes MAX_MONO_ROUNDS and 24 structural flags (match arms under which substitute_type / "
    "unify_param recurse, order of the name checks in lower_type_from_infer, guard conditions of finalize / noop, fields saved by "
    "lower_function, ...) from the current source text; theorem C17_source_structure_assumed_by_the_models pins them",
    "Model/AirLower.v is a hand model of air/src/lower.rs restricted to what decides block structure "
    "(block-id allocation, seal/pending/fixup/alias/finalize, statement emission, name table, lower_function "
    "save/restore); tied on every run by hx_air (canonical block lists must be equal)",
    "Model/Mono.v is a hand model of air/src/mono.rs (requests, instantiate rounds, substitution, per-call-site "
    "rewriting); tied on every run (instances, types, exact callee of every call, StructInit names)",
    "hook 3c2a53e (cfg vbxq_aelys_lang_verif): aelys_air::mono::verif exposes type_to_string / substitute_type / infer_type_args "
    "to the harness for the function-level ties on random types (incl. Ptr and fixed Array, which lower() never produces)",
    "hx_air's typed-AST -> skeleton and AirProgram -> Mono-model translations (structural maps; an error shows up as a tie mismatch)",
    "the validator in hx_air (mod validate) is the statement of the property on the real data structure; "
    "'argument types at a call' are the AIR operand types (constants by literal kind, locals by declaration)",
    "statement contents (operands, operators, constants) are not modelled: the theorems carry the CFG/mono structure, "
    "the per-local and per-struct clauses of lower() are checked only by the validator on generated programs",
    "mono_closed: CFG preservation and exactness of redirected calls are unbounded; 'no type parameter left / structs exist / "
    "every generic call redirected' is proved on a bounded family (9724 programs) and explored by the validator",
]

IMPORT_SK = "From Aelys Require Import Model.AirLower.\nLocal Open Scope N_scope."
IMPORT_MO = "From Aelys Require Import Model.AirLower Model.Mono.\nLocal Open Scope N_scope."
IMPORT_MC = "From Aelys Require Import Model.AirLower Model.Mono Proofs.MonoClosed.\nLocal Open Scope N_scope."
IMPORT_LO = "From Aelys Require Import Model.AirLower Model.AirLocals.\nLocal Open Scope N_scope."
IMPORT_TY = "From Aelys Require Import Model.AirLower Model.Mono Model.AirTypes.\nLocal Open Scope N_scope."

REFUTED = ["mono_closed (C17_mono_closed_refuted, C17_generic_struct_field_refuted: generic structs are never "
           "instantiated, KF-C17-5 open); lower_wf is no longer refuted: it is proved without guard after the repairs"]

# validator kind -> signature (dangling targets are refined with the model's ghost fields)
KIND_SIG = {
    "call-wrong-instance-of-several": "mono:call-redirected-to-first-instance-of-several",
    "struct-missing-init-renamed": "mono:structinit-renamed-to-missing-struct",
    "type-param-in-reachable-struct": "mono:generic-struct-keeps-param-field",
    "type-param-in-nested-function-of-generic": "lower:closure-in-generic-keeps-type-param",
    "type-param-in-closure-env-of-generic": "lower:closure-in-generic-keeps-type-param",
    "struct-missing-init-undeclared": "sema:literal-of-undeclared-struct-accepted",
    "struct-missing-init:declared-in-toplevel-statement": "lower:struct-in-toplevel-statement-not-lowered",
    "struct-missing-init:declaration-removed-by-optimizer": "opt:struct-declaration-removed-as-dead-code",
    "generic-callee-not-instantiated:type-param-not-in-any-parameter": "mono:type-param-in-no-parameter-cannot-be-inferred",
    "generic-closure-callee-not-instantiated": "mono:generic-closure-env-shifts-argument-pairing",
    "generic-closure-call-wrong-instance": "mono:generic-closure-env-shifts-argument-pairing",
    "generic-callee-not-instantiated:type-param-named-like-builtin": "sema:type-param-named-like-builtin-read-as-builtin",
    "generic-callee-not-instantiated:argument-is-generic-call-result": "sema:generic-call-result-unresolved-as-argument",
    "generic-callee-in-instance": "mono:generic-callee-in-instance-never-requested",
    "instance-call-no-exact-instance": "mono:generic-callee-in-instance-never-requested",
    "struct-missing-type-param-name:in-caller": "lower:type-param-name-as-struct:generic-result-in-caller",
    "struct-missing-type-param-name:in-generic": "lower:type-param-name-as-struct:after-nested-fn-in-generic",
}


def parse_coq_list(txt):
    """'= [([2], []); ...] : type' -> python value"""
    t = txt.strip()
    if t.startswith("="):
        t = t[1:]
    depth, cut = 0, None
    for i, ch in enumerate(t):
        if ch in "[(":
            depth += 1
        elif ch in "])":
            depth -= 1
        elif ch == ":" and depth == 0:
            cut = i
            break
    if cut is not None:
        t = t[:cut]
    t = t.replace("%N", "").replace(";", ",")
    return ast.literal_eval(t.strip())


def run_harness(ctx, path, args):
    rc, out = vlib.sh([path] + args, timeout=1500)
    if rc != 0:
        ctx.violation("hx_air-crash", "AIR harness crashed outside catch_unwind", {"args": args, "output_tail": out[-2000:]})
        return None
    return out


def run(ctx):
    ctx.level = "proof"
    ctx.cov["trusted_base"] = TRUSTED
    ctx.cov["refuted_lemmas"] = REFUTED
    ctx.assumptions = [
        "the skeleton and mono models are the code: checked by the two contract ties below on every generated program",
        "programs are drawn from the generator described in input_distribution (break/continue only inside a loop of the same "
        "function, because the rest of the toolchain rejects the others; the lowering theorem itself needs no such guard)",
    ]
    proved = ctx.prove("C17", extracted=["MonoConsts", "LowerFlags"])
    if ctx.tier == "thorough" and proved:
        ctx.coqchk("C17")
    ok, out = vlib.coq_make(["Base/CaseCheck.vo", "Model/AirLower.vo", "Model/Mono.vo", "Model/AirTypes.vo", "Model/AirLocals.vo"])
    if not ok:
        ctx.broken.append("coq: model files for the C17 tie do not build")
        ctx.log(out[-2000:])
        return
    # the guard of the unbounded mono theorem is evaluated on generated programs only when its file builds;
    # a broken proof must not stop the search for a failing input
    okg, outg = vlib.coq_make(["Proofs/MonoClosed.vo"])
    ctx.guard_available = okg
    if not okg and not ctx.broken:
        ctx.broken.append("coq: Proofs/MonoClosed.vo does not build")
    ok, paths, log = vlib.harness_build(["hx_air"], profile="dev")
    if not ok:
        ctx.broken.append("harness build failed (hx_air)")
        ctx.log(log[-3000:])
        return
    hx = paths["hx_air"]
    if getattr(ctx, "replay_file", None):
        rp = json.load(open(ctx.replay_file))
        src = rp.get("replay", {}).get("source")
        if src is None:
            ctx.broken.append("replay file has no source")
            return
        out = run_harness(ctx, hx, ["--count", "0", "--source-escaped", src.replace("\\", "\\\\").replace("\n", "\\n").replace("\t", "\\t")])
    else:
        corpus = os.path.join(vlib.VERIF, "corpus", "C17")
        if ctx.tier == "quick":
            runs = [("dev", ctx.seed, 400, "sema,O2", True)]
        else:
            # thorough: three seeds, every optimisation level in front of the lowering, dev and release harness
            okr, rpaths, rlog = vlib.harness_build(["hx_air"], profile="release")
            runs = [("dev", ctx.seed, 1500, "sema,O1,O2,O3", True),
                    ("dev", ctx.seed + 1000, 1500, "sema,O1,O2,O3", False),
                    ("dev", ctx.seed + 3000, 1500, "sema,O1,O2,O3", False)]
            if okr:
                runs.append(("release", ctx.seed + 2000, 1500, "sema,O2", True))
            else:
                ctx.notes.append("release harness did not build; thorough tier ran dev only")
        merged, stat = [], {}
        for k, (prof, sd, n, modes, with_corpus) in enumerate(runs):
            binp = hx if prof == "dev" else rpaths["hx_air"]
            args = ["--seed", str(sd), "--count", str(n), "--modes", modes]
            if with_corpus:
                args += ["--corpus", corpus]
            if k == 0:
                args += ["--typefn", "400" if ctx.tier == "quick" else "3000"]
            o = run_harness(ctx, binp, args)
            if o is None:
                return
            for line in o.splitlines():
                f = line.split("\t")
                if f[0] == "STAT":
                    stat[f[1]] = stat.get(f[1], 0) + int(f[2])
                elif f[0] in ("FK", "FS", "FI"):
                    merged.append(line)
                elif len(f) > 1:
                    f[1] = f"{prof}{k}:{f[1]}"
                    merged.append("\t".join(f))
        merged += [f"STAT\t{a}\t{b}" for a, b in sorted(stat.items())]
        ctx.cov["harness_runs"] = [{"profile": p_, "seed": sd, "programs": n, "modes": m_} for (p_, sd, n, m_, _) in runs]
        out = "\n".join(merged)
    if out is None:
        return
    analyse(ctx, out)


def _guard_check(ctx, vs, mo, src, unesc):
    # holds for the program the real lower() produced, the validator must find nothing after mono
    # (findings of the open class "environment parameter in the pairing" are outside the model's own notion of
    # "argument types at the call" as long as the code pairs that way: not a contradiction of the theorem)
    post_bad = {(v["case"], v["mode"]) for v in vs if v["stage"] == "post"
                and KIND_SIG.get(v["kind"]) != "mono:generic-closure-env-shifts-argument-pairing"}
    g_cases = [(f"(({q}) : mprog)", "true" if (c, m) in post_bad else "false") for (c, m, q, _) in mo]
    gfails, err = vlib.coq_eval_cases("c17g", IMPORT_MC, "mono_guard", "(fun g v => implb g (negb v))", g_cases,
                                      shard=min(150, max(40, len(g_cases) // 16 + 1)), timeout=1500)
    if err:
        ctx.broken.append("C17/mono guard: model evaluation failed")
        ctx.log(err[-3000:])
    if gfails:
        ctx.broken.append(f"C17/mono guard: on {len(gfails)} programs the guard of the mono_closed theorem holds but the validator "
                          "reports a finding after monomorphisation (model, translation or validator wrong)")
        ctx.cov["guard_contradictions"] = [{"case": mo[i][0], "mode": mo[i][1], "source": unesc(src.get(mo[i][0], ""))} for i in gfails[:3]]
    nog, err2 = vlib.coq_eval_cases("c17g2", IMPORT_MC, "mono_guard", "(fun g (_ : bool) => g)", g_cases,
                                    shard=min(150, max(40, len(g_cases) // 16 + 1)), timeout=1500)
    ctx.cov["mono_theorem_guard_holds_on"] = f"{len(g_cases) - len(nog)} of {len(g_cases)} generated lowerings"



def analyse(ctx, out):
    src, sk, mo, vs, stats, panics, rej, tyc, loc = {}, [], [], [], {}, [], 0, [], []
    fnc = {"FK": [], "FS": [], "FI": []}
    pdiff = []
    for line in out.splitlines():
        f = line.split("\t")
        if f[0] == "SRC":
            src[f[1]] = f[2]
        elif f[0] == "SK":
            sk.append((f[1], f[2], f[3], f[4]))
        elif f[0] == "MO":
            mo.append((f[1], f[2], f[3], f[4]))
        elif f[0] == "TY":
            tyc.append((f[1], f[2], f[3], f[4]))
        elif f[0] == "LO":
            loc.append((f[1], f[2], f[3], f[4]))
        elif f[0] in ("FK", "FS", "FI"):
            fnc[f[0]].append((f[1], f[2]))
        elif f[0] == "PD":
            pdiff.append(f)
        elif f[0] == "V":
            vs.append(dict(case=f[1], mode=f[2], stage=f[3], fn=int(f[4]), name=f[5], kind=f[6], detail=f[7] if len(f) > 7 else ""))
        elif f[0] == "STAT":
            stats[f[1]] = int(f[2])
        elif f[0] == "PANIC":
            panics.append(f)
        elif f[0] == "REJ":
            rej += 1

    def unesc(s):
        return s.replace("\\n", "\n").replace("\\t", "\t").replace("\\\\", "\\")

    # ---- panics inside lower / compute_layouts / monomorphize
    for p in panics[:3]:
        ctx.violation("air-panic:" + p[3], "panic in " + p[3] + ": " + p[4][:200],
                      {"source": unesc(src.get(p[1], "")), "mode": p[2], "panic": p[4]})

    # ---- the driver's AirLowerStage must give what the library path (lower + try_compute_layouts + monomorphize) gives
    if pdiff:
        f0 = sorted(pdiff, key=lambda f: (not f[1].split(":", 1)[-1].startswith("corpus:"), len(src.get(f[1], ""))))[0]
        ctx.violation("pipeline:air-lower-stage-differs-from-library-path",
                      f"the AIR returned by the driver's AirLowerStage differs from lower + try_compute_layouts + monomorphize "
                      f"on {len({f[1] for f in pdiff})} programs",
                      {"source": unesc(src.get(f0[1], "")), "case": f0[1], "mode": f0[2],
                       "library_path": f0[3][:1500] if len(f0) > 3 else "", "pipeline_stage": f0[4][:1500] if len(f0) > 4 else "",
                       "oracle": "the same typed program through both entry points"})
    ctx.cov["pipeline_stage_differences"] = len(pdiff)

    # ---- (b) skeleton contract tie
    sk_cases = [(q, f"(({o}) : list (list (list N)))") for (_, _, q, o) in sk]
    fails, err = vlib.coq_eval_cases("c17sk", IMPORT_SK, "obs", "nlist3_eqb", sk_cases, shard=min(150, max(40, len(sk_cases) // 16 + 1)), timeout=1500)
    if err:
        ctx.broken.append("correspondence C17/skeleton: model evaluation failed")
        ctx.log(err[-3000:])
    sk_bad = set()
    if fails:
        ctx.broken.append(f"correspondence C17/skeleton: model and lower() differ on {len(fails)} of {len(sk_cases)} programs")
        bad = [sk[i] for i in fails[:4]]
        mres, _ = vlib.coq_eval_terms("c17sk", IMPORT_SK, [f"obs ({q})" for (_, _, q, _) in bad])
        ctx.cov["skeleton_disagreements"] = [
            {"case": c, "mode": m, "source": unesc(src.get(c, "")), "implementation": o, "model": r}
            for (c, m, _, o), r in zip(bad, mres)]
        d0 = ctx.cov["skeleton_disagreements"][0]
        ctx.violation("tie:skeleton", "block structure of lower() differs from the proved model on this input (the theorems about the model no longer describe the code)",
                      {"source": d0["source"], "case": d0["case"], "mode": d0["mode"], "implementation": d0["implementation"],
                       "model": d0["model"], "oracle": "contract tie"})
        sk_bad = {(sk[i][0], sk[i][1]) for i in fails}
    # ---- (c) mono contract tie
    mo_cases = [(f"(({q}) : mprog)", f"(({o}) : mono_obs_t)") for (_, _, q, o) in mo]
    mfails, err = vlib.coq_eval_cases("c17mo", IMPORT_MO, "mono_obs", "mono_obs_eqb", mo_cases, shard=min(150, max(40, len(mo_cases) // 16 + 1)), timeout=1500)
    if err:
        ctx.broken.append("correspondence C17/mono: model evaluation failed")
        ctx.log(err[-3000:])
    if mfails:
        ctx.broken.append(f"correspondence C17/mono: model and monomorphize() differ on {len(mfails)} of {len(mo_cases)} programs")
        bad = [mo[i] for i in mfails[:3]]
        mres, _ = vlib.coq_eval_terms("c17mo", IMPORT_MO, [f"mono_obs ({q})" for (_, _, q, _) in bad])
        ctx.cov["mono_disagreements"] = [
            {"case": c, "mode": m, "source": unesc(src.get(c, "")), "implementation": o, "model": r}
            for (c, m, _, o), r in zip(bad, mres)]
        d0 = ctx.cov["mono_disagreements"][0]
        ctx.violation("tie:mono", "result of monomorphize() differs from the proved model on this input (the theorems about the model no longer describe the code)",
                      {"source": d0["source"], "case": d0["case"], "mode": d0["mode"], "implementation": d0["implementation"],
                       "model": d0["model"], "oracle": "contract tie"})

    if getattr(ctx, 'guard_available', True):
        _guard_check(ctx, vs, mo, src, unesc)

    # ---- (d) type-name lowering contract tie (signatures of the top-level functions)
    ty_cases = [(f"(({q}) : list titem)", f"(({o}) : list (list ty))") for (_, _, q, o) in tyc]
    tfails, err = vlib.coq_eval_cases("c17ty", IMPORT_TY, "lower_types", "tysigs_eqb", ty_cases,
                                      shard=min(150, max(40, len(ty_cases) // 16 + 1)), timeout=1500)
    if err:
        ctx.broken.append("correspondence C17/types: model evaluation failed")
        ctx.log(err[-3000:])
    if tfails:
        ctx.broken.append(f"correspondence C17/types: model and lower() differ on the signatures of {len(tfails)} of {len(ty_cases)} programs")
        bad = [tyc[i] for i in tfails[:3]]
        mres, _ = vlib.coq_eval_terms("c17ty", IMPORT_TY, [f"lower_types ({q})" for (_, _, q, _) in bad])
        ctx.cov["type_disagreements"] = [
            {"case": c, "mode": m, "source": unesc(src.get(c, "")), "implementation": o, "model": r}
            for (c, m, _, o), r in zip(bad, mres)]
        d0 = ctx.cov["type_disagreements"][0]
        ctx.violation("tie:types", "lowered signature types differ from the proved model on this input (the theorems about the model no longer describe the code)",
                      {"source": d0["source"], "case": d0["case"], "mode": d0["mode"], "implementation": d0["implementation"],
                       "model": d0["model"], "oracle": "contract tie"})

    # ---- (f) function-level contract ties through the verif hook (type_to_string / substitute_type / infer_type_args)
    FN = {"FK": ("(fun p : ty * ty => ty_eqb (key1 (fst p)) (key1 (snd p)))", "Bool.eqb", lambda o: o, "type_to_string vs key1"),
          "FS": ("(fun x : list N * list ty * ty => subst (fst (fst x)) (snd (fst x)) (snd x))", "ty_eqb", lambda o: o, "substitute_type vs subst"),
          "FI": ("(fun x : list N * list ty * list ty => infer_type_args (mkmfn (NPlain 0) (fst (fst x)) "
                 "(List.combine (List.map N.of_nat (List.seq 0 (List.length (snd (fst x))))) (snd (fst x))) T_I64 [] [] [] false) "
                 "(mkmfn (NPlain 1) [] [] T_I64 [] [] [] false) (List.map AConst (snd x)))",
                 "(fun a b : option (list ty) => match a, b with Some x, Some y => tylist_eqb x y | None, None => true | _, _ => false end)",
                 lambda o: f"(({o}) : option (list ty))", "infer_type_args vs infer_type_args")}
    n_fn = 0
    for tag, (runf, eqb, wrap, what) in FN.items():
        cs = [(q, wrap(o)) for (q, o) in fnc[tag]]
        if not cs:
            continue
        n_fn += len(cs)
        ff, err = vlib.coq_eval_cases("c17" + tag.lower(), IMPORT_MO, runf, eqb, cs, shard=150, timeout=900)
        if err:
            ctx.broken.append(f"correspondence C17/{tag}: model evaluation failed")
            ctx.log(err[-2000:])
        if ff:
            ctx.broken.append(f"correspondence C17/function {what}: {len(ff)} of {len(cs)} random cases differ")
            q0, o0 = fnc[tag][ff[0]]
            ctx.violation("tie:fn:" + tag, f"{what}: the Rust helper and the model function disagree",
                          {"query": q0, "implementation": o0, "oracle": "function-level contract tie (verif hook)"})
    ctx.cov["function_level_cases"] = n_fn

    # ---- (e) locals contract tie: per function, how many ids are parameters / declared / mentioned
    lo_cases = [(q, f"(({o}) : list (list N))") for (_, _, q, o) in loc]
    lfails, err = vlib.coq_eval_cases("c17lo", IMPORT_LO, "lobs", "nlist2_eqb", lo_cases,
                                      shard=min(150, max(40, len(lo_cases) // 16 + 1)), timeout=1500)
    if err:
        ctx.broken.append("correspondence C17/locals: model evaluation failed")
        ctx.log(err[-3000:])
    if lfails:
        ctx.broken.append(f"correspondence C17/locals: model and lower() differ on {len(lfails)} of {len(lo_cases)} programs")
        bad = [loc[i] for i in lfails[:3]]
        mres, _ = vlib.coq_eval_terms("c17lo", IMPORT_LO, [f"lobs ({q})" for (_, _, q, _) in bad])
        ctx.cov["locals_disagreements"] = [
            {"case": c, "mode": m, "source": unesc(src.get(c, "")), "implementation": o, "model": r}
            for (c, m, _, o), r in zip(bad, mres)]
        d0 = ctx.cov["locals_disagreements"][0]
        ctx.violation("tie:locals", "parameter / declared / mentioned local counts differ from the proved model on this input (the theorems about the model no longer describe the code)",
                      {"source": d0["source"], "case": d0["case"], "mode": d0["mode"], "implementation": d0["implementation"],
                       "model": d0["model"], "oracle": "contract tie"})

    # ---- (a) direct oracle: classify the validator's findings by root cause
    by_sig = {}
    for v in vs:
        if v["kind"] == "dangling-target":
            # no known class any more (KF-C17-1/2 repaired): every dangling target is a violation
            sig = "lower:dangling-target"
        else:
            sig = KIND_SIG.get(v["kind"], "air:" + v["kind"])
        by_sig.setdefault(sig, []).append(v)
    summary = {}
    for sig in sorted(by_sig):
        lst = by_sig[sig]
        progs = sorted({v["case"] for v in lst})
        summary[sig] = {"programs": len(progs)}
        # prefer a corpus case as the example, else the smallest generated program
        ex = sorted(lst, key=lambda v: (not v["case"].startswith("corpus:"), len(src.get(v["case"], "")), v["case"]))[0]
        st = ctx.violation(sig, f"{sig}: validator reports {ex['kind']} ({ex['detail']}) in function {ex['name']} "
                                f"[{ex['stage']}-mono, {ex['mode']}]; {len(progs)} programs in this run",
                           {"source": unesc(src.get(ex["case"], "")), "case": ex["case"], "mode": ex["mode"],
                            "stage": ex["stage"], "function": ex["name"], "validator_kind": ex["kind"],
                            "detail": ex["detail"], "oracle": "independent validator on the real AirProgram"})
        summary[sig]["status"] = st
    ctx.cov["oracle_findings"] = summary

    # every open known finding must still reproduce from its corpus file
    for k in ctx.known:
        if k.get("status") == "open" and k not in ctx.known_hits:
            ctx.notes.append(f"known finding {k['id']} did not reproduce in this run (code repaired? then update model and theorems)")

    # ---- coverage
    shapes = set()
    for (_, _, _, o) in sk:
        for fn in re.findall(r"\[\[[^\]]*\](?:;\[[^\]]*\])+\]", o):
            shapes.add(hashlib.sha1(fn.encode()).hexdigest())
    mono_shapes = {hashlib.sha1(o.encode()).hexdigest() for (_, _, _, o) in mo if not o.startswith("([],")}
    ctx.cov["evaluations"] = len(sk_cases) + len(mo_cases) + len(ty_cases) + len(lo_cases) + n_fn
    ctx.cov["distinct_nontrivial"] = len(shapes) + len(mono_shapes)
    ctx.cov["distinct_function_cfgs_with_2plus_blocks"] = len(shapes)
    ctx.cov["distinct_mono_outcomes_with_instances"] = len(mono_shapes)
    ctx.cov["validator_findings"] = len(vs)
    ctx.cov["rule"] = ("each generated program is lowered after type inference and again after the standard optimizer "
                       "(the input AirLowerStage sees); distinct = distinct canonical CFGs with >= 2 blocks among all lowered "
                       "functions + distinct monomorphisation outcomes with >= 1 instance")
    feats = {}
    for (_, _, q, _) in sk:
        for k in ("EAtom", "EIdent", "EOp KPass", "EOp KTmp", "EOp KVoid", "(KAssign", "(KConcat", "(KCall true", "(KCall false",
                  "EShort true", "EShort false", "EIfE", "ELam", "SExpr", "SLet", "SBlock", "SIfElse", "SWhile", "SForEach",
                  "SRetE", "SBreak", "SContinue", "SFn", "SNop"):
            feats[k] = feats.get(k, 0) + q.count(k)
        feats["SIf"] = feats.get("SIf", 0) + len(re.findall(r"SIf\b(?!E)", q))
        feats["SFor"] = feats.get("SFor", 0) + len(re.findall(r"SFor\b(?!E)", q))
        feats["SRet"] = feats.get("SRet", 0) + len(re.findall(r"SRet\b(?!E)", q))
        feats["closure (captures)"] = feats.get("closure (captures)", 0) + len(re.findall(r"(?:ELam|SFn) \[\d", q))
    for (_, _, q, _) in tyc:
        for k in ("IPrim", "IName", "ISeq", "IFun", "IVoid", "IDyn", "TIStruct", "TIFn"):
            feats["ty:" + k] = feats.get("ty:" + k, 0) + q.count(k)
    for (_, _, q, _) in mo:
        for k in ("TParam", "TSlice", "TFn", "TStruct", "MCall", "MInit", "MCast", "AConst", "ALocal"):
            feats["mono:" + k] = feats.get("mono:" + k, 0) + q.count(k)
    ctx.cov["model_feature_counts"] = feats
    starved = sorted(k for k, v in feats.items() if v < 20)
    if starved:
        ctx.notes.append("model features reached fewer than 20 times in this run: " + ", ".join(starved))
    ctx.cov["input_distribution"] = dict(stats, rejected_by_frontend=rej, programs=len(src),
                                         lowerings=len(sk), panics=len(panics))
    for (c, m, q, o) in sk[:1] + sk[len(sk) // 2: len(sk) // 2 + 1]:
        ctx.add_samples([{"case": c, "mode": m, "source": unesc(src.get(c, ""))[:600], "block_structure": o[:400]}])
    for (c, m, q, o) in mo[len(mo) // 3: len(mo) // 3 + 1]:
        ctx.add_samples([{"case": c, "mode": m, "mono_observation": o[:600]}])
