"""C06 -- Type-specialised fast paths never misread a value.

Proof (Props/C06.v) + three ties:
  1. hx_vmop   : contract tie of Model/VmArith.v to the real dispatch loop, one opcode at a time
  2. hx_c06 --select : contract tie of Model/OpcodeSelect.v to backend::opcode_select::select_opcode,
                 plus a probe that executes the selected opcode on (2.5, 1) for uncertain operands
  3. hx_c06 --run    : whole pipeline.  Generated programs drive values of every runtime type into
                 every typed position; oracle = same computation under generic opcodes (reference
                 program whose operands are laundered through untyped code) or a TypeError;
                 the unchecked-accessor mismatch counter must stay 0; a panic is a violation.
"""
import json, os, random, re, subprocess
import vlib

TRUSTED = [
    "Coq 8.16.1 kernel + vm_compute; primitive floats/ints (PrimFloat.*, PrimInt63.* listed by Print Assumptions are kernel primitives); "
    "codec_eq / typed_sound_eq_ff / guarded_sound_eq_floats / selected_eq_sound additionally rest on the standard-library axioms "
    "FloatAxioms.eqb_spec and FloatAxioms.Prim2SF_SF2Prim (primitive == and the SF2Prim/Prim2SF round trip follow the SpecFloat specification)",
    "tools/extractors/c06.py transcribes enum OpCode (names + discriminants) from bytecode/src/bytecode/opcode.rs; "
    "tools/extract.py the NaN-box constants",
    "Model/VmArith.v is a hand model of runtime/src/vm/{arithmetic,comparison.rs,dispatch/ops/{arithmetic,comparison,bitwise,control_flow}.inc}; "
    "tied by hx_vmop (real VM, one assembled instruction per case, dev + release profiles)",
    "Model/OpcodeSelect.v is a hand model of backend/src/opcode_select.rs; tied by hx_c06 --select on all operator x type x type combinations",
    "sema (which static types reach select_opcode) is NOT modelled; since fix 7e82908 the theorems no longer need it for the modelled opcodes "
    "(selected_opcode_sound_all_words holds for dishonest static types too); typed positions outside the model (typed array ops, calls) are explored by generated programs only",
    "Extracted/OpcodeSelectTables.v (BinaryOp, ResolvedType predicates, the five operator->opcode tables) and Extracted/DispatchArms.v "
    "(which opcodes share a match arm, which Value accessors each arm calls) are regenerated from the Rust source by tools/extractors/c06.py",
    "== / != of an int with a float through the guarded opcodes (EqIIG/EqFFG: `i as f64` then IEEE ==, generic: int_eq_f64) is not proved equal, only tied by hx_vmop",
    "Model/TypedArray.v is a hand model of AelysArray/AelysVec get/set/push/pop (bytecode/src/object/{array,vec}.rs, tied by hx_c06 --arrays) "
    "and of the 40 array / vec load, get, store, push, pop arms of arrays.inc on their register operands incl. the index word "
    "(tied per opcode by hx_c06 --arrayops); ArrayNew*/ArrayLit/Len/Reserve/StringLoadChar arms are not modelled",
    "pipeline oracle: the reference ('generic semantics') run is the same computation with every operation moved into untyped helper functions "
    "whose operands are laundered (static type Dynamic => generic opcodes); it is accepted as reference only when its own run has 0 "
    "unchecked-accessor mismatches and no panic (then every typed op it executed equals the generic op by typed_agrees_when_tagged_*)",
    "hook H4 (bytecode/src/verif.rs): counter of unchecked accessors applied to wrong-kind values",
]

IMPORTS = "From Aelys Require Import Extracted.Opcodes Extracted.OpcodeSelectTables Model.Value Model.VmArith Model.VmArithObs Model.OpcodeSelect."


# ----------------------------------------------------------------------------------------------
# tie 1: VmArith  <->  VM
def parse_vmop(out):
    debug, heap, cases = None, [], []
    for line in out.splitlines():
        if line.startswith("#debug"):
            debug = line.split()[1] == "1"
        elif line.startswith("#heap"):
            heap = [tuple(x.split(":")) for x in line.split()[1:]]
        elif "\t" in line:
            q, o = line.split("\t")
            t = q.split()
            if t[0] in ("QBin", "QImm"):
                qt = f"{t[0]} {t[1]} {t[2]}%N {t[3]}%N"
            elif t[0] == "QUn":
                qt = f"QUn {t[1]} {t[2]}%N"
            elif t[0] == "QFor":
                qt = f"QFor {t[1]} {t[2]}%N {t[3]}%N {t[4]}%N"
            elif t[0] == "QWhile":
                qt = f"QWhile {t[1]}%N {t[2]}%N"
            else:
                continue
            u = o.split()
            if u[0] == "W":
                ot = f"OW {u[1]}%N"
            elif u[0] == "E":
                ot = {"TypeError": "OE 0%N", "DivisionByZero": "OE 1%N"}.get(u[1], "OX")
            elif u[0] == "C":
                ot = f"OC {u[1]}%N {u[2]}%N"
            elif u[0] == "L":
                ot = f"OL {u[1]}%N {'true' if u[2] == '1' else 'false'}"
            elif u[0] == "T":
                ot = f"OT {'true' if u[1] == '1' else 'false'}"
            elif u[0] == "P":
                ot = "OP"
            else:
                ot = "OX"
            cases.append((qt, ot, line))
    return debug, heap, cases


def kind_of_word(w):
    hi = (w >> 48) & 0x7FFF
    if (w >> 51) & 0xFFF != 0xFFF:
        return "float"
    return {0x7FF8: "ptr", 0x7FF9: "int", 0x7FFA: "bool", 0x7FFB: "null", 0x7FFD: "nested"}.get(hi, "float")


def vmop_cross_check(cases):
    """Model-free oracle on the VM's own answers (the search for a failing input when the proof or
    the tie breaks).  Since fix 7e82908 every specialised opcode must give exactly what the generic
    opcode of the same operator gives on the same operands (looked up in the same output), for ALL
    operand kinds; the exceptions are == / != on two floats (IEEE vs Value ==) and on int words
    with the sign bit set (never produced by Value::int).  Immediate forms are compared with the
    generic opcode on (a, Value::int(c)), WhileLoopLt with Lt, ForLoopI with its type-error rule."""
    GEN = {"Add": "Add", "Sub": "Sub", "Mul": "Mul", "Div": "Div", "Mod": "Mod", "Lt": "Lt", "Le": "Le", "Gt": "Gt",
           "Ge": "Ge", "Eq": "Eq", "Ne": "Ne", "Shl": "Shl", "Shr": "Shr", "And": "BitAnd", "Or": "BitOr", "Xor": "BitXor"}
    IMM = {"AddI": "Add", "SubI": "Sub", "LtImm": "Lt", "LeImm": "Le", "GtImm": "Gt", "GeImm": "Ge", "LtIImm": "Lt", "LeIImm": "Le",
           "GtIImm": "Gt", "GeIImm": "Ge", "ShlIImm": "Shl", "ShrIImm": "Shr", "AndIImm": "BitAnd", "OrIImm": "BitOr", "XorIImm": "BitXor"}
    QNAN_INT = 0x7FF9 << 48
    gen = {}
    for _, _, line in cases:
        q, o = line.split("\t")
        t = q.split()
        if t[0] == "QBin" and t[1][2:] in GEN.values():
            gen[(t[1][2:], t[2], t[3])] = o
    bad, n = [], 0
    for _, _, line in cases:
        q, o = line.split("\t")
        t = q.split()
        if o == "P":
            bad.append((line, "no opcode may panic"))
            continue
        if t[0] == "QBin":
            m = re.fullmatch(r"(Add|Sub|Mul|Div|Mod|Lt|Le|Gt|Ge|Eq|Ne|Shl|Shr|And|Or|Xor)(II|FF|IIG|FFG)", t[1][2:])
            if not m:
                continue
            a, b = int(t[2]), int(t[3])
            ka, kb = kind_of_word(a), kind_of_word(b)
            if m.group(1) in ("Eq", "Ne"):
                if (ka == "int" and a >> 63) or (kb == "int" and b >> 63):
                    continue
                if m.group(2) == "FF" and ka == "float" and kb == "float" and a == b:
                    continue
                if m.group(2) in ("IIG", "FFG") and (ka == "float" or kb == "float"):
                    continue
            g = gen.get((GEN[m.group(1)], t[2], t[3]))
        elif t[0] == "QImm":
            ci = QNAN_INT | int(t[3])
            g = gen.get((IMM[t[1][2:]], t[2], str(ci)))
        elif t[0] == "QWhile":
            g = gen.get(("Lt", t[1], t[2]))
            if g is not None and g.startswith("W "):
                g = "T 1" if int(g.split()[1]) & 1 else "T 0"
        elif t[0] == "QFor":
            ints = all(kind_of_word(int(x)) == "int" for x in t[2:5])
            n += 1
            if ints != o.startswith("L "):
                bad.append((line, "ForLoopI must raise a type error exactly when a register is not an int"))
            continue
        else:
            continue
        if g is None:
            continue
        n += 1
        if o != g:
            bad.append((line, g))
    return n, bad


def tie_vmop(ctx, profiles, pairs, lite=False):
    total, distinct = 0, set()
    for prof in profiles:
        ok, paths, log = vlib.harness_build(["hx_vmop"], profile=prof)
        if not ok:
            ctx.broken.append(f"harness build failed (hx_vmop, {prof})")
            ctx.log(log[-3000:])
            return None
        cmd = [paths["hx_vmop"], "--seed", str(ctx.seed), "--pairs", str(pairs)] + (["--lite"] if lite else [])
        rc, out = vlib.sh(cmd, timeout=900)
        if rc != 0:
            ctx.violation("hx_vmop-crash", "opcode harness crashed", {"profile": prof, "output_tail": out[-2000:]})
            return None
        debug, heap, cases = parse_vmop(out)
        total += len(cases)
        distinct.update(q for q, _, _ in cases)
        n, bad = vmop_cross_check(cases)
        ctx.cov["vmop_typed_vs_generic_checked"] = ctx.cov.get("vmop_typed_vs_generic_checked", 0) + n
        for line, g in bad[:3]:
            ctx.violation("typed-op-differs-from-generic:" + (line.split()[1] if line.startswith(("QBin", "QImm", "QUn")) else
                                                             ("ForLoopI" if line.startswith("QFor") else "WhileLoopLt")),
                          "specialised opcode differs from the generic opcode of the same operator (or panics)",
                          {"case": line, "generic": g, "profile": prof})
        hv = "[" + "; ".join(f"({p}%N, {'None' if s == '-' else 'Some %s%%N' % s})" for p, s in heap) + "]"
        dbg = "true" if debug else "false"
        fails, err = vlib.coq_eval_cases("c06v", IMPORTS, f"vmop_obs {dbg} HV", "vobs_eqb",
                                         [(q, o) for q, o, _ in cases], shard=2000,
                                         extra_defs=f"Definition HV := hv_of_list {hv}.\n")
        if err:
            ctx.broken.append("correspondence VmArith: model evaluation failed")
            ctx.log(err[-3000:])
        if fails:
            ctx.broken.append(f"correspondence VmArith ({prof}): model and VM differ on {len(fails)} of {len(cases)} cases")
            badc = [cases[i] for i in fails[:8]]
            mo, _ = vlib.coq_eval_terms("c06v", IMPORTS + f"\nDefinition HV := hv_of_list {hv}.",
                                        [f"vmop_obs {dbg} HV ({q})" for q, _, _ in badc])
            ctx.cov["vmop_disagreements"] = [{"case": l, "model": m, "profile": prof} for (_, _, l), m in zip(badc, mo)]
            ctx.log("VmArith disagreements:", ctx.cov["vmop_disagreements"][:4])
        ctx.add_samples([{"vmop": l} for _, _, l in cases[:1] + cases[len(cases) // 2: len(cases) // 2 + 1]])
    ctx.cov["vmop_cases"] = total
    return total, len(distinct)


# ----------------------------------------------------------------------------------------------
# tie 2: OpcodeSelect <-> select_opcode
def split_terms(rest):
    terms, depth, cur = [], 0, ""
    for ch in rest:
        if ch == "(":
            depth += 1
        if ch == ")":
            depth -= 1
        if ch == " " and depth == 0:
            terms.append(cur)
            cur = ""
        else:
            cur += ch
    terms.append(cur)
    return terms


def tie_select(ctx, path):
    rc, out = vlib.sh([path, "--select"], timeout=600)
    if rc != 0:
        ctx.violation("hx_c06-select-crash", "select harness crashed", {"output_tail": out[-2000:]})
        return 0
    cases, probes = [], []
    for line in out.splitlines():
        if not line.startswith("QSel"):
            continue
        q, sel, pr = line.split("\t")
        op, rest = q[len("QSel "):].split(" ", 1)
        l, r = split_terms(rest)
        cases.append((f"({op}, {l}, {r})", sel, line))
        if pr != "-":
            probes.append((op, l, r, sel, pr))
    fails, err = vlib.coq_eval_cases("c06s", IMPORTS, "fun q => select_opcode (fst (fst q)) (snd (fst q)) (snd q)",
                                     "opcode_eqb", [(q, o) for q, o, _ in cases], shard=2500)
    if err:
        ctx.broken.append("correspondence OpcodeSelect: model evaluation failed")
        ctx.log(err[-3000:])
    if fails:
        ctx.broken.append(f"correspondence OpcodeSelect: model and select_opcode differ on {len(fails)} of {len(cases)} cases")
        ctx.cov["select_disagreements"] = [cases[i][2] for i in fails[:8]]
        ctx.log("select disagreements:", ctx.cov["select_disagreements"][:4])
    # direct oracle: with an Uncertain/Dynamic operand the selected opcode, run on (2.5, 1), must not apply an
    # unchecked accessor to the float
    seen = set()
    for op, l, r, sel, pr in probes:
        m = re.match(r"m=(\d+) (\S+)", pr)
        if int(m.group(1)) > 0 or m.group(2) == "P":
            sig = "unguarded-select:" + op + ":" + sel
            if sig in seen:
                continue
            seen.add(sig)
            ctx.violation(sig, f"select_opcode({op}, {l}, {r}) = {sel[2:]}: executed on (2.5, 1) it reads the float with an unchecked accessor ({pr})",
                          {"op": op, "left": l, "right": r, "selected": sel, "probe": pr,
                           "how": "hx_c06 --select (select_opcode from aelys_backend, selected opcode run on the real VM)"})
    ctx.cov["select_cases"] = len(cases)
    ctx.cov["select_probes_uncertain"] = len(probes)
    ctx.add_samples([{"select": cases[len(cases) // 3][2]}])
    return len(cases)


# ----------------------------------------------------------------------------------------------
# tie 2b: Model/TypedArray.v <-> AelysArray / AelysVec
def tie_arrays(ctx, path, count):
    rc, out = vlib.sh([path, "--arrays", "--seed", str(ctx.seed), "--count", str(count)], timeout=600)
    if rc != 0:
        ctx.violation("hx_c06-arrays-crash", "typed array harness crashed (panic inside AelysArray/AelysVec?)", {"output_tail": out[-2000:]})
        return 0
    cases, opcount = [], {}
    for line in out.splitlines():
        if not line.startswith("QArr"):
            continue
        q, o = line.split("\t")
        t = q.split()
        ops = []
        for x in t[3:]:
            opcount[x[0]] = opcount.get(x[0], 0) + 1
            if x[0] == "g":
                ops.append(f"OGet {x[1:]}")
            elif x[0] == "s":
                i, w = x[1:].split(":")
                ops.append(f"OSet {i} {w}%N")
            elif x[0] == "p":
                ops.append(f"OPush {x[1:]}%N")
            elif x[0] == "o":
                ops.append("OPop")
            else:
                ops.append("OLen")
        obs = "[" + "; ".join("[" + "; ".join(f"{v}%N" for v in g.split(",")) + "]" for g in o.split()) + "]"
        cases.append((f"(anew {t[1]} {t[2]}, [" + "; ".join(ops) + "])", obs, line))
        # model-free oracle: a value read from a typed storage has the storage's element kind
        want = {"KI": "int", "KF": "float", "KB": "bool"}.get(t[1])
        if want:
            for x, g in zip(t[3:], o.split()):
                if x[0] in "go" and g.startswith("1,") and kind_of_word(int(g[2:])) != want:
                    ctx.violation("typed-array-wrong-kind:" + t[1], f"a typed storage handed out a value of another kind ({g})",
                                  {"case": line})
    fails, err = vlib.coq_eval_cases("c06a", "From Aelys Require Import Model.Value Model.TypedArray.",
                                     "fun q => run_ops (fst q) (snd q)", "list_eqb (list_eqb N.eqb)",
                                     [(q, o) for q, o, _ in cases], shard=400)
    if err:
        ctx.broken.append("correspondence TypedArray: model evaluation failed")
        ctx.log(err[-2000:])
    if fails:
        ctx.broken.append(f"correspondence TypedArray: model and AelysArray/AelysVec differ on {len(fails)} of {len(cases)} cases")
        ctx.cov["array_disagreements"] = [cases[i][2] for i in fails[:5]]
        ctx.log("array disagreements:", ctx.cov["array_disagreements"][:3])
    ctx.cov["array_cases"] = len(cases)
    ctx.cov["array_ops"] = {{"g": "get", "s": "set", "p": "push", "o": "pop", "l": "len"}[k]: v for k, v in sorted(opcount.items())}
    ctx.add_samples([{"typed_array": cases[0][2]}] if cases else [])
    return len(cases)


# ----------------------------------------------------------------------------------------------
# tie 2c: opcode level of Model/TypedArray.v <-> the array / vec arms of the dispatch loop
LOADSTORE = set(range(135, 139)) | set(range(143, 147)) | set(range(164, 168)) | set(range(172, 176))


def tie_arrayops(ctx, path, count):
    rc, out = vlib.sh([path, "--arrayops", "--seed", str(ctx.seed), "--count", str(count)], timeout=900)
    if rc != 0:
        ctx.violation("hx_c06-arrayops-crash", "array opcode harness crashed", {"output_tail": out[-2000:]})
        return 0
    cases, byop, idxkinds = [], {}, {}
    for line in out.splitlines():
        if not line.startswith("QAop"):
            continue
        q, o = line.split("\t")
        t = q.split(" ")
        opc, cont, iw, vw = int(t[1]), t[2], int(t[3]), int(t[4])
        c = cont.split(":")
        if c[0] in ("A", "V"):
            ws = "[" + "; ".join(f"{x}%N" for x in c[2].split(",") if x) + "]"
            hobj = f"({'HArray' if c[0] == 'A' else 'HVec'} (push_all (anew {c[1]} 0) {ws}))"
        elif c[0] == "S":
            hobj = f"(HString {c[1]})"
        elif c[0] == "O":
            hobj = "HOther"
        else:
            hobj = "HNone"
        outcome, after = o.split("|")
        u = outcome.split()
        code = {"W": lambda: f"[0%N; {u[1]}%N]", "N": lambda: "[1%N]", "S": lambda: f"[2%N; {u[1]}%N]",
                "E": lambda: f"[3%N; {u[1]}%N]", "P": lambda: "[4%N]"}[u[0]]()
        aft = "[" + "; ".join(f"{x}%N" for x in after.split(",") if x) + "]"
        cases.append((f"(({opc}%N, {hobj}), ({iw}%N, {vw}%N))", f"({code}, {aft})", line))
        byop[opc] = byop.get(opc, 0) + 1
        ik = kind_of_word(iw)
        idxkinds[ik] = idxkinds.get(ik, 0) + 1
        # model-free oracle: an index word that is not an int never selects an element
        if ik != "int" and opc in LOADSTORE and u[0] in ("W", "N", "S"):
            ctx.violation(f"array-nonint-index-selects-element:{opc}",
                          f"opcode {opc} with a {ik} index word {iw:#x} produced {outcome!r} instead of the index error",
                          {"case": line, "how": "hx_c06 --arrayops"})
        if u[0] == "P":
            ctx.violation(f"array-op-panic:{opc}", "an array opcode panicked", {"case": line})
    defs = ("Definition pair_eqb (x y : list N * list N) : bool := list_eqb N.eqb (fst x) (fst y) && list_eqb N.eqb (snd x) (snd y).\n"
            "Definition run_aop (q : (N * hobj) * (N * N)) : list N * list N :=\n"
            "  match array_op (fst (fst q)) (snd (fst q)) (fst (snd q)) (snd (snd q)) with\n"
            "  | Some r => ares_obs (snd (fst q)) r | None => ([9%N], []) end.\n")
    fails, err = vlib.coq_eval_cases("c06o", "From Coq Require Import Bool.\nFrom Aelys Require Import Model.Value Model.TypedArray.",
                                     "run_aop", "pair_eqb", [(q, o) for q, o, _ in cases], shard=500, extra_defs=defs)
    if err:
        ctx.broken.append("correspondence TypedArray opcodes: model evaluation failed")
        ctx.log(err[-2000:])
    if fails:
        ctx.broken.append(f"correspondence TypedArray opcodes: model and VM differ on {len(fails)} of {len(cases)} cases")
        ctx.cov["arrayop_disagreements"] = [cases[i][2] for i in fails[:6]]
        ctx.log("array opcode disagreements:", ctx.cov["arrayop_disagreements"][:3])
        for i in fails[:3]:
            ctx.violation("array-op-differs-from-model:" + cases[i][2].split()[1],
                          "an array / vec opcode does not do what Model/TypedArray.v (proved: non-int index => index error, "
                          "typed arm = generic index op) says", {"case": cases[i][2]})
    # ---- literals and for-each steps (same harness run)
    def hobj_term(cont):
        c = cont.split(":")
        if c[0] in ("A", "V"):
            ws = "[" + "; ".join(f"{x}%N" for x in c[2].split(",") if x) + "]"
            return f"({'HArray' if c[0] == 'A' else 'HVec'} (push_all (anew {c[1]} 0) {ws}))"
        return f"(HString {c[1]})" if c[0] == "S" else ("HOther" if c[0] == "O" else "HNone")
    lit, each = [], []
    for line in out.splitlines():
        if line.startswith("QLit"):
            q, o = line.split("\t")
            t = q.split(" ")
            ws = [x for x in (t[2] if len(t) > 2 else "").split(",") if x]
            if o.startswith(("A:", "V:")):
                c = o.split(":")
                obs = "[1%N; " + str({"KI": 0, "KF": 1, "KB": 2, "KO": 3}[c[1]]) + "%N" + "".join(f"; {x}%N" for x in c[2].split(",") if x) + "]"
            elif o.startswith("E 1"):
                obs = "[0%N]"
            else:
                obs = "[9%N]"
            lit.append(("[" + "; ".join(f"{x}%N" for x in ws) + "]", obs, line, ws, o))
        elif line.startswith("QEach"):
            q, o = line.split("\t")
            t = q.split(" ")
            u = o.split()
            obs = {"W": lambda: f"[0%N; {u[1]}%N]", "S": lambda: f"[1%N; {u[1]}%N]", "END": lambda: "[2%N]",
                   "E": lambda: "[3%N]" if u[1] == "1" else "[9%N]", "P": lambda: "[9%N]"}[u[0]]()
            each.append((f"({hobj_term(t[2])}, {t[3]}%N)", obs, line, int(t[1]), t[2], o))
    ldefs = ("Definition kcode (k : akind) : N := match k with KI => 0 | KF => 1 | KB => 2 | KO => 3 end.\n"
             "Definition run_lit (ws : list N) : list N := match op_lit ws with Some d => 1%N :: kcode (kind_of_data d) :: contents d | None => [0%N] end.\n"
             "Definition run_each (q : hobj * N) : list N := match op_each (fst q) (snd q) with EElem w => [0%N; w] | EChar i => [1%N; N.of_nat i] | EEnd => [2%N] | EErr => [3%N] end.\n")
    imp = "From Aelys Require Import Model.Value Model.TypedArray."
    lf, lerr = vlib.coq_eval_cases("c06l", imp, "run_lit", "list_eqb N.eqb", [(q, o) for q, o, *_ in lit], shard=500, extra_defs=ldefs)
    ef, eerr = vlib.coq_eval_cases("c06e", imp, "run_each", "list_eqb N.eqb", [(q, o) for q, o, *_ in each], shard=500, extra_defs=ldefs)
    if lerr or eerr:
        ctx.broken.append("correspondence TypedArray literals / for-each: model evaluation failed")
        ctx.log(((lerr or "") + (eerr or ""))[-2000:])
    other = []
    seen = set()
    for i in lf:
        _, _, line, ws, o = lit[i]
        kinds = [kind_of_word(int(x)) for x in ws]
        coerced = o.startswith(("A:", "V:")) and kinds and kinds[0] in ("int", "float", "bool") and any(k != kinds[0] for k in kinds)
        if coerced:
            sig = f"literal-element-coerced:{line.split()[1]}:{kinds[0]}"
            if sig not in seen:
                seen.add(sig)
                ctx.violation(sig, "an array / vec literal stored 0 / 0.0 / false in place of an element of another kind "
                              f"(elements {ws}, built {o})", {"case": line, "how": "hx_c06 --arrayops"})
        else:
            other.append(line)
    for i in ef:
        _, _, line, opc, cont, o = each[i]
        silent = opc in (177, 179) and o == "END" and not cont.startswith({177: "S:", 179: "A:"}[opc])
        if silent:
            sig = f"typed-foreach-silent:{opc}:{cont.split(':')[0]}"
            if sig not in seen:
                seen.add(sig)
                ctx.violation(sig, f"for-each opcode {opc} given {'a non-collection' if cont[0] in 'OH' else 'a collection of another kind'} "
                              "ended the loop silently (the generic VecForLoop iterates it / raises the type error)",
                              {"case": line, "how": "hx_c06 --arrayops"})
        else:
            other.append(line)
    if other:
        ctx.broken.append(f"correspondence TypedArray literals / for-each: model and VM differ on {len(other)} cases")
        ctx.cov["lit_each_disagreements"] = other[:6]
        ctx.log("literal / for-each disagreements:", other[:3])
    ctx.cov["literal_cases"] = len(lit)
    ctx.cov["foreach_cases"] = len(each)
    ctx.cov["arrayop_cases"] = len(cases)
    ctx.cov["arrayop_by_opcode"] = {str(k): v for k, v in sorted(byop.items())}
    ctx.cov["arrayop_index_word_kinds"] = idxkinds
    ctx.add_samples([{"array_opcode": cases[0][2]}] if cases else [])
    return len(cases) + len(lit) + len(each)


# ----------------------------------------------------------------------------------------------
# tie 3: whole pipeline
PRELUDE = """fn helper(q) { return q }
fn dyn(v) { if false { return "p" } return v }
fn dyns(v) { if false { return 0 } return v }
fn rlt(a, b) { return a < b }
fn radd(a, b) { return a + b }
"""
VALS = {
    "int": ["7", "-3", "0", "2"],
    "float": ["2.5", "-0.5", "3.0", "2.0"],
    "bool": ["true", "false"],
    "null": ["null"],
    "string": ['"s"', '"12"'],
    "array": ["Array<Int>[1, 2]", "Array<Float>[1.5, 2.5]", "Vec<Int>[3, 4]"],
    "function": ["helper"],
}
ARITH = ["+", "-", "*", "/", "%"]
CMP = ["<", "<=", ">", ">=", "==", "!="]
BIT = ["<<", ">>", "&", "|", "^"]
SHOW = "println(r)\nprintln(type(r))\n"


def lit(D):
    return "2" if D == "int" else "2.0"


def dy(v):
    """launder a value through untyped code so that its static type is Dynamic (for the checker dyn is
    String -> String and dyns is int -> int: any other argument type leaves the call's result Dynamic)"""
    return f"dyns({v})" if v.startswith('"') else f"dyn({v})"


def arg(v, launder):
    return dy(v) if launder else v


def second(v, launder):
    """a second value equal to v; for strings a freshly concatenated object with the same contents"""
    if v.startswith('"'):
        return f'dyns("" + {v})'
    return arg(v, launder)


def mk(position, D, T, detail, typed, ref):
    return {"position": position, "D": D, "T": T, "detail": detail, "typed": PRELUDE + typed + SHOW, "ref": PRELUDE + ref + SHOW}


def param_cases(D, T, v, launder, op, K=None):
    K = K or lit(D)
    src = "dyn" if launder else "lit"
    a = arg(v, launder)
    refb = f"fn g(a, b) {{ let r = a {op} b\n return r }}\n"
    return [
        # annotated parameter, operation with a literal (II or IImm forms)
        mk("typed-param", D, T, f"x{op}K:{src}:{v}",
           f"fn f(x: {D}) {{ let r = x {op} {K}\n return r }}\nlet r = f({a})\n",
           refb + f"let r = g({dy(v)}, {dy(K)})\n"),
        # two annotated parameters, mistyped value first / second
        mk("typed-param", D, T, f"x{op}y:{src}:{v}",
           f"fn f(x: {D}, y: {D}) {{ let r = x {op} y\n return r }}\nlet r = f({a}, {K})\n",
           refb + f"let r = g({dy(v)}, {dy(K)})\n"),
        mk("typed-param", D, T, f"y{op}x:{src}:{v}",
           f"fn f(x: {D}, y: {D}) {{ let r = x {op} y\n return r }}\nlet r = f({K}, {a})\n",
           refb + f"let r = g({dy(K)}, {dy(v)})\n"),
        # both parameters hold a value of the other type (for strings: equal contents, distinct objects)
        mk("typed-param", D, T, f"x{op}y:both:{src}:{v}",
           f"fn f(x: {D}, y: {D}) {{ let r = x {op} y\n return r }}\nlet r = f({a}, {second(v, launder)})\n",
           refb + f"let r = g({dy(v)}, {second(v, True)})\n"),
        # no annotation at all: the parameter type is inferred from its use
        mk("inferred-param", D, T, f"a{op}K:{src}:{v}",
           f"fn f(a) {{ let r = a {op} {K}\n return r }}\nlet r = f({a})\n",
           refb + f"let r = g({dy(v)}, {dy(K)})\n"),
        # annotated return
        mk("typed-return", D, T, f"ret{op}K:{src}:{v}",
           f"fn f(v) -> {D} {{ let t = v\n return t }}\nlet t = f({a})\nlet r = t {op} {K}\n",
           refb + f"let r = g({dy(v)}, {dy(K)})\n"),
    ]


def gen_cases():
    """All templates x all runtime types.  Deterministic order."""
    cs = []
    for D in ("int", "float"):
        ops = ARITH + CMP + (BIT if D == "int" else [])
        for T, vs in VALS.items():
            for v in vs:
                for launder in (True, False):
                    for op in ops:
                        cs += param_cases(D, T, v, launder, op)
    # signed zeros, equal values and NaNs through every typed float comparison and the guarded forms; the operands come
    # through calls / untyped code, so nothing is constant-folded
    FZ = [("0.0", "(0.0 - 0.0)"), ("(0.0 * -1.0)", "0.0"), ("0.0", "(0.0 * -1.0)"), ("(0.0 * -1.0)", "(0.0 * -1.0)"),
          ("(0.0 / 0.0)", "(0.0 / 0.0)"), ("(0.0 / 0.0)", "1.5"), ("1.5", "1.5"), ("(1.0 / 0.0)", "(1.0 / 0.0)")]
    for op in CMP:
        refb = f"fn g(a, b) {{ let r = a {op} b\n return r }}\n"
        for a, b in FZ:
            if op in ("==", "!=") and a == b == "(0.0 / 0.0)":
                continue        # one and the same NaN: generic == says true (Value::eq raw-bits shortcut), IEEE false;
                                # both operands are floats, no value is misread (theorem eq_on_nan_differs) -- not a C06 matter
            cs.append(mk("float-compare", "float", "float", f"FF:{a}{op}{b}",
                         f"fn f(x: float, y: float) {{ let r = x {op} y\n return r }}\nlet r = f(dyn({a}), dyn({b}))\n",
                         refb + f"let r = g(dyn({a}), dyn({b}))\n"))
            cs.append(mk("float-compare", "int*float", "float", f"FFG:{a}{op}{b}",
                         f"fn f(x: int, y: float) {{ let r = x {op} y\n return r }}\nlet r = f(dyn({a}), dyn({b}))\n",
                         refb + f"let r = g(dyn({a}), dyn({b}))\n"))
        for a, b in (("0", "(0.0 * -1.0)"), ("2", "2.0")):
            cs.append(mk("float-compare", "int*float", "int*float", f"FFG:{a}{op}{b}",
                         f"fn f(x: int, y: float) {{ let r = x {op} y\n return r }}\nlet r = f(dyn({a}), dyn({b}))\n",
                         refb + f"let r = g(dyn({a}), dyn({b}))\n"))
    # mixed int/float operands: the backend emits the guarded ...FFG opcodes
    for op in ARITH + CMP:
        refb = f"fn g(a, b) {{ let r = a {op} b\n return r }}\n"
        for T1, v1 in (("int", "7"), ("float", "2.5"), ("bool", "true"), ("null", "null"), ("string", '"s"'),
                       ("array", "Array<Int>[1, 2]"), ("function", "helper")):
            for T2, v2 in (("float", "2.0"), ("int", "2"), ("string", '"t"')):
                cs.append(mk("mixed-int-float", "int*float", f"{T1}*{T2}", f"x{op}y:{v1},{v2}",
                             f"fn f(x: int, y: float) {{ let r = x {op} y\n return r }}\nlet r = f({dy(v1)}, {dy(v2)})\n",
                             refb + f"let r = g({dy(v1)}, {dy(v2)})\n"))
    # loop bounds
    refloop = ("fn g(s, e, st) { let mut c = 0\n let mut i = s\n while rlt(dyn(i), e) { c = c + 1\n  i = radd(dyn(i), st) }\n return c }\n")
    refwhile = "fn g(e) { let mut i = dyn(0)\n while rlt(dyn(i), e) { i = radd(dyn(i), dyn(1)) }\n return i }\n"
    for T, vs in VALS.items():
        for v in vs:
            if T == "int" and v == "-3":
                continue            # descending ranges: direction detection, not a typing matter
            for launder in (True, False):
                src = "dyn" if launder else "lit"
                a = arg(v, launder)
                cs.append(mk("loop-bound", "int", T, f"for-end-param:{src}:{v}",
                             f"fn f(n: int) {{ let mut c = 0\n for i in 0..n {{ c += 1 }}\n return c }}\nlet r = f({a})\n",
                             refloop + f"let r = g(dyn(0), {dy(v)}, dyn(1))\n"))
                cs.append(mk("loop-bound", "int", T, f"for-end-untyped:{src}:{v}",
                             f"fn f(n) {{ let mut c = 0\n for i in 0..n {{ c += 1 }}\n return c }}\nlet r = f({a})\n",
                             refloop + f"let r = g(dyn(0), {dy(v)}, dyn(1))\n"))
                cs.append(mk("loop-bound", "int", T, f"for-end-toplevel:{src}:{v}",
                             f"let e = {a}\nlet mut c = 0\nfor i in 0..e {{ c += 1 }}\nlet r = c\n",
                             refloop + f"let r = g(dyn(0), {dy(v)}, dyn(1))\n"))
                if not (T == "int" and v == "7"):
                    cs.append(mk("loop-bound", "int", T, f"for-start:{src}:{v}",
                                 f"fn f(n) {{ let mut c = 0\n for i in n..4 {{ c += 1 }}\n return c }}\nlet r = f({a})\n",
                                 refloop + f"let r = g({dy(v)}, dyn(4), dyn(1))\n"))
                if not (T == "int" and v == "0"):
                    cs.append(mk("loop-bound", "int", T, f"for-step:{src}:{v}",
                                 f"fn f(n) {{ let mut c = 0\n for i in 0..9 step n {{ c += 1 }}\n return c }}\nlet r = f({a})\n",
                                 refloop + f"let r = g(dyn(0), dyn(9), {dy(v)})\n"))
                refincl = ("fn g(s, e, st) { let mut c = 0\n let mut i = s\n while rlt(dyn(i), radd(e, dyn(1))) { c = c + 1\n  i = radd(dyn(i), st) }\n return c }\n")
                cs.append(mk("loop-bound", "int", T, f"for-end-incl-param:{src}:{v}",
                             f"fn f(n: int) {{ let mut c = 0\n for i in 0..=n {{ c += 1 }}\n return c }}\nlet r = f({a})\n",
                             refincl + f"let r = g(dyn(0), {dy(v)}, dyn(1))\n"))
                if not (T == "int" and v == "0"):
                    cs.append(mk("loop-bound", "int", T, f"for-incl-step:{src}:{v}",
                                 f"fn f(n) {{ let mut c = 0\n for i in 0..=8 step n {{ c += 1 }}\n return c }}\nlet r = f({a})\n",
                                 refincl + f"let r = g(dyn(0), dyn(8), {dy(v)})\n"))
                cs.append(mk("while-bound", "int", T, f"while-param:{src}:{v}",
                             f"fn f(n: int) {{ let mut i = 0\n while i < n {{ i += 1 }}\n return i }}\nlet r = f({a})\n",
                             refwhile + f"let r = g({dy(v)})\n"))
                cs.append(mk("while-bound", "int", T, f"while-untyped:{src}:{v}",
                             f"fn f(n) {{ let mut i = 0\n while i < n {{ i += 1 }}\n return i }}\nlet r = f({a})\n",
                             refwhile + f"let r = g({dy(v)})\n"))
    # shift counts up to the i64 width as immediates and in registers (ShlIImm / ShrIImm / ShlII / ShrII)
    for T, vs in VALS.items():
        for K in ("40", "63", "64"):
            for op in ("<<", ">>"):
                cs += param_cases("int", T, vs[0], True, op, K)
    # compound assignment and global increment fast paths (AddI / SubI / IncGlobalI emitted from the statement compiler)
    refc = "fn ga(a, b) { let r = a + b\n return r }\nfn gs(a, b) { let r = a - b\n return r }\nfn gm(a, b) { let r = a * b\n return r }\n"
    for T, vs in VALS.items():
        for v in vs[:2]:
            for launder in (True, False):
                src = "dyn" if launder else "lit"
                a = arg(v, launder)
                cs.append(mk("compound-assign", "int", T, f"local+=3-=1:{src}:{v}",
                             f"fn f(v) {{ let mut x = v\n x += 3\n x -= 1\n return x }}\nlet r = f({a})\n",
                             refc + f"let r = gs(ga({dy(v)}, dyn(3)), dyn(1))\n"))
                cs.append(mk("compound-assign", "int", T, f"param-x*=2:{src}:{v}",
                             f"fn f(x: int) {{ let mut y = x\n y *= 2\n y += 1\n return y }}\nlet r = f({a})\n",
                             refc + f"let r = ga(gm({dy(v)}, dyn(2)), dyn(1))\n"))
                cs.append(mk("compound-assign", "int", T, f"global=g+1:{src}:{v}",
                             f"let mut g = {a}\nfn inc() {{ g = g + 1\n return g }}\nlet r = inc()\n",
                             refc + f"let r = ga({dy(v)}, dyn(1))\n"))
                cs.append(mk("compound-assign", "int", T, f"global+=2:{src}:{v}",
                             f"let mut g = {a}\nfn inc() {{ g += 2\n return g }}\nlet r = inc()\n",
                             refc + f"let r = ga({dy(v)}, dyn(2))\n"))
    # typed array elements
    ARRS = [("Array<Int>", "Array<Int>[1, 2]"), ("Array<Float>", "Array<Float>[1.5, 2.5]"), ("Array<Bool>", "Array<Bool>[true, false]"),
            ("Vec<Int>", "Vec<Int>[3, 4]"), ("Vec<Float>", "Vec<Float>[0.5]"), ("string", '"s"'), ("int", "7"), ("null", "null"),
            ("function", "helper"), ("float", "2.5"), ("bool", "true")]
    for D, K, op in (("Array<Int>", "1", "+"), ("Array<Float>", "2.0", "*"), ("Vec<Int>", "1", "+"), ("Array<Int>", "1", "<"), ("Array<Int>", "3", "&")):
        refb = f"fn ge(a) {{ let e = a[0]\n return e }}\nfn g(a, b) {{ let r = a {op} b\n return r }}\n"
        for T, v in ARRS:
            cs.append(mk("typed-array-elem", D, T, f"load{op}K:{v}",
                         f"fn f(a: {D}) {{ let r = a[0] {op} {K}\n return r }}\nlet r = f({dy(v)})\n",
                         refb + f"let r = g(ge({dy(v)}), {dy(K)})\n"))
    for D, ctor in (("Array<Int>", "Array<Int>(2)"), ("Array<Float>", "Array<Float>(2)"), ("Array<Bool>", "Array<Bool>(2)"),
                    ("Vec<Int>", "Vec<Int>[0, 0]")):
        for T, vs in VALS.items():
            for v in vs[:2]:
                for launder in (True, False):
                    src = "dyn" if launder else "lit"
                    cs.append(mk("typed-array-store", D, T, f"store:{src}:{v}",
                                 f"let a = {ctor}\na[0] = {arg(v, launder)}\nlet r = a[0]\n",
                                 f"let a = dyn({ctor})\nfn st(a, v) {{ a[0] = v\n return a[0] }}\nlet r = st(a, {dy(v)})\n"))
    # typed containers indexed / stored through an index of unknown static type (ArrayLoadF a[k] with k a float ...)
    CONT = [("Array<float>", "Array[10.5, 20.5, 30.5]", "Array<Float>[10.5, 20.5, 30.5]", "1.5"),
            ("Array<int>", "Array[10, 20, 30]", "Array<Int>[10, 20, 30]", "5"),
            ("Array<bool>", "Array[true, false, true]", "Array<Bool>[true, false, true]", "false"),
            ("Vec<int>", "Vec[10, 20, 30]", "Vec<Int>[10, 20, 30]", "5"),
            ("Vec<float>", "Vec[10.5, 20.5]", "Vec<Float>[10.5, 20.5]", "1.5")]
    IDX = [("int", "2"), ("int", "0"), ("int", "7"), ("int", "(-3)"), ("float", "1.0"), ("float", "2.5"), ("float", "0.0"),
           ("bool", "true"), ("null", "null"), ("string", '"1"'), ("array", "Array<Int>[1]"), ("function", "helper")]
    for ann, ctor, dctor, newv in CONT:
        for T, v in IDX:
            # the index comes out of an untyped Vec (as in seeded change C06_r2_2) or through dyn()
            for src, iexpr, pre in (("vec", "box[0]", f"let box = Vec[{v}]\n"), ("dyn", dy(v), "")):
                if src == "vec" and T in ("null", "function", "array"):
                    continue
                cs.append(mk("typed-array-index", ann, T, f"load:{src}:{v}",
                             pre + f"fn f(k) {{ let a: {ann} = {ctor}\n let r = a[k]\n return r }}\nlet r = f({iexpr})\n",
                             pre + f"fn g(k) {{ let a = dyn({dctor})\n let r = a[k]\n return r }}\nlet r = g({iexpr})\n"))
                cs.append(mk("typed-array-index", ann, T, f"store:{src}:{v}",
                             pre + f"fn f(k) {{ let a: {ann} = {ctor}\n a[k] = {newv}\n let r = a[0]\n return r }}\nlet r = f({iexpr})\n",
                             pre + f"fn g(k) {{ let a = dyn({dctor})\n a[k] = {dy(newv)}\n let r = a[0]\n return r }}\nlet r = g({iexpr})\n"))
    # array / vec literals with one element of another runtime kind (ArrayLit / VecLit): the element must either be
    # kept or the literal be a type error -- reference: the value itself
    for D, K in (("int", "1"), ("float", "1.5"), ("bool", "true")):
        for T, vs in VALS.items():
            for v in vs[:2]:
                for lname, lopen in (("array", "["), ("vec", "Vec[")):
                    for posn in (1, 0):
                        elems = [K, K, K]
                        elems[posn] = "f(" + dy(v) + ")"
                        cs.append(mk("literal-element", D, T, f"{lname}:{posn}:{v}",
                                     f"fn f(a: {D}) -> {D} {{ let t = a\n return t }}\nlet arr = {lopen}{', '.join(elems)}]\nlet r = arr[{posn}]\n",
                                     f"let r = {dy(v)}\n"))
    # typed for-each over a value of another kind (StringForLoop / ArrayForLoop / VecForLoop)
    EACH = [("string", '"ab"'), ("Array<int>", "Array<Int>[1, 2]"), ("Vec<int>", "Vec<Int>[1, 2, 3]"), ("Array<float>", "Array<Float>[1.5]")]
    for D, good in EACH:
        for T, v in [("int", "42"), ("float", "2.5"), ("bool", "true"), ("null", "null"), ("function", "helper"),
                     ("string", '"xyz"'), ("array", "Array<Int>[7, 8]"), ("array", "Vec<Int>[9]"), ("array", "Array<Float>[0.5, 1.5]")]:
            cs.append(mk("typed-foreach", D, T, f"count:{v}",
                         f"fn each(s: {D}) {{ let mut n = 0\n for c in s {{ n += 1 }}\n return n }}\nlet r = each({dy(v)})\n",
                         f"fn each(s: Vec<int>) {{ let mut n = 0\n for c in s {{ n += 1 }}\n return n }}\nlet r = each({dy(v)})\n"))
    # no annotation, no dynamic code: regression cases for fix 1cf0449 (sema typed `int OP float` as its LEFT
    # operand, so the enclosing operation was a typed int opcode on a float; found by the C02 tie)
    for op1 in ("*", "+", "-", "/"):
        for op2 in ("+", "*", "<", "==", "&"):
            for a, b, D, T in (("2", "1.5", "float", "float"), ("1.5", "2", "float", "float"), ("2", "3", "int", "int")):
                refb = f"fn g1(a, b) {{ let r = a {op1} b\n return r }}\nfn g2(a, b) {{ let r = a {op2} b\n return r }}\n"
                cs.append(mk("mixed-arith-result", D, T, f"({a}{op1}{b}){op2}2:lit",
                             f"let r = ({a} {op1} {b}) {op2} 2\n",
                             refb + f"let r = g2(g1(dyn({a}), dyn({b})), dyn(2))\n"))
                cs.append(mk("mixed-arith-result", D, T, f"(x{op1}y){op2}2:vars:{a},{b}",
                             f"let x = {a}\nlet y = {b}\nlet t = x {op1} y\nlet r = t {op2} 2\n",
                             refb + f"let r = g2(g1(dyn({a}), dyn({b})), dyn(2))\n"))
    # sized numeric types: int-like OP float-like with honest values, the result then used with an int.
    # The run-time value of the mixed operation is a float (FFG opcodes) for EVERY integer x float type pair, so
    # sema must type it as a float for every pair (seeded change C06_3 dropped f32).  Every typed position:
    # parameters, annotated locals, annotated returns; both operand orders.
    ITS = ("int", "i8", "i16", "i32", "i64", "u8", "u16", "u32", "u64")
    FTS = ("float", "f32", "f64")
    for IT in ITS:
        for FT in FTS:
            for op1 in ARITH:
                for op2 in ("+", "*", "<", ">", "=="):
                    if IT not in ("int", "i32", "u8") and (op1, op2) not in (("*", "+"), ("/", ">"), ("+", "=="), ("-", "*"), ("%", "<")):
                        continue        # full operator product for three int types, a diagonal for the others
                    refb = (f"fn g1(a, b) {{ let r = a {op1} b\n return r }}\nfn g2(a, b) {{ let r = a {op2} b\n return r }}\n")
                    for order, ref in (("if", "let r = g2(g1(dyn(7), dyn(2.5)), dyn(2))\n"), ("fi", "let r = g2(g1(dyn(2.5), dyn(7)), dyn(2))\n")):
                        e = f"x {op1} y" if order == "if" else f"y {op1} x"
                        D = f"{IT}*{FT}"
                        cs.append(mk("sized-mixed-arith", D, D, f"param:{order}:({e}){op2}2",
                                     f"fn f(x: {IT}, y: {FT}) {{ let m = {e}\n let r = m {op2} 2\n return r }}\nlet r = f(7, 2.5)\n",
                                     refb + ref))
                        cs.append(mk("sized-mixed-arith", D, D, f"local:{order}:({e}){op2}2",
                                     f"let x: {IT} = 7\nlet y: {FT} = {'dyn(2.5)' if FT == 'f32' else '2.5'}\nlet m = {e}\nlet r = m {op2} 2\n",
                                     refb + ref))
                        e2 = e.replace("x", "gi()").replace("y", "gf()")
                        cs.append(mk("sized-mixed-arith", D, D, f"return:{order}:({e}){op2}2",
                                     f"fn gi() -> {IT} {{ let v = 7\n return v }}\nfn gf() -> {FT} {{ let v = 2.5\n return v }}\n"
                                     f"let m = {e2}\nlet r = m {op2} 2\n",
                                     refb + ref))
    # a top-level name captured by a closure as int, then rebound to a value of another type (found by the C02 tie)
    for T, vs in VALS.items():
        for v in vs[:2]:
            cs.append(mk("rebound-global", "int", T, f"closure-capture:{v}",
                         f"let mut d = 64\nlet i = fn() {{ d += 3\n return d }}\nlet d = {v}\nlet r = i()\n",
                         f"let mut d = dyn(64)\nlet i = fn() {{ d = radd(dyn(d), dyn(3))\n return d }}\nlet d = {dy(v)}\nlet r = i()\n"))
    return cs


def random_cases(rng, n):
    """Seed-dependent variety on top of the systematic set: random literal values of every runtime type
    (48-bit edge ints, float specials, strings that look like numbers, arrays) and random constants."""
    def rv(T):
        if T == "int":
            return str(rng.choice([rng.randint(-100, 100), rng.randint(-(1 << 47), (1 << 47) - 1), (1 << 47) - 1, -(1 << 47) + 1, 1 << 40]))
        if T == "float":
            return rng.choice(["%.3f" % rng.uniform(-50, 50), "1e300", "-1e-300", "0.0", "9007199254740993.0", "%d.0" % rng.randint(-9, 9),
                               "123456789.125"])
        if T == "bool":
            return rng.choice(["true", "false"])
        if T == "null":
            return "null"
        if T == "string":
            return '"' + rng.choice(["", "a", "7", "2.5", "true", "xyz" * rng.randint(1, 4)]) + '"'
        if T == "array":
            return rng.choice(["Array<Int>[%d]" % rng.randint(0, 5), "Array<Float>[%.2f, 1.0]" % rng.uniform(0, 3), "Vec<Float>[2.5]",
                               "Array<Bool>[true]", "Vec<Int>[]"])
        return rng.choice(["helper", "dyn", "fn(q) { return q }"])
    cs = []
    types = list(VALS)
    while len(cs) < n:
        D = rng.choice(["int", "float"])
        T = rng.choice(types)
        op = rng.choice(ARITH + CMP + (BIT if D == "int" else []))
        K = str(rng.choice([1, 2, 3, 63, 64, 255, 256, 1000])) if D == "int" else rng.choice(["2.0", "0.5", "1.5", "1e10"])
        v = rv(T)
        if v.startswith("-"):
            v = "(" + v + ")"
        cs.append(rng.choice(param_cases(D, T, v, rng.random() < 0.7, op, K)))
    return cs


SAME_TYPE = {("int", "int"), ("float", "float"), ("Array<Int>", "Array<Int>"), ("Array<Float>", "Array<Float>"),
             ("Vec<Int>", "Vec<Int>"), ("Array<Bool>", "bool"), ("Array<Int>", "int"), ("Array<Float>", "float"), ("Vec<Int>", "int"),
             ("int*float", "int*float")}
MISREAD_POSITIONS = ("typed-param", "inferred-param", "typed-return", "loop-bound", "while-bound", "typed-array-elem",
                     "rebound-global")


def run_programs(path, progs, opts, budget=300000):
    """progs: list of source texts -> dict (idx, opt) -> (class, mism, output, detail)."""
    d = os.path.join(vlib.CACHE, "c06")
    os.makedirs(d, exist_ok=True)
    f = os.path.join(d, f"progs_{os.getpid()}.txt")
    res = {}
    n = max(1, min(vlib.NCPU, len(progs) // 50 + 1))
    procs = []
    for k in range(n):
        fk = f + f".{k}"
        open(fk, "w").write("\n=====\n".join(progs[k::n]))
        procs.append((k, fk, subprocess.Popen([path, "--run", fk, "--opts", ",".join(map(str, opts)), "--budget", str(budget)],
                                              stdout=subprocess.PIPE, stderr=subprocess.DEVNULL, text=True, errors="replace")))
    crashed = None
    for k, fk, p in procs:
        out, _ = p.communicate(timeout=1500)
        if p.returncode != 0:
            crashed = (k, out[-1500:])
        for line in out.splitlines():
            t = line.split("\t")
            if len(t) != 7 or not t[0].isdigit():
                continue
            res[(int(t[0]) * n + k, int(t[1]))] = (t[2], int(t[3]), t[4], t[6])
        os.remove(fk)
    return res, crashed


def classify(case, o, r):
    """o, r = (class, mism, output, detail) of the typed and the reference run.
    Returns None (fine), ("skip", why), ("refviol", signature, what) or ("viol", signature, what)."""
    ocl, om, oout, odet = o
    rcl, rm, rout, rdet = r
    if ocl == "compile-error":
        return ("skip", "rejected-by-checker")
    if rcl == "panic" or rm > 0:
        # the reference is itself an accepted program (all operands laundered through untyped code): a misread
        # or panic there is a violation in its own right, with the reference program as the failing input
        return ("refviol", f"untyped-code-misread:{case['position']}:{case['T']}",
                f"the all-dynamic reference program itself misreads a value (class {rcl}, mismatches {rm}, {rdet[:80]})")
    if rcl == "compile-error":
        return ("skip", "reference-rejected")
    same = (case["D"], case["T"]) in SAME_TYPE or case["position"] == "sized-mixed-arith"
    if case["position"] == "typed-array-index":
        same = case["T"] == "int"
    if case["position"] in ("literal-element", "typed-foreach"):
        same = False
    if case["position"] == "float-compare":
        same = True
    pos = case["position"]
    if ocl == "panic" or om > 0:
        how = "panic: " + odet[:60] if ocl == "panic" else f"{om} unchecked-accessor reads of a wrong-kind value (result {oout[:40]!r})"
        if same:
            return ("viol", f"misread-with-matching-types:{pos}:{case['D']}<-{case['T']}", how)
        if ocl == "panic" and "type confusion" not in odet:
            return ("viol", f"panic-other:{pos}:{case['D']}<-{case['T']}", how)
        if pos in MISREAD_POSITIONS:
            return ("viol", f"{pos}-unchecked:{case['D']}<-{case['T']}", how)
        return ("viol", f"misread:{pos}:{case['D']}<-{case['T']}", how)
    if ocl == "runtime:TypeError":
        return None
    if (ocl, oout) == (rcl, rout):
        return None
    what = f"typed run {ocl} {oout[:40]!r} vs generic semantics {rcl} {rout[:40]!r}"
    if pos == "mixed-int-float":
        t1, t2 = case["T"].split("*")
        op = re.match(r"x(\S+?)y:", case["detail"]).group(1)
        if t1 == "int" and t2 == "int" and op in ARITH:
            return ("viol", f"ffg-int-promotion:{op}", what)
    if pos == "literal-element" and ocl == "ok":
        return ("viol", f"literal-element-coerced:pipeline:{case['D']}<-{case['T']}", what)
    if pos == "typed-foreach" and ocl == "ok" and oout.startswith("0"):
        return ("viol", f"typed-foreach-silent:pipeline:{case['D']}<-{case['T']}", what)
    return ("viol", f"divergence:{pos}:{case['D']}<-{case['T']}:{ocl}-vs-{rcl}", what)


def pipeline(ctx, path, prof, cases, opts):
    progs, index = [], {}
    for c in cases:
        for key in ("typed", "ref"):
            if c[key] not in index:
                index[c[key]] = len(progs)
                progs.append(c[key])
    res, crashed = run_programs(path, progs, opts)
    if crashed:
        ctx.violation("hx_c06-run-crash", "pipeline harness process died (abort / stack overflow inside the toolchain?)",
                      {"profile": prof, "output_tail": crashed[1]})
    stats = {"runs": len(res), "ok_same_as_generic": 0, "type_error": 0, "rejected_by_checker": 0, "reference_rejected": 0,
             "violating_runs": 0, "other_error_same_as_generic": 0}
    sigs = {}
    for c in cases:
        for o_ in opts:
            o = res.get((index[c["typed"]], o_))
            r = res.get((index[c["ref"]], o_))
            if o is None or r is None:
                continue
            v = classify(c, o, r)
            if v is None:
                if o[0] == "runtime:TypeError":
                    stats["type_error"] += 1
                elif o[0].startswith("runtime:"):
                    stats["other_error_same_as_generic"] += 1
                else:
                    stats["ok_same_as_generic"] += 1
            elif v[0] == "skip":
                stats["rejected_by_checker" if v[1] == "rejected-by-checker" else "reference_rejected"] += 1
            elif v[0] == "refviol":
                stats["violating_runs"] += 1
                if v[1] not in sigs:
                    rc = dict(c)
                    rc["typed"] = c["ref"]          # replaying runs the failing (reference) program as the subject
                    sigs[v[1]] = (rc, o_, r, r, v[2])
            else:
                stats["violating_runs"] += 1
                if v[1] not in sigs:
                    sigs[v[1]] = (c, o_, o, r, v[2])
    for sig, (c, o_, o, r, what) in sorted(sigs.items()):
        ctx.violation(sig, f"{c['position']} declared {c['D']} holds a {c['T']} ({c['detail']}, -O{o_}, {prof}): {what}",
                      {"profile": prof, "opt": o_, "case": c, "typed_run": o, "reference_run": r,
                       "how": "put case.typed into a file and run hx_c06 --run <file> --opts %d (%s profile)" % (o_, prof)})
    ctx.cov["pipeline_" + prof] = stats
    ctx.cov.setdefault("violation_signatures", {})[prof] = sorted(sigs)
    return stats


def load_corpus():
    d = os.path.join(vlib.VERIF, "corpus", "C06")
    out = []
    if os.path.isdir(d):
        for fn in sorted(os.listdir(d)):
            if fn.endswith(".json"):
                c = json.load(open(os.path.join(d, fn)))
                if "typed" in c and "ref" in c:
                    out.append(c)
    return out


def run(ctx):
    ctx.level = "proof"
    ctx.cov["trusted_base"] = TRUSTED
    ctx.assumptions = [
        "theorems are about the VM's opcode families and the backend's selection function (models tied on every run); "
        "which static types sema hands to the backend is explored by generated programs only",
    ]
    ctx.cov["refuted_lemmas"] = ["eq_on_nan_differs (== on the canonical NaN: IEEE false vs Value == true; both operands are floats)"]
    ctx.cov["repaired"] = ["KF-C06-4 1cf0449 (sema: int OP float typed float)", "KF-C06-7 5bb247f (guarded orderings raise TypeError)",
                           "KF-C06-8 da40ed1 (guarded int selection returns generic bitwise opcodes)",
                           "KF-C06-1,2,3,5,6 7e82908 (every type-specialised opcode checks its operand tags and falls back to the generic operation)"]
    proved = ctx.prove("C06", extracted=["ValueConsts", "Opcodes", "OpcodeSelectTables", "DispatchArms"])
    if ctx.tier == "thorough" and proved:
        ctx.coqchk("C06")
    ok, out = vlib.coq_make(["Base/CaseCheck.vo", "Model/VmArithObs.vo", "Model/OpcodeSelect.vo", "Model/TypedArray.vo"])
    if not ok:
        ctx.broken.append("coq: model files for the C06 ties do not build")
        ctx.log(out[-2000:])
        return
    quick = ctx.tier == "quick"
    # ---- replay of a single recorded case
    if getattr(ctx, "replay_file", None):
        rp = json.load(open(ctx.replay_file))
        rep = rp.get("replay", rp)
        case = rep.get("case") or (rep if "typed" in rep else None)
        if case:
            for prof in ([rep["profile"]] if "profile" in rep else ["dev", "release"]):
                ok, paths, log = vlib.harness_build(["hx_c06"], profile=prof)
                if ok:
                    st = pipeline(ctx, paths["hx_c06"], prof, [case], [rep["opt"]] if "opt" in rep else [0, 1, 2, 3])
                    ctx.log(f"replay {prof}: {st}")
            ctx.cov["evaluations"] = 1
            return
    # ---- tie 1
    t = tie_vmop(ctx, ["dev", "release"], 40 if quick else 2500, lite=quick)
    ctx.log("opcode tie done:", t)
    # ---- ties 2 and 3
    rng = random.Random(ctx.seed)
    corpus = load_corpus()
    cases = gen_cases()
    sel = corpus + cases + random_cases(rng, 400 if quick else 30000)
    total_runs, nsel = 0, 0
    for prof in ("dev", "release"):
        ok, paths, log = vlib.harness_build(["hx_c06"], profile=prof)
        if not ok:
            ctx.broken.append(f"harness build failed (hx_c06, {prof})")
            ctx.log(log[-3000:])
            return
        if prof == "dev":
            nsel = tie_select(ctx, paths["hx_c06"])
            ctx.log("selection tie done:", nsel)
            nsel += tie_arrays(ctx, paths["hx_c06"], 1500 if quick else 60000)
            nsel += tie_arrayops(ctx, paths["hx_c06"], 4000 if quick else 80000)
            ctx.log("typed array tie done")
        st = pipeline(ctx, paths["hx_c06"], prof, sel, [0, 1, 2, 3])
        total_runs += st["runs"]
        ctx.log(f"pipeline {prof}: {st}")
    # generator audit: which opcodes of the model the generated typed programs contain (static, -O0)
    okb, pb, _ = vlib.harness_build(["hx_c06"], profile="release")
    if okb:
        fpo = os.path.join(vlib.CACHE, "c06", f"opc_{os.getpid()}.txt")
        os.makedirs(os.path.dirname(fpo), exist_ok=True)
        open(fpo, "w").write("\n=====\n".join(sorted({c["typed"] for c in sel})))
        rc, out = vlib.sh([pb["hx_c06"], "--opcodes", fpo], timeout=600)
        os.remove(fpo)
        hist = {l.split("\t")[1]: int(l.split("\t")[2]) for l in out.splitlines() if l.startswith("OPC\t")}
        modelled = [n for n in hist if re.fullmatch(r"(Add|Sub|Mul|Div|Mod|Lt|Le|Gt|Ge|Eq|Ne|Shl|Shr|And|Or|Xor)(II|FF|IIG|FFG|I|IImm|Imm)|"
                                                   r"(Add|Sub|Mul|Div|Mod|Neg|Eq|Ne|Lt|Le|Gt|Ge|Not|Shl|Shr|BitAnd|BitOr|BitXor|BitNot|NotI)|"
                                                   r"ForLoopI|ForLoopIInc|WhileLoopLt|IncGlobalI|Array\w+|Vec\w+", n)]
        ctx.cov["pipeline_static_opcodes"] = {n: hist[n] for n in sorted(modelled)}
        ctx.cov["pipeline_opcodes_never_emitted"] = sorted(
            set("AddI SubI AddII SubII MulII DivII ModII AddFF SubFF MulFF DivFF ModFF LtII LeII GtII GeII EqII NeII LtFF LeFF GtFF GeFF EqFF NeFF "
                "LtIImm LeIImm GtIImm GeIImm LtImm LeImm GtImm GeImm AddFFG SubFFG MulFFG DivFFG ModFFG LtFFG LeFFG GtFFG GeFFG EqFFG NeFFG "
                "AddIIG LtIIG ShlII ShrII AndII OrII XorII NotI ShlIImm ShrIImm AndIImm OrIImm XorIImm ForLoopI ForLoopIInc WhileLoopLt IncGlobalI".split())
            - set(hist))
    dist = {(c["position"], c["D"], c["T"], c["detail"]) for c in sel}
    ctx.cov["evaluations"] = (t[0] if t else 0) + nsel + total_runs
    ctx.cov["distinct_nontrivial"] = (t[1] if t else 0) + len(dist)
    ctx.cov["pipeline_cases"] = len(sel)
    ctx.cov["corpus_cases_run_first"] = len(corpus)
    ctx.cov["input_distribution"] = {
        "vmop": "per opcode: cross product of core words (ints 0 +-1 7 +-2^47 edge 64, floats +-0 1.5 -7 inf NaN subnormal 2^53+1, bools, null, "
                "heap pointers: 14 words quick / 23 thorough) + seeded pairs from a 160-word boundary pool (shift counts -1..65, 2^46, 2^47-1, -2^47, "
                "float specials, non-canonical NaNs) and random words; immediates 0..255; loop ops over 13 boundary ints^3 + mistyped registers",
        "select": "16 operators x 42 x 42 resolved types (every base type, Uncertain(base), Uncertain(Uncertain(int/float)))",
        "pipeline": "templates {annotated param (lit/reg/reversed), inferred param, annotated return, mixed int*float, for start/end/step, "
                    "while bound, typed array load/store, nested mixed arithmetic, sized int (i8..u64) x sized float (f32/f64) arithmetic in "
                    "parameters / annotated locals / annotated returns whose result feeds an int operation, rebound global captured by a closure} x "
                    "{int,float,bool,null,string,array,function} values, laundered through untyped code and passed directly, x 16 operators, "
                    "+ seeded random values/constants, x -O0..-O3 x {dev,release}",
        "by_position": {p: sum(1 for c in sel if c["position"] == p) for p in sorted({c["position"] for c in sel})},
    }
    ctx.cov["rule"] = ("evaluations = opcode-level cases (both profiles) + selection cases + pipeline runs (typed and reference programs, 4 levels, "
                       "2 profiles); distinct = distinct opcode queries + distinct (position, declared type, actual type, operator/value) pipeline cases")
    mid = len(corpus) + len(cases) // 2
    ctx.add_samples([{"pipeline_case": {k: sel[i][k] for k in ("position", "D", "T", "detail")}, "typed_program": sel[i]["typed"],
                      "reference_program": sel[i]["ref"]} for i in (len(corpus), mid)])
