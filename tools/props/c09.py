"""C09 -- Manual memory is isolated, bounds-checked and exactly accounted.
Proof (refinement of ManualHeap / std.bytes models to a map of arrays) + contract tie on
operation histories (hx_mheap) + direct reference-map oracle inside the harness."""
import glob, json, os, re
import vlib

TRUSTED = [
    "Coq 8.16.1 kernel + vm_compute (Examples and the finite table sweeps in Proofs/BytesProofs.v)",
    "tools/extractors/c09.py transcribes MAX_ALLOC, the impl_read!/impl_write_int!/impl_write_float! instantiation table "
    "(width, signedness, byte order, accepted range), the fill range, size_of::<Value>() = 8 from `pub struct Value(u64)` "
    "and DEFAULT_MAX_HEAP_BYTES/MIN_HEAP_BYTES from the Rust source text",
    "tools/extractors/c09.py (MemChecks) regenerates the operand-check tables of builtins.rs and memory.inc (operand, check, order, "
    "error kind), VM::manual_heap_error's map and the opcode numbers 28..33; C09_vm_step_is_table_driven proves the hand-written "
    "surface model equal to the interpreter of those tables; an unrecognised source SHAPE falls back to the reference tables "
    "(recorded under notes / operand_check_tables) and leaves the end-to-end tie as the only witness for that piece",
    "Model/ManualHeap.v is a hand model of manual_heap/{heap,alloc,access}.rs, VM::manual_alloc/ensure_heap_capacity, "
    "builtins.rs (alloc/free/load/store) and memory.inc (opcodes 28..33); Model/Bytes.v of stdlib/bytes.rs + vm/resources.rs; "
    "tied on every run by hx_mheap (result kind, value and bytes_allocated() after every step of every history; ManualHeap methods and the native builtins are also called directly, function by function)",
    "usize = u64 = 64 bits; the system allocator never fails for requests that passed ensure_heap_capacity / MAX_ALLOC "
    "(vec![..; n] is modelled as always succeeding: allocation failure is C10's subject)",
    "hook ManualHeap::verif_set_bytes_allocated (cfg vbxq_aelys_lang_verif, /repo 4e9342e) overwrites the charge in the `forged` "
    "scenarios only, to reach alloc's checked_add failure; those start from a state outside the invariant by construction "
    "(the theorems do not speak about them; they are regression ties for fix f05dd1f)",
    "the GC-heap term of ensure_heap_capacity is a free parameter of every theorem; the tie keeps requests out of the "
    "interval where it matters (sizes <= 8 slots or > max_heap_bytes/8)",
    "floats are bit patterns: f64 accessors move the pattern, f32 accessors go through hand-written f64->f32 (round to nearest even) "
    "and f32->f64 conversions on bit patterns (Model/Bytes.v), tied by the histories and spot-checked against the host FPU; "
    "the int-operand path of write_f32/write_f64 (i as f64) is not modelled",
]

IMPORTS = "From Aelys Require Import Extracted.ManualMem Model.ManualHeap Model.ManualHeapObs Model.Bytes Model.BytesObs."


def coq_obs(o):
    return "[" + "; ".join(("(%s)" % t if t.startswith("-") else t) for t in o.split()) + "]%Z"


def run_harness(ctx, binpath, surface, seed, hist, maxlen, extra=None):
    cmd = [binpath, "--seed", str(seed), "--hist", str(hist), "--maxlen", str(maxlen), "--surface", surface] + (extra or [])
    rc, out = vlib.sh(cmd, timeout=1500)
    cases, oracle, dist, harness, texts = [], [], {}, [], []
    for line in out.splitlines():
        if line.startswith("!ORACLE\t"):
            f = line.split("\t")
            oracle.append((f[1], f[2] if len(f) > 2 else "", f[3] if len(f) > 3 else ""))
        elif line.startswith("!HARNESS\t"):
            harness.append(line[9:])
        elif line.startswith("#DIST\t"):
            f = line.split("\t")
            dist[f[1]] = dist.get(f[1], 0) + int(f[2])
        elif "\t" in line and line[0] == "Q":
            f = line.split("\t")
            cases.append((f[0], coq_obs(f[1])))
            texts.append(f[2] if len(f) > 2 else "")
    run_harness.texts = texts
    return rc, out, cases, oracle, dist, harness


def corpus_cases(surface):
    """minimised histories kept from earlier failures: corpus/C09/*.json {surface, ops}"""
    res = []
    for p in sorted(glob.glob(os.path.join(vlib.VERIF, "corpus", "C09", "*.json"))):
        try:
            j = json.load(open(p))
        except Exception:
            continue
        if j.get("surface") == surface:
            res.append((os.path.relpath(p, vlib.VERIF), j["ops"]))
    return res


def run(ctx):
    ctx.level = "proof"
    ctx.cov["trusted_base"] = TRUSTED
    ctx.assumptions = [
        "the models of ManualHeap / VM surfaces / std.bytes are the code: checked by the contract tie on seeded histories",
        "bytes_allocated() = 8 bytes per live manual slot + (since /repo 0d876af) one byte per byte of every live std.bytes buffer; the model keeps the two parts apart (mem_charged) and the tie observes the counter on every surface; the heap-limit refusal of byte-buffer creation is C10's subject (byte totals are kept far below the limit here, the MAX_ALLOC boundary scenario uses a VM with room for one such buffer)",
    ]
    proved = ctx.prove("C09", extracted=["ManualMem", "ValueConsts", "MemChecks"])
    try:
        fb = re.findall(r"\(\* FALLBACK[^\n]*", open(os.path.join(vlib.COQ, "Extracted", "MemChecks.v")).read())
        if fb:
            ctx.notes.append("operand-check tables: source shape not recognised, reference tables used (end-to-end tie still runs): " + " | ".join(fb)[:600])
        ctx.cov["operand_check_tables"] = "fallback" if fb else "regenerated from source"
    except OSError:
        pass
    if ctx.tier == "thorough" and proved:
        ctx.coqchk("C09")
    ok, out = vlib.coq_make(["Base/CaseCheck.vo", "Model/ManualHeapObs.vo", "Model/BytesObs.vo"])
    if not ok:
        ctx.broken.append("coq: model files for the C09 tie do not build")
        ctx.log(out[-2000:])
        return
    quick = ctx.tier == "quick"
    plan = {"api": 400, "forged": 200, "natfn": 300, "builtin": 200, "opcode": 350, "bytes": 500} if quick else \
           {"api": 2500, "forged": 3000, "natfn": 3000, "builtin": 1000, "opcode": 1600, "bytes": 2500}
    maxlen = 200 if quick else 500
    profiles = ["dev"] if quick else ["dev", "release"]
    total, nontrivial, steps = 0, set(), 0
    dist_all = {}
    ctx.cov["direct_oracle_failures"] = 0
    ctx.cov["known_class_hits"] = 0
    rp = getattr(ctx, "replay_file", None)
    replay = None
    if rp:
        # ./check C09 --replay FILE : re-run exactly the recorded history on its surface
        j = json.load(open(rp))
        r = j.get("replay", {})
        hist = r.get("history", "")
        hist = hist.split(" of: ", 1)[1] if " of: " in hist else hist
        if not hist and r.get("ops"):
            hist = r["ops"]
        if not hist or "surface" not in r:
            ctx.broken.append("replay file has no recorded history (model/implementation divergences are replayed by seed)")
            return
        replay = (r["surface"], hist)
        plan = {r["surface"]: 1}
        profiles = [r.get("profile", "dev")]
    for prof in profiles:
        okb, paths, log = vlib.harness_build(["hx_mheap"], profile=prof)
        if not okb:
            ctx.broken.append("harness build failed (hx_mheap, %s)" % prof)
            ctx.log(log[-3000:])
            return
        # boundary scenario at MAX_ALLOC (value read from the source by the translator); oracle only
        if not replay:
            try:
                mx = int(re.search(r"Definition MAX_ALLOC : N := (\d+)%N", open(os.path.join(vlib.COQ, "Extracted", "ManualMem.v")).read()).group(1))
            except Exception:
                mx = None
            if mx and mx <= (1 << 30):
                rc, out, _, oracle, dist, harness = run_harness(ctx, paths["hx_mheap"], "byteslimits", ctx.seed, 1, 1, ["--max-alloc", str(mx)])
                if rc != 0:
                    ctx.violation("hx_mheap-crash:byteslimits", "std.bytes boundary scenario crashed", {"output_tail": out[-1500:]})
                for k, v in dist.items():
                    dist_all["byteslimits:" + k] = dist_all.get("byteslimits:" + k, 0) + v
                for sig, detail, hist in oracle:
                    ctx.cov["direct_oracle_failures"] += 1
                    ctx.violation(sig, detail, {"surface": "byteslimits", "profile": prof, "history": hist, "max_alloc": mx})
                if harness:
                    ctx.broken.append("harness C09 (byteslimits): " + harness[0][:300])
        if not replay:
            rc, out, _, oracle, dist, harness = run_harness(ctx, paths["hx_mheap"], "crossres", ctx.seed, 1, 1)
            if rc != 0:
                ctx.violation("hx_mheap-crash:crossres", "cross-resource scenario crashed", {"output_tail": out[-1500:]})
            for k, v in dist.items():
                dist_all["crossres:" + k] = dist_all.get("crossres:" + k, 0) + v
            for sig, detail, hist in oracle:
                ctx.cov["direct_oracle_failures"] += 1
                ctx.violation(sig, detail, {"surface": "crossres", "profile": prof, "history": hist})
            if harness:
                ctx.broken.append("harness C09 (crossres): " + harness[0][:300])
        for surface, n in plan.items():
            # thorough: a second, independent seed stream per profile
            seeds = [ctx.seed] if (quick or replay) else [ctx.seed, ctx.seed + 7919]
            runs = [("corpus:" + name, ["--replay-ops", ops], ctx.seed) for name, ops in corpus_cases(surface)] + [(None, [], sd) for sd in seeds]
            if replay:
                runs = [("replay", ["--replay-ops", replay[1]], ctx.seed)]
            for tag, extra, run_seed in runs:
                rc, out, cases, oracle, dist, harness = run_harness(
                    ctx, paths["hx_mheap"], surface, run_seed, n if tag is None else 1, maxlen, extra)
                if rc != 0:
                    # find the operation that brought the process down: same run again with a step trace
                    rc2, out2 = vlib.sh([paths["hx_mheap"], "--seed", str(run_seed), "--hist", str(n if tag is None else 1), "--maxlen", str(maxlen),
                                         "--surface", surface, "--trace"] + extra, timeout=1500)
                    steps_seen = [l.split("\t") for l in out2.splitlines() if l.startswith("#STEP\t")]
                    hist_ops = []
                    for f in reversed(steps_seen):           # the steps of the last (crashing) history
                        hist_ops.append(f[3])
                        if f[2] == "0":
                            break
                    hist_ops.reverse()
                    ctx.violation("hx_mheap-crash:" + surface,
                                  "the process running the implementation died (abort / stack overflow / allocation failure) on the last operation of the recorded history",
                                  {"surface": surface, "profile": prof, "seed": run_seed, "history": "; ".join(hist_ops)[-3000:],
                                   "last_operation": hist_ops[-1] if hist_ops else None, "exit_code": rc, "output_tail": out[-800:]})
                    continue
                if harness:
                    ctx.broken.append(f"harness C09 ({surface}): generated program did not run as intended: {harness[0][:300]}")
                for k, v in dist.items():
                    dist_all[surface + ":" + k] = dist_all.get(surface + ":" + k, 0) + v
                # ---- direct oracle (reference map of arrays inside the harness; no Coq model involved)
                seen = set()
                for sig, detail, hist in oracle:
                    ctx.cov["direct_oracle_failures"] += 1
                    if sig in seen:
                        continue
                    seen.add(sig)
                    r = ctx.violation(sig, detail, {"surface": surface, "profile": prof, "history": hist, "oracle": sig,
                                                    "replay_cmd": f"hx_mheap --surface {surface} --replay-ops '<history>'"})
                    if r == "known":
                        ctx.cov["known_class_hits"] += 1
                # ---- correspondence with the Coq model
                total += len(cases)
                for q, o in cases:
                    steps += o.count(";") // 3 + 1
                    if q.count(";") >= 3:
                        nontrivial.add(q)
                fn, eqb = ("bobs", "zlist_eqb") if surface == "bytes" else ("mobs", "zlist_eqb")
                fails, err = vlib.coq_eval_cases("c09" + surface, IMPORTS, fn, eqb, cases, shard=40,
                                                 extra_defs="Local Open Scope N_scope.")
                if err:
                    ctx.broken.append(f"correspondence C09 ({surface}): model evaluation failed")
                    ctx.log(err[-3000:])
                if fails:
                    # evaluate the model on every diverging history (capped), find the first divergent step of each and
                    # classify it; the tie counts as broken only if a divergence is not attributed to an open known finding
                    cap = 600
                    bad = [cases[i] for i in fails[:cap]]
                    bad_texts = [run_harness.texts[i] if i < len(run_harness.texts) else "" for i in fails[:cap]]
                    mo, _ = vlib.coq_eval_terms("c09", IMPORTS + "\nLocal Open Scope N_scope.", [f"{fn} ({q})" for q, _ in bad])
                    dis, unknown, shown = [], len(fails) - len(bad), set()
                    for (q, o), m, txt in zip(bad, mo, bad_texts):
                        d = first_divergence(o, m, 3)
                        # the history up to and including the first divergent step, in --replay-ops form
                        upto = "; ".join(txt.split("; ")[: (d["step"] + 1) if d else None])
                        rec = {"query": q[:1500], "implementation": o[:800], "model": (m or "")[:800],
                               "first_divergent_step": d, "history": upto}
                        sig = f"mheap-tie:{surface}:diverges-from-model"
                        fd = d or {}
                        try:
                            mv = int(fd.get("model", [0, 0])[1])
                        except Exception:
                            mv = 0
                        if surface != "bytes" and (1 << 60) <= mv < (1 << 60) + 100000000:
                            # the model expects the placeholder of a stored heap string, the implementation hands back something else
                            sig = f"mheap-tie:{surface}:stored-heap-object-lost"
                        elif surface == "bytes" and re.search(r"(fsys|netw)\.close\(-?\d", upto):
                            sig = "mheap-tie:bytes:diverges-after-foreign-close"
                        known = any(k.get("status") == "open" and re.search(k["match"], sig) for k in ctx.known)
                        if not known:
                            unknown += 1
                        if len(dis) < 3:
                            dis.append(rec)
                        # a divergence from the model is a concrete input on which the implementation leaves the
                        # proved behaviour; report it (once per signature, twice when unattributed) with its history
                        if (sig not in shown) or (not known and len([1 for x in shown if x == sig]) < 2):
                            shown.add(sig)
                            ctx.violation(sig, "implementation and proved model disagree", {"surface": surface, "profile": prof, **rec})
                    ctx.cov["disagreements"] = (ctx.cov.get("disagreements", []) + dis)[:12]
                    if unknown:
                        ctx.broken.append(f"correspondence C09 ({surface}, {prof}): model and implementation differ on {len(fails)} histories "
                                          f"({unknown} not attributed to an open known finding)")
                    else:
                        ctx.cov["known_class_hits"] += len(fails)
                if tag is None:
                    ctx.add_samples([{"surface": surface, "query": q[:400], "observed": o[:300]} for q, o in cases[:1]], limit=8)
    ctx.cov["evaluations"] = total
    ctx.cov["steps_compared"] = steps
    ctx.cov["distinct_nontrivial"] = len(nontrivial)
    ctx.cov["input_distribution"] = dist_all
    ctx.cov["rule"] = ("one case = one seeded operation history (length 1..%d; 80%% valid operations over a live set of <= 6 buffers, "
                       "20%% malformed: stale / never-issued / huge / negative / non-int handles, zero / huge / negative sizes, offsets at, "
                       "past and far past the end, width-straddling offsets) run step by step on the real implementation "
                       "(ManualHeap API, plus forged-charge scenarios near usize::MAX; builtins as first-class natives; opcodes 28..33 at top level and inside @no_gc functions; "
                       "std.bytes natives) with result kind, value and bytes_allocated() compared against the Coq model after every step, "
                       "and the whole live state compared against a reference map of arrays after every step; "
                       "distinct_nontrivial = distinct histories with at least 4 operations" % maxlen)


def first_divergence(obs_impl, obs_model, k):
    if not obs_model:
        return None
    a = re.findall(r"-?\d+", obs_impl)
    b = re.findall(r"-?\d+", obs_model.split("=", 1)[-1].split(":")[0])
    for i in range(0, min(len(a), len(b)), k):
        if a[i:i + k] != b[i:i + k]:
            return {"step": i // k, "implementation": a[i:i + k], "model": b[i:i + k]}
    return None
