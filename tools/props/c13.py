"""C13 -- @no_gc regions suspend collection and always restore it.
Proof (emission balance, counter machine, restore through calls, refutations) + trace tie (hx_nogc)."""
import glob, os, re
import vlib

TRUSTED = [
    "Coq 8.16.1 kernel + vm_compute (concrete witnesses of the refuted lemmas; model evaluation in the tie)",
    "tools/extractors/c13.py: MAX_NO_GC_DEPTH, opcode numbers 26/27, shape of the two dispatch arms, of VM::enter_no_gc/exit_no_gc/"
    "maybe_collect (guard precedes collect), and the position of the ExitNoGc emission relative to the return expression "
    "(compile_typed_return) and to the trailing value (compile_typed_body) are read from the Rust source text",
    "Model/NoGc.v is a hand model of the emission (typed pipeline only: compile_typed_body / compile_typed_return), of the inliner's "
    "try_simple_inline on leaf functions and of the VM counter; tied on every run by hx_nogc (counters of the GC hook)",
    "hook runtime/src/verif.rs (gc_safepoint/gc_decide/gc_collected) counts safepoints and collections by depth; VM::no_gc_depth()",
    "collection paths: the translator's textual scan for call sites of VM::collect / Heap::sweep (collect_paths); a collection reached through a "
    "function pointer or a differently named wrapper is seen only dynamically (hook inside VM::collect; heap-filling regions must end in OutOfMemory)",
    "allocation points = the 5 maybe_collect call sites (string +, alloc(), function object creation, closure creation); "
    "array/vec/native allocations never reach maybe_collect and are outside the model",
    "the harness's own interpreter of the skeleton (hx_nogc.rs, Sim) is the search oracle: which safepoints lie inside a source-level region",
]
IMPORTS = "From Aelys Require Import Extracted.NoGcConsts Model.NoGc Model.NoGcObs."
CLASS = {0: "ok", 1: "DivisionByZero", 2: "InvalidBytecode(no_gc underflow?)", 3: "budget", 7: "compile-error", 8: "panic", 9: "other-runtime-error"}


def parse_lines(out):
    rows = []
    for line in out.splitlines():
        f = line.split("\t")
        if len(f) < 11:
            if f and ("FAIL" in line):
                rows.append({"bad": line})
            continue
        rows.append({"sid": f[0], "input": int(f[1]), "opt": int(f[2]), "term": f[3], "n0": int(f[4]), "d0": int(f[5]),
                     "obs": [int(x) for x in f[6].split()], "e0": [int(x) for x in f[7].split()],
                     "e1": [int(x) for x in f[8].split()], "skel": f[9], "src": f[10], "detail": f[11] if len(f) > 11 else ""})
    return rows


def oracle(ctx, r, stats):
    """Direct property oracle on the implementation's own counters (no Coq model involved):
    the expectation comes from the harness's interpreter of the source skeleton."""
    obs, e0, e1 = r["obs"], r["e0"], r["e1"]
    cls, d1, sp, sp_pos, col, col_pos = obs
    rep = {"session": r["sid"], "input": r["input"], "opt": r["opt"], "skeleton": r["skel"], "source": r["src"],
           "observed": {"class": CLASS.get(cls, cls), "depth_before": r["d0"], "depth_after": d1, "safepoints": sp,
                        "safepoints_depth>0": sp_pos, "collections": col, "collections_depth>0": col_pos},
           "expected_by_source_semantics": {"class": CLASS.get(e0[0]), "safepoints": e0[2], "safepoints_in_region": e0[4]},
           "detail": r["detail"]}
    # 1. no collection while depth > 0 -- and, with collection forced, every safepoint at depth 0 collects
    if col_pos != 0:
        ctx.violation("collect-at-positive-depth", f"{col_pos} collections ran while no_gc_depth > 0", rep)
    if col != sp - sp_pos:
        ctx.violation("forced-collection-count", f"{col} collections for {sp - sp_pos} safepoints at depth 0 (forced schedule)", rep)
    if cls == 2 and e0[0] != 2 and e1[0] != 2:
        ctx.violation("exit-underflow", "ExitNoGc ran at depth 0 (InvalidBytecode: no_gc underflow) in compiled code", rep)
        return
    foreign = cls not in (0, 1, 2) or cls != e0[0] and cls != e1[0]
    if foreign:
        stats["foreign"] += 1
        stats.setdefault("foreign_kinds", {}).setdefault(r["detail"].split("\\n")[0][:60], 0)
        stats["foreign_kinds"][r["detail"].split("\\n")[0][:60]] += 1
        # a failure that is not part of the skeleton (a defect of another property ended the run early):
        # the count expectations do not apply; the restore half of the property still does
        if cls in (7,):
            return
        if d1 != r["d0"]:
            ctx.violation("depth-not-restored-after-error:foreign-error",
                          f"runtime error ({r['detail'][:80]}) left no_gc_depth at {d1}, was {r['d0']}", rep)
        return
    # 2. depth restored, whatever the outcome
    if d1 != r["d0"]:
        if cls == 0:
            ctx.violation("depth-unbalanced-on-ok-run", f"run ended ok with no_gc_depth {d1}, was {r['d0']}", rep)
        else:
            ctx.violation("depth-not-restored-after-error", f"no_gc_depth {r['d0']} -> {d1} after a runtime error", rep)
    # 3. every safepoint inside a source-level region is reached with depth > 0, the others at depth 0
    #    (meaningful when the depth was 0 at the start)
    if r["d0"] == 0:
        flagged = e0[4]
        if sp != e0[2]:
            ctx.violation("safepoint-total-mismatch", f"{sp} safepoints observed, the source semantics has {e0[2]}", rep)
        elif sp_pos < flagged:
            ctx.violation("region-safepoint-at-depth0",
                          f"{flagged - sp_pos} of {flagged} safepoints inside a @no_gc region were reached with no_gc_depth = 0", rep)
        elif sp_pos > flagged:
            ctx.violation("safepoint-outside-region-at-positive-depth",
                          f"{sp_pos} safepoints at depth>0 but only {flagged} inside a source-level region", rep)
    elif sp_pos != sp:
        ctx.violation("depth-positive-but-safepoint-at-0", "a safepoint was counted at depth 0 although the run started and stayed at depth > 0", rep)


FILL_CLASS = {0: "ok", 1: "OutOfMemory", 3: "budget", 7: "compile-error", 8: "panic", 9: "other-runtime-error"}


def parse_fill(out):
    rows = []
    for line in out.splitlines():
        f = line.split("\t")
        if f[0] == "FILLFAIL":
            rows.append({"bad": line})
        if f[0] != "FILL" or len(f) < 7:
            continue
        sp = f[2].split(":")
        rows.append({"spec": f[2], "template": sp[0], "n": int(sp[1]), "limit": int(sp[4]), "opt": int(sp[5]), "mode": int(sp[6]), "host": int(sp[7]),
                     "region": f[3] == "1", "region_bytes": int(f[4]), "obs": [int(x) for x in f[5].split()], "src": f[6], "detail": f[7] if len(f) > 7 else ""})
    return rows


def fill_oracle(ctx, r, stats):
    """programs that allocate inside a region until the configured heap limit is reached: nothing may be reclaimed there"""
    cls, d0, d1, sp, sp_pos, col, col_pos, h0, h1 = r["obs"]
    rep = {"fill": r["spec"], "template": r["template"], "max_heap_bytes": r["limit"], "opt": r["opt"], "gc_mode": r["mode"], "host_depth": r["host"],
           "source": r["src"], "observed": {"class": FILL_CLASS.get(cls, cls), "depth_before": d0, "depth_after": d1, "safepoints": sp,
                                            "safepoints_depth>0": sp_pos, "collections": col, "collections_depth>0": col_pos,
                                            "heap_bytes_before": h0, "heap_bytes_after": h1},
           "bytes_allocated_inside_the_region_at_least": r["region_bytes"], "detail": r["detail"],
           "replay_cmd": f"hx_nogc --fill-cases {r['spec']}"}
    k = "fill:" + FILL_CLASS.get(cls, str(cls)) + (":region" if r["region"] else ":control")
    stats[k] = stats.get(k, 0) + 1
    # every collection is counted by the hook inside VM::collect itself, with the depth at which it ran -- also one that did
    # not come through maybe_collect
    if col_pos != 0:
        ctx.violation("collect-at-positive-depth", f"{col_pos} collection(s) ran while no_gc_depth > 0 ({r['template']}, max heap {r['limit']}, -O{r['opt']})", rep)
    if d1 != d0:
        ctx.violation("depth-not-restored-after-error" if cls != 0 else "depth-unbalanced-on-ok-run",
                      f"no_gc_depth {d0} -> {d1} ({FILL_CLASS.get(cls, cls)}) in a heap-filling region", rep)
    if cls in (8, 9, 3, 7):
        ctx.violation("fill-unexpected-outcome", f"{FILL_CLASS[cls]} in a heap-filling program: {r['detail'][:120]}", rep)
        return
    # inside the region nothing is reclaimed: a region that allocates more than twice the limit cannot complete
    if r["region"] and cls == 0 and r["region_bytes"] >= 2 * r["limit"]:
        ctx.violation("region-outlived-heap-limit", f"the region allocated at least {r['region_bytes']} bytes under a limit of {r['limit']} and completed: "
                      "something was reclaimed while no_gc_depth > 0", rep)
    if r["region"] and cls == 1 and sp_pos > 0:
        stats["fill:oom-after-region-safepoints"] = stats.get("fill:oom-after-region-safepoints", 0) + 1


FEATURES = ["fn:@no_gc", "fn:normal", "fn:nested", "fn:lambda", "fn:captures", "fn:leaf-return", "fn:leaf-trailing-value", "fn:empty-body",
            "deco:@inline+@no_gc", "deco:@inline_always+@no_gc", "deco:@no_gc+@inline", "deco:@no_gc+@inline_always",
            "stmt:for", "stmt:while", "stmt:break", "stmt:continue", "stmt:if-else", "stmt:return-atom", "stmt:return-safepoint",
            "stmt:return-call", "stmt:return-failing", "stmt:failing", "stmt:alloc-native", "stmt:alloc-array", "safepoint:alloc()", "safepoint:string+",
            "run:ok", "run:error-outside-region", "run:error-inside-region", "run:safepoint-in-region", "run:host-depth>0", "run:host-depth>64",
            "opt:0", "opt:1", "opt:2", "opt:3", "run:nested-region-depth>=2"]


def audit(r, feat):
    """feature counts of one run (skeleton text + the harness interpreter's expectation)"""
    sk = r["skel"]
    def bump(k, c=True):
        if c:
            feat[k] += 1
    bump("fn:@no_gc", "(fn nogc" in sk); bump("fn:normal", "(fn gc" in sk)
    bump("fn:nested", re.search(r"\(fn (?:nogc|gc) \d+ ", sk) is not None); bump("fn:lambda", " lam" in sk); bump("fn:captures", "+c" in sk)
    bump("fn:leaf-return", "leafret" in sk); bump("fn:leaf-trailing-value", "leafimp" in sk)
    bump("fn:empty-body", re.search(r"\(fn (?:nogc|gc) -?\d+ body(?:\+c)?(?:@\d)? \)", sk) is not None)
    for k, d in (("deco:@inline+@no_gc", 1), ("deco:@inline_always+@no_gc", 2), ("deco:@no_gc+@inline", 3), ("deco:@no_gc+@inline_always", 4)):
        bump(k, re.search(r"\(fn nogc -?\d+ \S*@%d " % d, sk) is not None)
    bump("stmt:for", "(for " in sk); bump("stmt:while", "(while " in sk); bump("stmt:break", "brk" in sk); bump("stmt:continue", "cont" in sk)
    bump("stmt:if-else", re.search(r"\(if \S+(?: \d+\))? \([^()]*(?:\([^()]*\)[^()]*)*\) \([^)]", sk) is not None)
    bump("stmt:return-atom", "(ret atom" in sk); bump("stmt:return-safepoint", "(ret safe" in sk); bump("stmt:return-call", "(ret (call" in sk)
    bump("stmt:return-failing", "(ret fail" in sk); bump("stmt:failing", "(x fail)" in sk)
    bump("stmt:alloc-native", "atom1" in sk); bump("stmt:alloc-array", "atom2" in sk)
    bump("safepoint:alloc()", "safe0" in sk); bump("safepoint:string+", "safe1" in sk)
    e = r["e0"]
    bump("run:ok", e[0] == 0); bump("run:safepoint-in-region", e[4] > 0)
    bump("run:error-outside-region", e[0] == 1 and r["obs"][0] == 1 and "nogc" not in sk)
    bump("run:error-inside-region", e[0] == 1 and "nogc" in sk)
    bump("run:host-depth>0", r["d0"] > 0); bump("run:host-depth>64", r["d0"] > 64)
    bump("opt:%d" % r["opt"]) if r["opt"] in (0, 1, 2, 3) else None
    bump("run:nested-region-depth>=2", r["obs"][3] > 0 and sk.count("(fn nogc") >= 2)


def correspond(ctx, rows, tag):
    cases, idx = [], []
    for k, r in enumerate(rows):
        obs = r["obs"]
        if obs[0] not in (0, 1, 2):
            continue
        if obs[0] != r["e0"][0] and obs[0] != r["e1"][0]:
            continue        # foreign failure (see oracle)
        q = f"QRun {'true' if r['opt'] >= 1 else 'false'} ({r['term']}) ({r['n0']})%Z {r['d0']}%N"
        o = "([" + "; ".join(("(%d)" % x if x < 0 else str(x)) for x in obs + [r["e0"][4]]) + "]%Z, @None (list Z))"
        cases.append((q, o))
        idx.append(k)
    # thorough: hundreds of thousands of cases -- larger shards and a longer overall timeout (the machine is shared)
    big = len(cases) > 50000
    fails, err = vlib.coq_eval_cases(tag, IMPORTS, "nobs", "nobs_eqb", cases, shard=1000 if big else 250, timeout=3000 if big else 900)
    if err:
        ctx.broken.append("correspondence C13: model evaluation failed")
        ctx.log(err[-3000:])
    if fails:
        ctx.broken.append(f"correspondence C13: model and implementation differ on {len(fails)} of {len(cases)} runs")
        bad = [rows[idx[i]] for i in fails[:6]]
        mo, _ = vlib.coq_eval_terms(tag, IMPORTS, [f"nobs (QRun {'true' if r['opt'] >= 1 else 'false'} ({r['term']}) ({r['n0']})%Z {r['d0']}%N)" for r in bad])
        ctx.cov["disagreements"] = [{"session": r["sid"], "input": r["input"], "opt": r["opt"], "skeleton": r["skel"],
                                     "implementation": r["obs"], "model": m, "source": r["src"]} for r, m in zip(bad, mo)]
        for r in bad[:2]:
            ctx.violation("model-vs-implementation", "the emission/counter model does not predict the observed counters",
                          {"session": r["sid"], "input": r["input"], "opt": r["opt"], "skeleton": r["skel"], "source": r["src"],
                           "implementation": r["obs"]})
    return len(cases)


def run(ctx):
    ctx.level = "proof"
    ctx.cov["trusted_base"] = TRUSTED
    ctx.assumptions = [
        "the emission model is the compiler: checked by the trace tie below (generated programs x -O0..-O3 x REPL sessions)",
        "only the typed pipeline (run_with_vm_and_opt -> compile_typed) is exercised; the untyped Compiler::compile path has the same shape but is not tied",
    ]
    proved = ctx.prove("C13", extracted=["NoGcConsts", "GcRootFields"])
    if ctx.tier == "thorough" and proved:
        ctx.coqchk("C13")
    ok, out = vlib.coq_make(["Base/CaseCheck.vo", "Model/NoGcObs.vo"])
    if not ok:
        ctx.broken.append("coq: model files for the C13 tie do not build")
        ctx.log(out[-2000:])
        return
    profiles = ["dev"] if ctx.tier == "quick" else ["dev", "release"]
    sessions = 1200 if ctx.tier == "quick" else 30000
    stats = {"foreign": 0}
    total, distinct, tied = 0, set(), 0
    corpus = sorted(glob.glob(os.path.join(vlib.VERIF, "corpus", "C13", "*.sx")))
    fill_replay = None
    if ctx.replay_file:
        import json
        rp = json.load(open(ctx.replay_file)).get("replay", {})
        if "fill" in rp:
            fill_replay, corpus, sessions = rp["fill"], [], 0
        if "skeleton" in rp:
            p = os.path.join(vlib.CACHE, "c13_replay.sx")
            open(p, "w").write(rp["skeleton"] + "\n")
            corpus, sessions = [p], 0
    dist = {"generated": 0, "corpus": 0}
    fstats, fill_total = {}, 0
    feat = {k: 0 for k in FEATURES}
    for prof in profiles:
        ok, paths, log = vlib.harness_build(["hx_nogc"], profile=prof)
        if not ok:
            ctx.broken.append("harness build failed (hx_nogc, %s)" % prof)
            ctx.log(log[-3000:])
            return
        outs = []
        if corpus:
            rc, out = vlib.sh([paths["hx_nogc"], "--corpus", ",".join(corpus)], timeout=600)
            if rc != 0:
                ctx.violation("hx_nogc-crash", "harness crashed on the corpus", {"profile": prof, "output_tail": out[-2000:]})
                return
            outs.append(out)
        if sessions:
            rc, out = vlib.sh([paths["hx_nogc"], "--seed", str(ctx.seed), "--sessions", str(sessions)], timeout=1500)
            if rc != 0:
                ctx.violation("hx_nogc-crash", "harness crashed (abort inside the VM?)", {"profile": prof, "output_tail": out[-2000:]})
                return
            outs.append(out)
        # heap-filling regions under a small configured limit (strings, vec growth, arrays; the region as a @no_gc function, a
        # lambda in one, a plain callee of one, a region opened by the host, one region per iteration) + the same loop outside any region
        fcorpus = [l.strip() for f in sorted(glob.glob(os.path.join(vlib.VERIF, "corpus", "C13", "*.cases"))) for l in open(f) if l.strip() and not l.startswith("#")]
        fouts = []
        if fill_replay:
            fcorpus = [fill_replay]
        if fcorpus and (fill_replay or not ctx.replay_file):
            rc, out = vlib.sh([paths["hx_nogc"], "--fill-cases", ",".join(fcorpus)], timeout=600)
            if rc != 0:
                ctx.violation("hx_nogc-crash", "harness crashed on a heap-filling program", {"profile": prof, "fill_cases": fcorpus, "output_tail": out[-2000:]})
                return
            fouts.append(out)
        if sessions:
            rc, out = vlib.sh([paths["hx_nogc"], "--fill", "--seed", str(ctx.seed), "--random", "150" if ctx.tier == "quick" else "3000",
                               "--opts", "0,2" if ctx.tier == "quick" else "0,1,2,3"] + ([] if ctx.tier == "quick" else ["--limits", "1048576,2097152,4194304"]), timeout=1500)
            if rc != 0:
                ctx.violation("hx_nogc-crash", "harness crashed on a heap-filling program", {"profile": prof, "output_tail": out[-2000:]})
                return
            fouts.append(out)
        frows = [r for o in fouts for r in parse_fill(o)]
        for r in frows:
            if "bad" in r:
                ctx.broken.append("hx_nogc --fill: " + r["bad"][:200])
        frows = [r for r in frows if "bad" not in r]
        for r in frows:
            fill_oracle(ctx, r, fstats)
            fill_total += 1
        rows = [r for o in outs for r in parse_lines(o)]
        for r in rows:
            if "bad" in r:
                ctx.broken.append("hx_nogc: " + r["bad"][:200])
        rows = [r for r in rows if "bad" not in r]
        total += len(rows)
        for r in rows:
            audit(r, feat)
            dist["corpus" if r["sid"].startswith("corpus") else "generated"] += 1
            if r["e0"][2] > r["e0"][2] - r["e0"][4] or r["e0"][0] != 0:
                distinct.add((r["skel"], r["opt"], r["d0"]))
            oracle(ctx, r, stats)
        tied += correspond(ctx, rows, "c13" + prof)
        ctx.add_samples([{"session": r["sid"], "input": r["input"], "opt": r["opt"], "skeleton": r["skel"], "observed": r["obs"]}
                         for r in rows[:2] + rows[len(rows) // 2: len(rows) // 2 + 2]])
    ctx.cov["input_distribution"] = {"runs": dist, "features": feat}
    starved = [k for k, v in feat.items() if v < (5 if ctx.tier == "quick" else 50) and not k.startswith("outcome:")]
    if starved and sessions:
        ctx.broken.append("generator audit C13: starved feature classes " + ", ".join(starved))
    ctx.cov["heap_filling_regions"] = {"runs": fill_total, "outcomes": fstats}
    if sessions:
        fneed = {"fill:OutOfMemory:region": 40, "fill:ok:region": 20, "fill:ok:control": 4, "fill:oom-after-region-safepoints": 40}
        fstarved = [k for k, v in fneed.items() if fstats.get(k, 0) < v]
        if fstarved:
            ctx.broken.append("generator audit C13: starved heap-filling classes " + ", ".join(fstarved))
    ctx.cov["evaluations"] = total + fill_total
    ctx.cov["distinct_nontrivial"] = len(distinct)
    ctx.cov["model_evaluations"] = tied
    ctx.cov["foreign_failures"] = stats
    ctx.cov["input_distribution"].update({
        "text": "REPL sessions of 1-4 inputs on one VM after a fixed prelude; each input = 1-5 functions (each @no_gc with p=1/2; 1/4 nested "
                "fn or lambda inside an earlier one; 1/6 two-parameter leaf `a + b` with or without `return`) + top-level statements; "
                "bodies from {alloc/free, string +, guarded and unguarded calls incl. recursion, if/else, for, while, break, continue, "
                "return e with e from atom/alloc/string +/call/division by zero, division by zero (also inside open regions)}; every input at "
                "-O0..-O3; unrestricted (the three former defect classes -- safepoint in a return expression, inlined @no_gc leaf, error inside "
                "an open region -- are repaired and part of the stream); runs ended early by a defect of another property "
                "(undefined variable after nested functions, type confusion) are counted as foreign_failures and only checked for depth/collection",
    })
    ctx.cov["rule"] = ("per run: counters of the GC hook with a collection forced at every safepoint; collections at depth>0 = 0; "
                       "safepoints at depth>0 = safepoints inside a source-level @no_gc region (harness interpreter) when the run starts at depth 0; "
                       "heap-filling regions under max_heap_bytes 1/2 MiB (gc modes: VM decides / never / every k-th / random): collections at depth>0 = 0 (the hook sits in VM::collect itself), "
                       "depth restored after the OutOfMemory, a region that allocates >= 2 x the limit does not complete; "
                       "vm.no_gc_depth() after = before; model (Coq, vm_compute) = observation on [class, depth after, safepoints, at depth>0, "
                       "collections, 0, in-region count]; distinct = distinct (skeleton, opt, entry depth) with a region safepoint or an error")
