"""Seeded generator of Aelys programs for the C08 observational tie (also used by C07 as the
source of near-valid inputs).  Every program is a random selection of feature snippets
(each exercising one opcode family / constant kind / table) with random parameters."""
import random

INTS = [0, 1, 2, 3, 7, 10, 42, 255, 256, 1000, 65535, 65536, 99999, 1234567, 140737488355327 // 3, 2 ** 40 + 5]
FLOATS = ["0.5", "1.0", "2.5", "3.14159", "1.5e300", "2.5e-10", "0.1", "0.2", "100.0", "6.02e23", "1.0e-300", "123456.789"]
STRS = ["abc", "héllo", "wörld 😀", "tab\\there", "q\\\"uote", "back\\\\slash", "line\\nbreak", "", " ", "a b c", "{{braces}}", "日本語", "x", "nel\u0085x", "\x01ctl\x7f", "nbsp\u00a0\u2028"]


def S(r):
    return r.choice(STRS)


class G:
    def __init__(self, r, pr):
        self.r, self.pr, self.k = r, pr, 0

    def n(self, base):
        self.k += 1
        return f"{base}{self.k}"


def sn_arith(g):
    r, p = g.r, g.pr
    a, b, c = r.choice(INTS), r.choice(INTS) + 1, r.randint(1, 50)
    x, y = g.n("a"), g.n("b")
    return [f"let {x} = {a}", f"let {y} = {b}",
            f"{p}({x} + {y} * {c} - ({x} % {c}))", f"{p}({x} / {y})", f"{p}(-{x} + {y})",
            f"{p}({x} < {y})", f"{p}({x} == {y} or {x} != {y})", f"{p}({x} >= {c} and {y} <= {c})"]


def sn_float(g):
    r, p = g.r, g.pr
    a, b = r.choice(FLOATS), r.choice(FLOATS)
    x, y = g.n("f"), g.n("h")
    return [f"let {x} = {a}", f"let {y} = {b}", f"{p}({x} * {y})", f"{p}({x} + {y} - 0.25)", f"{p}({x} / ({y} + 1.0))",
            f"{p}({x} < {y})", f"{p}({x} > 2)", f"{p}(-{x})", f"{p}({r.choice(INTS)} + {x})"]


def sn_string(g):
    r, p = g.r, g.pr
    s, t = g.n("s"), g.n("t")
    v = r.randint(0, 99)
    return [f'let {s} = "{S(r)}"', f'let {t} = "{S(r)}"', f"{p}({s} + {t})", f'{p}("v={{{s}}} n={v} sum={{{v} + 1}}")',
            f'{p}({s} == {t})', f'{p}("{S(r)}" + "{S(r)}" + {s})']


def sn_calls_loop(g):
    """two global call sites executed repeatedly inside a function (slot-id sensitive)"""
    r, p = g.r, g.pr
    a, b, run = g.n("ca"), g.n("cb"), g.n("run")
    k1, k2, n = r.randint(1, 9), r.randint(1, 9), r.randint(2, 5)
    return [f"fn {a}(x) {{ return x + {k1} }}", f"fn {b}(x) {{ return x * {k2 + 1} }}",
            f"fn {run}() {{", "  let mut s = 0", "  let mut i = 0", f"  while i < {n} {{", f"    s = s * 10 + {a}(i)",
            f"    s = s + {b}(i)", "    i = i + 1", "  }", "  return s", "}", f"{p}({run}())"]


def sn_calls_toplevel(g):
    r, p = g.r, g.pr
    a, b = g.n("ta"), g.n("tb")
    return [f"fn {a}(x, y) {{ return x - y }}", f"fn {b}() {{ return {r.choice(INTS)} }}",
            f"{p}({a}({b}(), {r.randint(0, 9)}))", f"{p}({b}() + {a}(1, 2))"]


def sn_closure(g):
    r, p = g.r, g.pr
    mk, c, d = g.n("mk"), g.n("c"), g.n("d")
    st = r.randint(0, 100)
    return [f"fn {mk}(start) {{", "  let mut count = start", "  return fn() -> int {", "    count++", "    return count", "  }", "}",
            f"let {c} = {mk}({st})", f"let {d} = {mk}({st + 50})", f"{p}({c}())", f"{p}({c}())", f"{p}({d}())", f"{p}({c}() + {d}())"]


def sn_closure2(g):
    r, p = g.r, g.pr
    add, f = g.n("adder"), g.n("ad")
    return [f"fn {add}(a) {{", "  return fn(b) {", "    return fn(c) { return a + b + c }", "  }", "}",
            f"let {f} = {add}({r.randint(1, 9)})", f"{p}({f}({r.randint(1, 9)})({r.randint(1, 9)}))"]


def sn_recursion(g):
    r, p = g.r, g.pr
    fib, fact = g.n("fib"), g.n("fact")
    return [f"fn {fib}(n) {{ if n < 2 {{ return n }} return {fib}(n - 1) + {fib}(n - 2) }}",
            f"fn {fact}(n: int) -> int {{ if n <= 1 {{ return 1 }} return n * {fact}(n - 1) }}",
            f"{p}({fib}({r.randint(5, 12)}))", f"{p}({fact}({r.randint(3, 12)}))"]


def sn_loops(g):
    r, p = g.r, g.pr
    t = g.n("acc")
    n = r.randint(3, 9)
    return [f"let mut {t} = 0", f"for i in 0..{n} {{ {t} += i }}", f"{p}({t})",
            f"for i in 0..={n} step 2 {{ {t} = {t} + i * 2 }}", f"{p}({t})",
            f"let mut w{t} = {n}", f"while w{t} > 0 {{", f"  w{t}--", f"  if w{t} == 2 {{ continue }}", f"  if w{t} == 0 {{ break }}", f"  {t} += w{t}", "}",
            f"{p}({t})", f'for ch in "{r.choice(["abc", "héé", "x😀y"])}" {{ {p}(ch) }}']


def sn_arrays(g):
    r, p = g.r, g.pr
    a, v = g.n("arr"), g.n("vec")
    xs = ", ".join(str(r.randint(0, 99)) for _ in range(r.randint(2, 5)))
    return [f"let {a} = Array[{xs}]", f"{p}({a}[1])", f"{a}[0] = {r.randint(0, 9)}", f"{a}[1] += 5", f"{p}({a}[0] + {a}[1])",
            f"let {v} = Vec[{xs}]", f"{v}.push({r.randint(0, 9)})", f"{p}({v}.len())",
            f"let mut t{v} = 0", f"for it in {v} {{ t{v} += it }}", f"{p}(t{v})"]


def sn_bitwise(g):
    r, p = g.r, g.pr
    a, b = r.choice(INTS[:12]), r.randint(1, 12)
    return [f"{p}({a} & {b})", f"{p}({a} | {b})", f"{p}({a} ^ {b})", f"{p}({a} << {b % 8})", f"{p}({a} >> {b % 8})", f"{p}(~{a})",
            f"{p}(0xFF + 0b1010 + 0o17)"]


def sn_logic(g):
    r, p = g.r, g.pr
    f, c = g.n("side"), g.n("cnt")
    return [f"let mut {c} = 0", f"fn {f}(v) {{ {c}++", "  return v }",
            f"{p}({f}(true) or {f}(false))", f"{p}({f}(false) and {f}(true))", f"{p}(not {f}(false))", f"{p}({c})"]


def sn_nogc(g):
    r, p = g.r, g.pr
    f = g.n("raw")
    return ["@no_gc", f"fn {f}(n: int) -> int {{", "  let b = alloc(n)", f"  store(b, 0, {r.randint(1, 99)})", "  store(b, 1, 2)",
            "  let v = load(b, 0) + load(b, 1)", "  free(b)", "  return v", "}", f"{p}({f}({r.randint(2, 8)}))"]


def sn_globals(g):
    r, p = g.r, g.pr
    n = r.choice([5, 20, 40])
    base = g.n("gv")
    out = [f"let {base}_{i} = {i * 3 + 1}" for i in range(n)]
    out.append(f"{p}(" + " + ".join(f"{base}_{i}" for i in range(0, n, max(1, n // 5))) + ")")
    out += [f"let mut {base}m = 0", f"for i in 0..4 {{ {base}m++ }}", f"{base}m += {base}_1", f"{p}({base}m)"]
    return out


def sn_higher(g):
    r, p = g.r, g.pr
    ap, db = g.n("apply"), g.n("dbl")
    return [f"fn {ap}(f, x) {{ return f(f(x)) }}", f"fn {db}(n) {{ n * 2 }}", f"{p}({ap}({db}, {r.randint(1, 20)}))",
            f"{p}({ap}(fn(x) {{ x + {r.randint(1, 9)} }}, 1))", f"let l{ap} = fn(a: int, b: int) -> int {{ a * b }}", f"{p}(l{ap}(3, {r.randint(2, 9)}))"]


def sn_nested_fn(g):
    r, p = g.r, g.pr
    o = g.n("outer")
    return [f"fn {o}(x) {{", "  fn mid(y) {", "    fn inner(z) { return z * 2 }", "    return inner(y) + 1", "  }", f"  return mid(x) + {r.randint(1, 9)}", "}",
            f"{p}({o}({r.randint(1, 20)}))"]


def sn_mutparam(g):
    r, p = g.r, g.pr
    f = g.n("bump")
    return [f"fn {f}(mut acc: int, n: int) -> int {{", "  for i in 0..n { acc++ }", "  acc -= 1", "  acc *= 2", "  return acc", "}",
            f"{p}({f}({r.randint(0, 9)}, {r.randint(1, 6)}))"]


def sn_ifelse(g):
    r, p = g.r, g.pr
    f = g.n("sign")
    return [f"fn {f}(x) {{", "  if x < 0 { return -1 } else if x == 0 { return 0 } else { return 1 }", "}",
            f"{p}({f}({r.randint(-5, 5)}) + {f}(0) * {f}(9))", f"{p}(null)", f"{p}(true)"]


def sn_bigint(g):
    r, p = g.r, g.pr
    return [f"{p}(140737488355327)", f"{p}(-140737488355327 - 1)", f"{p}({r.choice(INTS)} * 1000)", f"{p}(1_000_000 + 0x7FFF_FFFF)"]


def sn_inline(g):
    r, p = g.r, g.pr
    sq, ev = g.n("sq"), g.n("ev")
    return ["@inline", f"fn {sq}(x: int) -> int {{ x * x }}", "@inline_always", f"fn {ev}(n: int) -> bool {{ n % 2 == 0 }}",
            f"{p}({sq}({r.randint(1, 30)}))", f"{p}({ev}({r.randint(1, 30)}))"]


def sn_typed(g):
    r, p = g.r, g.pr
    f = g.n("mix")
    return [f"fn {f}(a: int, b: float) -> float {{ return b * 2.0 + 0.5 }}", f"{p}({f}({r.randint(1, 9)}, {r.choice(FLOATS)}))",
            f'let s{f}: string = "{S(r)}"', f"let n{f}: int = {r.choice(INTS)}", f'{p}("{{s{f}}}:{{n{f}}}")']


def sn_upval_call(g):
    r, p = g.r, g.pr
    f = g.n("uc")
    return [f"fn {f}(k) {{", "  let h = fn(x) { return x + k }", "  let j = fn(y) { return h(y) * 2 }", "  return j(3) + h(1)", "}", f"{p}({f}({r.randint(1, 9)}))"]


def sn_error(g):
    r, p = g.r, g.pr
    z = g.n("z")
    k = r.randint(0, 2)
    if k == 0:
        return [f"let {z} = 0", f"{p}(10 / {z})"]
    if k == 1:
        return [f"let {z} = Array[1, 2]", f"{p}({z}[5])"]
    return [f"fn {z}(a) {{ return a }}", f"{p}({z}(1, 2))"]


def _mod_use(r, which):
    """an expression that needs a module the VM does NOT auto-register (reload must find it again from the layouts)"""
    if which == 0:
        return ["needs std.sys"], 'sys.platform() + ":" + sys.arch()'
    return ["needs std.bytes"], None


def sn_mod_top(g):
    """non-auto-registered module used at script level only"""
    r, p = g.r, g.pr
    b = g.n("tb")
    return ["needs std.sys", f'{p}(sys.platform() + "/" + sys.arch())', "needs std.bytes",
            f'let {b} = bytes.from_string("{S(r)}")', f"{p}(bytes.size({b}))", f"bytes.free({b})"]


def sn_mod_d1(g):
    """... used only inside a top-level function (nesting depth 1)"""
    r, p = g.r, g.pr
    f, h = g.n("sz"), g.n("plat")
    return ["needs std.bytes", "needs std.sys",
            f"fn {f}(s: string) -> int {{", "  let buf = bytes.from_string(s)", "  let n = bytes.size(buf)", "  bytes.free(buf)", "  return n", "}",
            f"fn {h}() {{ return sys.arch() }}", f'{p}({f}("{S(r)}") + {r.randint(1, 9)})', f"{p}({h}())"]


def sn_mod_d2(g):
    """... used only inside a lambda returned by a function (depth 2)"""
    r, p = g.r, g.pr
    mk, c, pl = g.n("mksz"), g.n("szr"), g.n("mkpl")
    return ["needs std.bytes", "needs std.sys",
            f"fn {mk}(extra: int) {{", "  return fn(s: string) -> int {", "    let buf = bytes.from_string(s)", "    let n = bytes.size(buf)",
            "    bytes.free(buf)", "    return n + extra", "  }", "}",
            f"fn {pl}() {{ return fn() {{ return sys.platform() }} }}",
            f"let {c} = {mk}({r.randint(10, 99)})", f'{p}({c}("hello"))', f'{p}({c}("{S(r)}"))', f"let p{pl} = {pl}()", f"{p}(p{pl}())"]


def sn_mod_d3(g):
    """... used only at depth 3 (lambda inside function inside function)"""
    r, p = g.r, g.pr
    o, c = g.n("outer3"), g.n("deep")
    return ["needs std.bytes", "needs std.sys",
            f"fn {o}(k: int) {{", "  fn mid(j: int) {", "    return fn(s: string) -> int {", "      let buf = bytes.from_string(s)",
            "      let n = bytes.size(buf)", "      bytes.free(buf)", "      return n * j + k", "    }", "  }", f"  return mid({r.randint(2, 5)})", "}",
            f"let {c} = {o}({r.randint(1, 9)})", f'{p}({c}("abc"))',
            f"fn a{o}() {{ fn b() {{ return fn() {{ return sys.arch() }} }} return b() }}", f"let q{o} = a{o}()", f"{p}(q{o}())"]


SNIPPETS = [sn_arith, sn_float, sn_string, sn_calls_loop, sn_calls_toplevel, sn_closure, sn_closure2, sn_recursion, sn_loops,
            sn_arrays, sn_bitwise, sn_logic, sn_nogc, sn_globals, sn_higher, sn_nested_fn, sn_mutparam, sn_ifelse, sn_bigint,
            sn_inline, sn_typed, sn_upval_call, sn_mod_top, sn_mod_d1, sn_mod_d2, sn_mod_d3]


def hoist(lines):
    """`needs` statements must come first: move them up, once each"""
    needs, rest = [], []
    for l in lines:
        if l.startswith("needs "):
            if l not in needs:
                needs.append(l)
        else:
            rest.append(l)
    return "\n".join(needs + rest) + "\n"


def gen_program(seed, idx):
    r = random.Random(seed * 100003 + idx)
    style = r.randint(0, 5)
    header, pr = ["needs std.io"], "io.println"
    if style == 0:
        header, pr = ["needs println from std.io"], "println"
    g = G(r, pr)
    lines = list(header)
    stdmod = r.randint(0, 9)
    if stdmod == 0:
        lines += ["needs std.math", f"{pr}(math.sqrt({r.choice(['16.0', '2.0', '81.0'])}))", f"{pr}(math.PI > 3.0)"]
    elif stdmod == 1:
        lines += ["needs sqrt, pow from std.math", f"{pr}(sqrt(9.0) + pow(2.0, {r.randint(1, 9)}.0))"]
    elif stdmod == 2:
        lines += ["needs std.string", f'{pr}(string.to_upper("{r.choice(["abc", "héllo"])}"))']
    elif stdmod == 3:
        lines += ["needs std.math as m", f"{pr}(m.sqrt(4.0))"]          # module alias (known-class candidate)
    # needs must come first: hoist
    needs = [l for l in lines if l.startswith("needs ")]
    rest = [l for l in lines if not l.startswith("needs ")]
    if idx % 17 == 5:
        sn = [sn_globals] * 8                                            # > 255 globals
    else:
        sn = [r.choice(SNIPPETS) for _ in range(r.randint(2, 5))]
    body = []
    for s in sn:
        body += s(g)
    if r.randint(0, 7) == 0:
        body += sn_error(g)
    tail = r.choice(["", "42", '"done"', "1.5", "null", "true"])
    return hoist(needs + rest + body + ([tail] if tail else []))


def snippet_programs():
    """one program per snippet (fixed parameters): used to make sure every family is present"""
    out = []
    for i, s in enumerate(SNIPPETS + [sn_error]):
        r = random.Random(7 + i)
        g = G(r, "io.println")
        out.append(hoist(["needs std.io"] + s(g)))
    return out


if __name__ == "__main__":
    import sys
    print("\n=====\n".join(snippet_programs() + [gen_program(int(sys.argv[1]) if len(sys.argv) > 1 else 0, i) for i in range(10)]))
