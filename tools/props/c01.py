"""C01 -- optimisation levels never change behaviour.
Proof: constant-folder kernel sound w.r.t. the evaluator (all operators, all integers).
Ties: (a) folder kernel: real ConstantFolder on literal nodes vs evaluator (soundness) and vs
the model folder (fidelity, no alarm); (b) translation validation per program: real optimizer
output vs input under the Coq evaluator; (c) the property itself on the implementation:
-O1..-O3 vs -O0 (class, output, value; with the statement's one permitted relaxation)."""
import collections, os, re
import vlib
from gen import proggen, unusedgen
from props import c02

TRUSTED = c02.TRUSTED + [
    "tools/extractors/c01.py transcribes the folder's INT_MIN/INT_MAX/MAX_FOLDED_STRING_LEN and the pass pipeline per level",
    "coq/Model/VmArith.v (hand model of the VM's generic arithmetic on NaN-boxed words, tied to the real dispatch loop by C06's hx_vmop) for C01_fold_equals_vm_runtime",
    "coq/Model/Opt/Fold.v is a hand model of opt/src/passes/constant_fold (int/bool/string kernels and traversal; float folding not modelled); "
    "coq/Model/Opt/Dce.v and coq/Model/Opt/Unused.v are hand models of dead_code and unused_vars, each tied by exact equality of the output AST with the real pass on every generated program; "
    "the inliner and the local/global constant propagators are NOT modelled: they are validated per program, not proved",
]

OPS = "BAdd BSub BMul BDiv BMod BEq BNe BLt BLe BGt BGe BShl BShr BBitAnd BBitOr BBitXor".split()


def z(n):
    return f"({n})" if n < 0 else str(n)


def parse_lit(r):
    t = r.split(" ", 1)
    if t[0] == "I":
        return f"(Some (EInt {z(int(t[1]))}))"
    if t[0] == "B":
        return f"(Some (EBool {'true' if t[1] == '1' else 'false'}))"
    if t[0] == "N":
        return "None"
    return None


def kernel_tie(ctx):
    ok, paths, log = vlib.harness_build(["hx_fold"])
    if not ok:
        ctx.broken.append("harness build failed (hx_fold)")
        ctx.log(log[-3000:])
        return
    n = 1500 if ctx.tier == "quick" else 40000
    rc, out = vlib.sh([paths["hx_fold"], "--seed", str(ctx.seed), "--random", str(n)], timeout=600)
    if rc != 0:
        ctx.violation("c01:folder-crash", "the constant folder crashed", {"output_tail": out[-1500:]})
        return
    cases, raw, other = [], [], []
    for line in out.splitlines():
        q, r = line.split("\t")
        t = q.split()
        if r.startswith("PANIC"):
            ctx.violation("c01:folder-panic", f"ConstantFolder panics on {q}", {"node": q, "panic": r})
            continue
        if t[0] in OPS:
            lit = parse_lit(r)
            if lit is None:
                ctx.violation("c01:folder-odd-literal", f"folder produced {r} for integer node {q}", {"node": q, "result": r})
                continue
            cases.append(f"{t[0]} {z(int(t[1]))} {z(int(t[2]))} {lit}")
            raw.append((q, r))
        elif t[0] in ("UNeg", "UBitNot"):
            lit = parse_lit(r)
            cases.append(f"{t[0]} {z(int(t[1]))} {lit}")
            raw.append((q, r))
        else:
            other.append((q, r))
    nb = sum(1 for c in cases if c.split()[0] in OPS)
    codes_b, err1 = vlib.coq_eval_codes("c01k", "From Aelys Require Import Model.Lang Model.Eval Model.Opt.Fold Model.Opt.FoldObs.",
                                        "fold_bin_code", cases[:nb], shard=2500)
    codes_u, err2 = vlib.coq_eval_codes("c01u", "From Aelys Require Import Model.Lang Model.Eval Model.Opt.Fold Model.Opt.FoldObs.",
                                        "fold_un_code", cases[nb:], shard=2500)
    if err1 or err2:
        ctx.broken.append("correspondence C01 folder kernel: model evaluation failed")
        ctx.log((err1 or "")[-1500:] + (err2 or "")[-1500:])
    codes = codes_b + codes_u
    unsound = [raw[i] for i, c in enumerate(codes) if c is not None and c // 10 == 1]
    infid = [raw[i] for i, c in enumerate(codes) if c is not None and c % 10 == 1]
    folded = sum(1 for q, r in raw if r != "N")
    for q, r in unsound[:3]:
        ctx.violation("c01:unsound-fold:" + q.split()[0], f"the folder replaces {q} by {r}, which is not what the operation yields at run time",
                      {"node": q, "folded_to": r})
    # boolean / and / or / not / string nodes: direct oracle in python (tiny finite tables)
    for q, r in other:
        t = q.split()
        exp = None
        if t[0] == "BOOLBEq": exp = "B %d" % (t[1] == t[2])
        elif t[0] == "BOOLBNe": exp = "B %d" % (t[1] != t[2])
        elif t[0] == "BOOLBLt": exp = None
        elif t[0] == "AND": exp = "B %d" % (t[1] == "1" and t[2] == "1")
        elif t[0] == "OR": exp = "B %d" % (t[1] == "1" or t[2] == "1")
        elif t[0] == "NOT": exp = "B %d" % (t[1] == "0")
        elif t[0] == "STR":
            la, lb = int(t[1]), int(t[2])
            if r != "N" and r != f"SLEN {la + lb}":
                ctx.violation("c01:unsound-fold:strcat", f"string concat fold of lengths {la}+{lb} gives {r}", {"node": q, "result": r})
            continue
        if exp is not None and r != "N" and r != exp:
            ctx.violation("c01:unsound-fold:" + t[0], f"the folder replaces {q} by {r}, expected {exp}", {"node": q, "folded_to": r})
    ctx.cov["kernel_nodes"] = len(raw) + len(other)
    ctx.cov["kernel_nodes_folded"] = folded
    ctx.cov["kernel_unsound"] = len(unsound)
    ctx.cov["model_fidelity_kernel"] = {"same_decision": len(raw) - len(infid), "different": len(infid),
                                        "examples": [f"{q} -> {r}" for q, r in infid[:5]]}
    ctx.add_samples([{"folder_node": q, "real_folder": r} for q, r in raw[:2]])
    return len(raw) + len(other)


def behaviours_equal(b0, bl):
    """-O0 behaviour b0 vs optimised bl: (class, output, value).  Returns None if acceptable,
    else a description.  Permitted: the optimised run skips a failing computation whose result
    is unused, provided b0's output is a prefix of bl's output."""
    if b0[:3] == bl[:3]:
        return None
    if b0[0] != "ok" and bl[1].startswith(b0[1]) and b0[0].startswith("runtime:"):
        return None
    return f"-O0: {b0[0]} out={b0[1][-60:]!r} value={b0[2]!r}; optimised: {bl[0]} out={bl[1][-60:]!r} value={bl[2]!r}"


def dce_tie(ctx, progs, res):
    """Fidelity of Model/Opt/Dce.v: the model pass (proc = fun _ => false), evaluated inside Coq on
    the typed AST the real front end produced, must give exactly the AST the real
    DeadCodeEliminator produces from it.  Also counts on how many inputs the implemented pass
    coincides with the variant the preservation theorem is about (code 0) or not (code 2)."""
    cases, idx = [], []
    for i in range(len(progs)):
        a = res.get(i, {}).get("ast", {})
        out = a.get("pass:dce")
        if "in" in a and out:
            if out.startswith("PANIC"):
                ctx.violation("c01:dce-panic", "the dead-code elimination pass panics", {"program": progs[i], "panic": out})
                continue
            cases.append(f"{a['in']} {out}")
            idx.append(i)
    codes, err = vlib.coq_eval_codes("c01dce", "From Aelys Require Import Model.Lang Model.Opt.DceObs.", "dce_fid", cases, shard=80)
    if err:
        ctx.broken.append("correspondence C01: DCE model evaluation failed")
        ctx.log(err[-2000:])
    cc = collections.Counter(c for c in codes if c is not None)
    differs = [idx[k] for k, c in enumerate(codes) if c == 1]
    if differs:
        # the model is no longer the pass (or the pass changed): the theorem no longer speaks about the code
        ctx.broken.append(f"correspondence C01: Model/Opt/Dce.v differs from the real dead-code pass on {len(differs)} of {len(cases)} programs")
        ctx.cov["dce_model_differs_example"] = {"program": progs[differs[0]][:3000],
                                                "real_pass_output": res[differs[0]]["ast"]["pass:dce"][:3000]}
    ctx.cov["dce_model_tie"] = {"programs": len(cases), "model_equals_real_pass_and_theorem_applies": cc.get(0, 0),
                                "model_equals_real_pass_but_variant_differs": cc.get(2, 0), "model_differs_from_real_pass": cc.get(1, 0)}
    ctx.cov["evaluations"] = ctx.cov.get("evaluations", 0) + len(cases)
    ctx.log(f"DCE model tie: {dict(cc)}")



OPAQUE = re.compile(r'\(EOther "(range|slice|struct|cast)"\)')


def unused_tie(ctx, progs, res, key="pass:unused", fid="unused_fid", label="unused_model_tie", mod="UnusedObs", what="unused-variable", skip_other=False, skip_float=False):
    """Fidelity of Model/Opt/Unused.v: the model pass, evaluated inside Coq on the typed AST the real
    front end produced, must give exactly the AST the real UnusedVarEliminator produces from it.
    Skipped (counted): programs with a `pub let` (not represented in Model/Lang.v) and programs
    whose dump lost subexpressions (range / slice / struct literal / cast)."""
    cases, idx, skipped = [], [], collections.Counter()
    for i in range(len(progs)):
        a = res.get(i, {}).get("ast", {})
        out = a.get(key)
        if "in" not in a or not out:
            continue
        if out.startswith("PANIC"):
            ctx.violation(f"c01:{what}-panic", f"the {what} pass panics", {"program": progs[i], "panic": out})
            continue
        if re.search(r"\bpub\s+let\b", progs[i]):
            skipped["pub-let"] += 1
            continue
        if OPAQUE.search(a["in"]) or (skip_other and "(EOther " in a["in"]):
            skipped["opaque-subexpression"] += 1
            continue
        if skip_float and "(EFlt " in a["in"]:
            skipped["float-literal"] += 1
            continue
        cases.append(f"{a['in']} {out}")
        idx.append(i)
    codes, err = vlib.coq_eval_codes("c01" + fid.replace("_", ""), f"From Aelys Require Import Model.Lang Model.Opt.{mod}.", fid, cases, shard=80)
    if err:
        ctx.broken.append(f"correspondence C01: {what} model evaluation failed ({fid})")
        ctx.log(err[-2000:])
    cc = collections.Counter(c for c in codes if c is not None)
    differs = [idx[k] for k, c in enumerate(codes) if c == 1]
    if differs:
        ctx.broken.append(f"correspondence C01: Model/Opt/{mod[:-3]}.v ({fid}) differs from the real {what} pass on {len(differs)} of {len(cases)} programs")
        ctx.cov[label + "_differs_example"] = {"program": progs[differs[0]][:3000],
                                                   "real_pass_output": res[differs[0]]["ast"][key][:3000]}
    if cases and cc.get(0, 0) < max(5, len(cases) // 50):
        ctx.broken.append(f"correspondence C01: the {what} tie ({fid}) is starved (the pass changes something in only {cc.get(0, 0)} of {len(cases)} programs)")
    ctx.cov[label] = {"programs": len(cases), "model_equals_real_pass_and_changes_something": cc.get(0, 0),
                                   "model_equals_real_pass_nothing_changed": cc.get(2, 0), "model_differs_from_real_pass": cc.get(1, 0),
                                   "skipped": dict(skipped)}
    ctx.cov["evaluations"] = ctx.cov.get("evaluations", 0) + len(cases)
    ctx.log(f"{what} model tie ({fid}): {dict(cc)} skipped {dict(skipped)}")


def run(ctx):
    ctx.level = "proof"
    ctx.cov["trusted_base"] = TRUSTED
    proved = ctx.prove("C01", extracted=["OptConsts", "ValueConsts", "Opcodes"])
    if ctx.tier == "thorough" and proved:
        ctx.coqchk("C01")
    ok, out = vlib.coq_make(["Model/EvalObs.vo", "Model/Opt/FoldObs.vo", "Model/Opt/DceObs.vo", "Model/Opt/UnusedObs.vo", "Model/Opt/GlobalPropObs.vo", "Model/Opt/LocalPropObs.vo"])
    if not ok:
        ctx.broken.append("coq: model files for the C01 ties do not build")
        ctx.log(out[-2000:])
        return
    nk = kernel_tie(ctx) or 0
    # ---- per-program translation validation + the property on the implementation
    n = 400 if ctx.tier == "quick" else 6000
    progs, feats = proggen.generate(ctx.seed * 7919 + 1, n)
    corpus = c02.load_corpus("C01")
    uprogs, ufeats = unusedgen.generate(ctx.seed * 104729 + 7, 160 if ctx.tier == "quick" else 2500)
    progs = corpus + progs + uprogs
    feats = [["corpus"]] * len(corpus) + feats + [["unusedgen"] + ["unused:" + x for x in f] for f in ufeats]
    rp = c02.replay_program(ctx)
    if rp is not None:
        progs, feats = [rp], [["replay"]]
    res = c02.run_stream(ctx, progs, passes="dce,unused,unused-open,globalprop,globalprop-open,localprop@nogroup,localprop-open@nogroup,fold@nogroup")
    if res is None:
        return
    dce_tie(ctx, progs, res)
    unused_tie(ctx, progs, res)
    unused_tie(ctx, progs, res, key="pass:unused-open", fid="unused_open_fid", label="unused_session_unit_model_tie")
    unused_tie(ctx, progs, res, key="pass:globalprop", fid="gprop_fid", label="globalprop_model_tie", mod="GlobalPropObs",
               what="global-constant-propagation", skip_other=True)
    unused_tie(ctx, progs, res, key="pass:localprop@nogroup", fid="lprop_fid", label="localprop_model_tie", mod="LocalPropObs",
               what="local-constant-propagation", skip_other=True, skip_float=True)
    unused_tie(ctx, progs, res, key="pass:localprop-open@nogroup", fid="lprop_open_fid", label="localprop_session_unit_model_tie", mod="LocalPropObs",
               what="local-constant-propagation", skip_other=True, skip_float=True)
    unused_tie(ctx, progs, res, key="pass:fold@nogroup", fid="foldpass_fid", label="fold_model_tie", mod="LocalPropObs",
               what="constant-folding", skip_other=True, skip_float=True)
    unused_tie(ctx, progs, res, key="pass:globalprop-open", fid="gprop_open_fid", label="globalprop_session_unit_model_tie", mod="GlobalPropObs",
               what="global-constant-propagation", skip_other=True)
    cases, idx = [], []
    dist, featc = collections.Counter(), collections.Counter()
    impl_bad = 0
    distinct = set()
    for i, p in enumerate(progs):
        r = res.get(i)
        if r is None or r["front"] or "in" not in r["ast"]:
            dist["front-rejected"] += 1
            continue
        runs = [r["run"].get(str(l)) for l in range(4)]
        if any(x is None for x in runs) or any(x[0] == "budget" for x in runs):
            dist["budget-or-missing"] += 1
            continue
        dist[runs[0][0]] += 1
        for ft in feats[i]:
            featc[ft] += 1
        distinct.add(hash(p))
        # (c) the property itself, on the implementation
        for l in (1, 2, 3):
            d = behaviours_equal(runs[0], runs[l])
            if d:
                impl_bad += 1
                sig = classify(p, r, l)
                ctx.violation(sig, f"-O{l} behaves differently from -O0: {d}",
                              {"program": p, "level": l, "O0": runs[0], f"O{l}": runs[l],
                               "optimised_ast": r["ast"].get(str(l), "")[:4000]})
                break
        for l in (1, 2, 3):
            a = r["ast"].get(str(l))
            if a and not a.startswith("PANIC"):
                cases.append(f"{r['ast']['in']} {a}")
                idx.append((i, l))
            elif a:
                ctx.violation("c01:optimizer-panic", f"the optimizer panics at -O{l}", {"program": p, "panic": a})
    codes, err = vlib.coq_eval_codes("c01", "From Aelys Require Import Model.Lang Model.Eval Model.EvalObs.", "c01_code", cases, shard=150)
    if err:
        ctx.broken.append("correspondence C01: evaluator run on optimizer outputs failed")
        ctx.log(err[-3000:])
    cc = collections.Counter(c for c in codes if c is not None)
    for k, code in enumerate(codes):
        if code == 1:
            i, l = idx[k]
            r = res[i]
            sig = classify(progs[i], r, l)
            ctx.violation(sig, f"under the evaluator, the real optimizer's -O{l} output behaves differently from its input",
                          {"program": progs[i], "level": l, "optimised_ast": r["ast"][str(l)][:4000]})
    ctx.cov["evaluations"] = ctx.cov.get("evaluations", 0) + nk + len(cases) + 3 * len(distinct)
    ctx.cov["distinct_nontrivial"] = len(distinct)
    ctx.cov["model_too_slow"] = len([x for x in vlib.SLOW_CASES if x[0] == "c01"])
    ctx.cov["programs"] = len(distinct)
    ctx.cov["optimizer_outputs_validated"] = {"equivalent": cc.get(0, 0), "different": cc.get(1, 0), "model_out_of_fuel": cc.get(2, 0),
                                              "outside_fragment": cc.get(3, 0), "permitted_relaxation": cc.get(4, 0)}
    ctx.cov["implementation_level_differences"] = impl_bad
    ctx.cov["input_distribution"] = {"outcome_at_O0": dict(dist), "features": dict(featc)}
    ctx.cov["rule"] = ("(a) folder kernel: every binary/unary operator x boundary and random 48/64-bit operands through the real ConstantFolder; "
                       "(b) seeded grammar-based programs: real optimizer output at -O1..-O3 evaluated by the Coq evaluator against the input AST; "
                       "(c) the same programs run by the real compiler+VM at -O0..-O3; distinct_nontrivial = distinct accepted programs")
    for i in list({i for i, _ in idx})[:2]:
        ctx.add_samples([{"program": progs[i]}])


def classify(prog, r, level):
    """Root-cause-specific signature of an optimisation difference (used for known findings)."""
    return "c01:diff:O%d" % level
