"""C03 -- the garbage collector never frees a reachable object.
Proof (mark = closure, fuel bound, sweep, unconditional collect_safe; historical refutation of the
pre-ad6fcd1 edge function) + heap-graph contract tie + GC-schedule differential (hx_gc).
No known-finding class is open (KF-C03-1/2/3 are repaired in /repo): every audit problem, schedule
difference or process abort is a VIOLATION."""
import glob, json, os, re
import vlib

TRUSTED = [
    "Coq 8.16.1 kernel + vm_compute (witness heap, non-vacuity example, evaluation of the model on dumped heaps)",
    "Model/Gc.v is a hand model of Heap::mark/sweep/alloc (bytecode/src/heap/gc.rs, alloc.rs) and of the root loop of "
    "VM::collect; tied on every run: Coq `collect` on heaps dumped from the running VM must give the real survivor set and "
    "free list, and Coq `mark` over edges_spec must give the harness's own reachability",
    "hooks (cfg vbxq_aelys_lang_verif, /repo commits c69505e, 4bc6789): VM::verif_heap_audit (independent traversal incl. "
    "nested function constants), verif_roots (a transcription of the root loop of VM::collect -- if collect drops a root the "
    "tie and the oracle see it, if both gain one nothing notices), verif_free_list, gc_audit callback, pending_fn (moot since "
    "9ba6d0e removed the safepoint it guarded; still read so that a reintroduced safepoint is reported with its cause)",
    "hook VM::verif_frames (/repo 817b675): function and owning closure object of every active frame (the closure is found by "
    "comparing the frame's raw upvalue pointer with the upvalue vectors of the live closure objects)",
    "CLI scenario (plain aelys-cli build, natural 1 MB threshold): 3 generated (script module, main program) pairs run from "
    "source, .avbc and .aasm; covers the hand-over of the deserialized program heap to the VM around module loading",
    "root-set COMPLETENESS (interpreter locals, native argument vectors, raw-pointer caches) is not proved: it is explored "
    "by the schedule differential only (generated programs x 6 forced schedules vs. never collecting)",
    "edges_spec = every GcRef/pointer Value stored in an object as found by the audit traversal (Function: constants of the "
    "function and of its nested_functions at any depth -- the set Function::remap_constants rewrites)",
]

IMPORTS = "From Aelys Require Import Model.Gc Model.GcRoots.\nLocal Open Scope N_scope."

# signatures of the two repaired defects (KF-C03-1 fixed by ad6fcd1, KF-C03-2 fixed by 9ba6d0e): plain violations now
KF1 = "reachable-freed:only-via-nested-function-constant"
KF2 = "unrooted-local-freed:makeclosure-function"


# ---------------------------------------------------------------------------------------------------
# CLI-level scenario: a precompiled (.avbc) / assembled (.aasm) program that imports a SCRIPT module whose
# top-level code allocates enough to make the collector run (1.6 MB > the 1 MB threshold; the CLI is the
# plain build, no schedule hook) before the main program starts: the main program's constants must survive.
# Reference = running the source through the driver.  (Covers the heap hand-over in cli run_avbc_file /
# run_aasm_file: merge_heap + remap_constants relative to load_required_modules; seeded C03_r3_1.)
def cli_build(ctx):
    tag = vlib.repo_tag()
    target = os.path.join(vlib.CACHE, "target", tag + "-cli")          # shared with C08/C11
    with vlib.Lock("cargo-" + tag + "-cli"):
        rc, out = vlib.sh(["cargo", "build", "--offline", "-q", "-j", "6", "-p", "aelys-cli"], cwd=vlib.REPO,
                          env={"CARGO_TARGET_DIR": target, "CARGO_NET_OFFLINE": "true", "RUSTFLAGS": "-Awarnings"}, timeout=2400)
    p = os.path.join(target, "debug", "aelys-cli")
    if rc != 0 or not os.path.exists(p):
        ctx.log("cli build failed:\n" + out[-2000:])
        return None
    return p


def cli_programs(seed):
    """(module source, main source) pairs; the module's top level forces a collection and keeps allocating"""
    import random
    rnd = random.Random(1000 + seed)
    out = []
    for k in range(3):
        n = rnd.randint(4, 10)
        fill = rnd.choice(["==", "-+", "#", "ab"])
        mod = (f"pub let table = Array<Int>(200000)\n\nlet mut banner = \"\"\nlet mut i = 0\nwhile i < {n} {{\n"
               f"    banner = banner + \"{fill}\"\n    i++\n}}\n"
               + ("let keep = Vec[]\nlet mut j = 0\nwhile j < 5 {\n    keep.push(banner + \"!\")\n    j++\n}\n" if k != 0 else "")
               + "\npub fn frame(text) {\n    return banner + \" \" + text + \" \" + banner\n}\n")
        lines = [f"line {i} of main program {k} seed {seed}" for i in range(rnd.randint(2, 5))]
        main = "needs std.io\nneeds labels\n\n"
        if k == 2:
            main += "fn outer(x) {\n    fn inner(y) { return \"inner-constant:\" + y }\n    return inner(x) + \"|outer-constant\"\n}\n"
        main += "".join(f"io.println(\"{l}\")\n" for l in lines[:-1])
        main += "io.println(labels.frame(\"framed by the labels module\"))\n"
        if k == 2:
            main += "io.println(outer(\"arg\"))\n"
        main += f"io.println(\"{lines[-1]}\")\n"
        out.append((mod, main))
    return out


def cli_scenario(ctx):
    cli = cli_build(ctx)
    if cli is None:
        ctx.broken.append("cli: aelys-cli does not build from the current tree")
        return
    import shutil
    st = {"programs": 0, "runs": 0, "differences": 0}
    for k, (mod, main) in enumerate(cli_programs(ctx.seed)):
        d = os.path.join(vlib.CACHE, "c03", f"cli_{vlib.repo_tag()}_{os.getpid()}_{k}")
        shutil.rmtree(d, ignore_errors=True)
        os.makedirs(d)
        open(os.path.join(d, "labels.aelys"), "w").write(mod)
        open(os.path.join(d, "main.aelys"), "w").write(main)
        rc1, o1 = vlib.sh([cli, "compile", "main.aelys", "-o", "main.avbc"], cwd=d, timeout=120)
        rc2, o2 = vlib.sh([cli, "asm", "main.aelys", "-o", "main.aasm"], cwd=d, timeout=120)
        if rc1 or rc2:
            ctx.broken.append("cli scenario: compile/asm of the generated main program failed: " + (o1 + o2)[-300:])
            shutil.rmtree(d, ignore_errors=True)
            return
        res = {}
        for f in ("main.aelys", "main.avbc", "main.aasm"):
            rc, o = vlib.sh([cli, "run", f], cwd=d, timeout=120)
            res[f] = (rc, o)
            st["runs"] += 1
        st["programs"] += 1
        ref = res["main.aelys"]
        if ref[0] != 0:
            ctx.broken.append("cli scenario: the source run of the generated program fails: " + ref[1][-300:])
        for f in ("main.avbc", "main.aasm"):
            if res[f] != ref:
                st["differences"] += 1
                ctx.violation("gc-cli:precompiled-run-differs-from-source-run:" + f.split(".")[1],
                              f"`aelys-cli run {f}` of a program importing a script module whose initialisation collects prints "
                              f"{res[f][1][:200]!r} (exit {res[f][0]}); running the source prints {ref[1][:200]!r}",
                              {"cli": True, "module labels.aelys": mod, "main.aelys": main, "route": f,
                               "output": res[f][1][:1000], "reference (source run)": ref[1][:1000]})
        if k == 0:
            ctx.add_samples([{"cli scenario": main[:300], "outputs identical (source, avbc, aasm)": res["main.avbc"] == ref and res["main.aasm"] == ref}], limit=8)
        shutil.rmtree(d, ignore_errors=True)
    ctx.cov["cli_scenario"] = st


def corpus_file(ctx):
    d = os.path.join(vlib.VERIF, "corpus", "C03")
    srcs = []
    names = []
    for p in sorted(glob.glob(os.path.join(d, "*.aelys")) + glob.glob(os.path.join(d, "*.aasm"))):
        srcs.append(open(p).read().rstrip("\n"))
        names.append(os.path.basename(p))
    if ctx.replay_file:
        rp = json.load(open(ctx.replay_file))
        src = rp.get("replay", {}).get("source")
        if src:
            srcs, names = [src], ["replay"]
    os.makedirs(os.path.join(vlib.CACHE, "c03"), exist_ok=True)
    f = os.path.join(vlib.CACHE, "c03", f"corpus_{os.getpid()}.txt")
    open(f, "w").write("\n=====\n".join(srcs))
    return f, names


FEATURES = {}   # aggregated over the run: feature of the model -> number of collections that exercised it

REQUIRED_FEATURES = [
    "site:op2", "site:op28", "site:op35", "site:op5", "frames:1", "frames:2", "frames:3", "freed-something",
    "free-list-nonempty-before", "root:register-in-window", "root:frame-function-of-callee", "root:frame-closure",
    "root:global-by-name", "root:global-by-index", "root:open-upvalue", "root:current-upvalue(host call)",
    "root:manual-buffer-slot", "object-reachable-through-a-manual-buffer-only",
    "non-root:pointer-register-above-windows", "non-root:layout-snapshot-pointer",
    "running-function-or-closure-rooted-by-frame-only", "several-running-closures-rooted-by-their-frames-only",
    "root:frame-closures-of-several-frames",
    "edge:function.const", "edge:function.nested-const", "edge:function.nested-const(depth>=2)", "edge:closure.function",
    "edge:closure.upvalue", "edge:upvalue.closed", "edge:array.elem", "edge:vec.elem",
] + ["reachable-kind:" + k for k in ("string", "function", "native", "upvalue", "closure", "array", "vec")] \
  + ["garbage-kind:" + k for k in ("string", "function", "upvalue", "closure", "array", "vec")]


def parse(out):
    progs, runs, probs, dumps = {}, {}, [], []
    for line in out.splitlines():
        t = line.split("\t")
        if t[0] == "P" and len(t) == 4:
            progs[int(t[1])] = {"class": t[2], "source": unesc(t[3])}
        elif t[0] == "R" and len(t) == 15:
            runs.setdefault(int(t[1]), {})[t[2]] = {
                "class": t[3], "output": t[4], "value": t[5], "detail": t[6], "collections": int(t[7]),
                "nested_losses": int(t[8]), "pending_seen": int(t[9]), "exposure": int(t[10]),
                "running_closure_losses": int(t[11]), "only_frame_rooted": int(t[12]),
                "stale_register_ptrs": int(t[13]), "cache_ptrs": int(t[14])}
        elif t[0] == "F" and len(t) == 4 and t[3]:
            for kv in t[3].split(";"):
                k, v = kv.rsplit("=", 1)
                FEATURES[k] = FEATURES.get(k, 0) + int(v)
        elif t[0] == "X" and len(t) == 6:
            probs.append({"prog": int(t[1]), "sched": t[2], "collection": int(t[3]), "sig": t[4], "detail": t[5]})
        elif t[0] == "D" and len(t) == 7:
            dumps.append({"prog": int(t[1]), "sched": t[2], "collection": int(t[3]), "site": t[4], "q": t[5], "obs": t[6]})
    return progs, runs, probs, dumps


def unesc(s):
    o, i = [], 0
    while i < len(s):
        c = s[i]
        if c == "\\" and i + 1 < len(s):
            n = s[i + 1]
            if n == "n":
                o.append("\n")
            elif n == "t":
                o.append("\t")
            elif n == "r":
                o.append("\r")
            elif n == "\\":
                o.append("\\")
            elif n == "x":
                o.append(chr(int(s[i + 2:i + 4], 16)))
                i += 2
            else:
                o.append(c + n)
            i += 2
        else:
            o.append(c)
            i += 1
    return "".join(o)


def run(ctx):
    ctx.level = "proof"
    ctx.cov["trusted_base"] = TRUSTED
    ctx.assumptions = [
        "the model of mark/sweep/collect is the code: checked by the heap-graph contract tie on dumps of the running VM",
        "roots = what VM::collect enumerates (verif_roots); completeness of that list is explored, not proved",
    ]
    proved = ctx.prove("C03", extracted=["GcRootFields"])
    ctx.cov["refuted_lemmas"] = []
    ctx.cov["historical"] = ["C03_old_mark_nested_constants_refuted: Heap::mark before /repo ad6fcd1 (edges_old) freed a reachable "
                             "object on the heap dumped from the pre-repair VM; the current collector keeps it (C03_witness_now_survives)"]
    if ctx.tier == "thorough" and proved:
        ctx.coqchk("C03")
    ok, out = vlib.coq_make(["Base/CaseCheck.vo", "Model/Gc.vo", "Model/GcRoots.vo"])
    if not ok:
        ctx.broken.append("coq: model files for the C03 tie do not build")
        ctx.log(out[-2000:])
        return
    replay = bool(ctx.replay_file)
    nprog = 0 if replay else (60 if ctx.tier == "quick" else 500)
    dumps_per_run = 3 if ctx.tier == "quick" else 2
    # (cargo profile, optimisation level of the Aelys compiler, seed offset)
    configs = [("dev", 0, 0)] if ctx.tier == "quick" else [("dev", 0, 0), ("dev", 2, 1000), ("release", 0, 2000), ("release", 3, 3000)]
    ctx.cov["configurations"] = [f"{p}/O{o}/seed+{k}" for p, o, k in configs]
    cfile, cnames = corpus_file(ctx)
    tot_runs = tot_coll = tot_dumps = 0
    distinct_dumps, distinct_progs = set(), set()
    stats = {"runs": 0, "differing_runs": 0, "runs_with_collections": 0, "runs_with_collections_by_class": {},
             "collections_audited": 0, "collections_with_nested_constants_live": 0,
             "collections_while_makeclosure_fn_unrooted": 0, "programs_by_class": {}, "baseline_classes": {}}
    for prof, optlvl, seedoff in configs:
        ok, paths, log = vlib.harness_build(["hx_gc"], profile=prof)
        if not ok:
            ctx.broken.append("harness build failed (hx_gc, %s)" % prof)
            ctx.log(log[-3000:])
            return
        out, start, crashes = "", 0, 0
        while True:
            rc, o = vlib.sh([paths["hx_gc"], "--seed", str(ctx.seed + seedoff), "--opt", str(optlvl), "--programs", str(nprog), "--file", cfile,
                             "--dumps-per-run", str(dumps_per_run), "--start", str(start)], timeout=3000)
            out += o
            if rc == 0:
                break
            # the process died inside a run (stack overflow / abort in the VM): attribute it to the run
            # announced by the last S line, classify by the loss events printed before the crash, go on
            crashes += 1
            lastS, srcs = None, {}
            for line in o.splitlines():
                t = line.split("\t")
                if t[0] == "P" and len(t) == 4:
                    srcs[int(t[1])] = unesc(t[3])
                elif t[0] == "S" and len(t) == 3:
                    lastS = (int(t[1]), t[2])
            if lastS is None or crashes > 20:
                ctx.violation("hx_gc-crash", "GC harness crashed before/after any run", {"profile": prof, "output_tail": o[-2000:]})
                return
            ctx.violation("gc-schedule-diff:process-abort",
                          f"the VM aborts the process (stack overflow / abort) under GC schedule {lastS[1]}; tail: {o[-300:]!r}",
                          {"source": srcs.get(lastS[0]), "schedule": lastS[1], "profile": prof, "process_exit": rc})
            ctx.cov["process_aborts"] = ctx.cov.get("process_aborts", 0) + 1
            start = lastS[0] + 1
        progs, runs, probs, dumps = parse(out)
        # ---- direct oracle, part 1: the audit of every collection (computed by the harness on the
        # implementation's own heap, independent of the Coq model)
        seen_sig = {}
        for p in probs:
            sig = "gc-audit:" + p["sig"]
            k = (sig, )
            seen_sig[k] = seen_sig.get(k, 0) + 1
            if seen_sig[k] > 3:
                continue
            src = progs[p["prog"]]["source"]
            r = ctx.violation(sig, f"collection {p['collection']} under GC schedule {p['sched']}: {p['sig']} ({p['detail']})",
                              {"source": src, "schedule": p["sched"], "collection": p["collection"], "profile": prof,
                               "problem": p["sig"], "detail": p["detail"]})
        ctx.cov.setdefault("audit_problem_counts", {})
        for p in probs:
            ctx.cov["audit_problem_counts"][p["sig"]] = ctx.cov["audit_problem_counts"].get(p["sig"], 0) + 1
        # ---- direct oracle, part 2: schedule independence
        for idx, rs in sorted(runs.items()):
            base = rs.get("1:0")
            if base is None:
                continue
            cls = progs[idx]["class"]
            stats["programs_by_class"][cls] = stats["programs_by_class"].get(cls, 0) + 1
            stats["baseline_classes"][base["class"]] = stats["baseline_classes"].get(base["class"], 0) + 1
            distinct_progs.add(progs[idx]["source"])
            if base["class"] in ("budget", "runtime:OutOfMemory"):
                # never collecting at all ran into the instruction budget / the heap limit: no reference behaviour
                stats["programs_without_reference_run"] = stats.get("programs_without_reference_run", 0) + 1
                continue
            for sched, r in rs.items():
                stats["runs"] += 1
                stats["collections_audited"] += r["collections"]
                stats["collections_with_nested_constants_live"] += r["exposure"]
                stats["collections_while_makeclosure_fn_unrooted"] += r["pending_seen"]
                for k2, k3 in (("collections_with_a_running_function_or_closure_rooted_by_its_frame_only", "only_frame_rooted"),
                               ("pointer_registers_above_all_windows_seen", "stale_register_ptrs"),
                               ("pointer_values_in_layout_snapshots_seen", "cache_ptrs")):
                    stats[k2] = stats.get(k2, 0) + r[k3]
                if sched == "1:0":
                    if r["collections"]:
                        ctx.broken.append("schedule 1:0 collected: the GC schedule hook no longer works")
                    continue
                if r["running_closure_losses"]:
                    stats["runs_with_running_closure_loss"] = stats.get("runs_with_running_closure_loss", 0) + 1
                if r["collections"]:
                    stats["runs_with_collections"] += 1
                    u = stats["runs_with_collections_by_class"]
                    u[cls] = u.get(cls, 0) + 1
                same = (r["class"], r["output"], r["value"]) == (base["class"], base["output"], base["value"])
                if same or r["class"] in ("budget", "runtime:OutOfMemory"):
                    # (a schedule that collects rarely can hit the heap limit where a frequent one does not)
                    continue
                stats["differing_runs"] += 1
                sig = "gc-schedule-diff:" + r["class"]
                what = (f"GC schedule {sched} changes the behaviour of a program: never-collect gives "
                        f"{base['class']} / {base['output'][:80]!r}, schedule gives {r['class']} / {r['output'][:80]!r} {r['detail'][:100]}")
                ctx.violation(sig, what, {"source": progs[idx]["source"], "schedule": sched, "profile": prof,
                                          "never": base, "scheduled": r})
        # ---- heap-graph contract tie: the model's collect on the dumped heap = what the VM did
        cases, meta = [], []
        for d in dumps:
            key = (d["q"], d["obs"])
            if key in distinct_dumps:
                continue
            distinct_dumps.add(key)
            cases.append((d["q"], d["obs"]))
            meta.append(d)
        tot_dumps += len(cases)
        fails, err = vlib.coq_eval_cases("c03", IMPORTS, "vm_obs", "obs_eqb", cases, shard=60, timeout=2400)
        if err:
            ctx.broken.append("correspondence C03: model evaluation failed")
            ctx.log(err[-3000:])
        if fails:
            ctx.broken.append(f"correspondence C03 ({prof}): model collect and VM::collect differ on {len(fails)} of {len(cases)} dumped heaps")
            bad = [meta[i] for i in fails[:3]]
            mo, _ = vlib.coq_eval_terms("c03", IMPORTS, [f"vm_obs ({b['q']})" for b in bad])
            ctx.cov["disagreements"] = [{"program": progs[b["prog"]]["source"], "schedule": b["sched"], "collection": b["collection"],
                                         "site(depth,ip,op)": b["site"], "implementation": b["obs"][:600], "model": (m or "")[:600]}
                                        for b, m in zip(bad, mo)]
            b = bad[0]
            ctx.violation("gc-model-mismatch", "the VM's collection and the Coq model's collect disagree on a dumped heap "
                          "(survivors / free list / specification reachability)",
                          {"source": progs[b["prog"]]["source"], "schedule": b["sched"], "collection": b["collection"], "profile": prof})
        # samples
        if dumps:
            d = dumps[len(dumps) // 2]
            ctx.add_samples([{"program": progs[d["prog"]]["source"][:400], "schedule": d["sched"], "collection": d["collection"],
                              "site(depth,ip,op)": d["site"], "observed [survivors; free; spec-reachable]": d["obs"][-300:]}])
        for idx in sorted(runs)[:2]:
            ctx.add_samples([{"program": progs[idx]["source"][:300], "runs": {s: (r["class"], r["output"][:60]) for s, r in runs[idx].items()}}])
        tot_runs += sum(len(r) for r in runs.values())
        tot_coll += sum(r["collections"] for rs in runs.values() for r in rs.values())
        # the corpus programs are regression inputs for the two repaired defects: they run first and must be clean
        if not replay:
            for k, name in enumerate(cnames):
                rs = runs.get(k, {})
                ctx.cov.setdefault("corpus", {})[name] = {
                    "schedules": len(rs), "collections": sum(r["collections"] for r in rs.values()),
                    "identical_under_all_schedules": len({(r["class"], r["output"], r["value"]) for r in rs.values()}) == 1}
    try:
        os.remove(cfile)
    except OSError:
        pass
    if not replay:
        cli_scenario(ctx)
    ctx.cov["feature_counts"] = dict(sorted(FEATURES.items()))
    starved = [f for f in REQUIRED_FEATURES if FEATURES.get(f, 0) < (3 if ctx.tier == "quick" else 30)]
    ctx.cov["starved_features"] = starved
    if starved and not replay:
        # the generator no longer reaches a part of the model: the tie is weaker than claimed
        ctx.broken.append("generator audit: features of the model not exercised: " + ", ".join(starved))
    ctx.cov["evaluations"] = tot_coll + tot_runs
    ctx.cov["distinct_nontrivial"] = len(distinct_dumps) + len(distinct_progs)
    ctx.cov["model_tie_heaps"] = tot_dumps
    ctx.cov["schedule_stats"] = stats
    ctx.cov["input_distribution"] = (
        "corpus/C03/*.aelys and *.aasm first; every 13th generated program is a SESSION (several inputs on one VM, the second "
        "one fails 2-5 frames below a function whose local was captured by a closure that escaped through an array/Vec/global; "
        "then allocations; then the closure is called); every 13th is an ASSEMBLY program run through the real assembler "
        "(TailCallUpval from a 3-4 register closure into a 7-12 register function holding a fresh string in a high register "
        "across 2-6 allocating loop rounds); the others are seeded source programs in 6 classes round-robin: plain (top-level string building in loops, "
        "Array/Vec of strings, vec growth, pop), fnargs (recursion building nested Vecs, loops in functions without heap "
        "constants), nested (functions with string literals, nested 1 and 2 levels), closure (captured strings/counters/vectors, "
        "closures returned, stored in a Vec and called, two-level closures; half of these programs have no heap constant inside "
        "any function), mixed; every class nests containers (a Vec holding a Vec, an Array and strings; pushes through the "
        "alias); 4-17 random statements each; every program under schedules never(1:0), every safepoint(2:0), every k-th "
        "(3:2,3:3,3:7), two pseudo-random (4:k); optimisation level 0; instruction budget 150000; sixth class selfrepl: 2-4 "
        "self-replacing handlers per program (the running function/closure removes the last reference to itself from a global, "
        "a Vec slot, an upvalue or a caller's local, then allocates 1-6 strings one or two frames deeper, then uses its own "
        "constants/captures; plain functions and capturing closures; nested handlers three frames deep; chains of 2-4 capturing "
        "closures in globals that each unregister themselves and call the next one, with the setup registers scrubbed, so that "
        "several running closures are rooted by their own frames only); closure programs also "
        "call a closure while its captured variable is still an open upvalue, drop Vec/Array temporaries, and end with four HOST "
        "calls (VM::call_function_by_name on closures with host-allocated string arguments: current_upvalues); plain/mixed "
        "programs use manual buffers (alloc/store/load/free: the Alloc safepoint; half of them park a fresh string and a fresh Vec "
        "in a buffer ONLY, allocate, then load them back -- buffer slots are roots since /repo 474d1a4). feature_counts lists how many "
        "collections exercised each root source, edge kind, object kind (reachable and garbage), safepoint and frame depth")
    ctx.cov["rule"] = ("evaluations = collections audited by the direct oracle + program runs; distinct_nontrivial = distinct "
                       "(heap, roots) dumps evaluated by the Coq model + distinct programs. Oracle per collection: mark bits clear "
                       "before/after, survivors byte-identical (kind, digest, references), every object reachable from the audit's own roots "
                       "(hook verif_roots + function and closure object of EVERY active frame from hook verif_frames, none of them "
                       "derived from what collect marked) "
                       "through any stored reference survives, every edge of a surviving reachable object lands on a live object of "
                       "the expected kind. Oracle per program: class/output/value identical under all schedules.")
