"""C16 -- Compiling is deterministic and caching is invisible.
Proof over the cache protocol (Model/PipelineCache.v) and build_global_layout
(Model/GlobalLayoutOrder.v); contract ties for both (hx_pipeline --mode proto / layout);
direct oracle on the real pipelines (--mode hist: one Pipeline vs. cache-cleared vs. fresh)
and on .avbc bytes across fresh processes (--mode det)."""
import glob, hashlib, json, os, re, shutil, tempfile
import vlib

TRUSTED = [
    "Coq 8.16.1 kernel + vm_compute (witnesses and the shape checks on the extracted stage lists)",
    "tools/extractors/c16.py reads the stage lists of standard.rs, name()/cacheable() of stages/*.rs, the break name of "
    "compile_internal, that the cache stores and serves output.clone(), and that `impl Clone for Heap` is Self::new(); "
    "its 'cacheable stages do not write self' flag is a syntactic check",
    "Model/PipelineCache.v is a hand model of Pipeline::exec / compile_internal; tied on every run by driving the real "
    "Pipeline with synthetic instrumented stages (which stages run, result class, payload, heap objects)",
    "the model treats stage outputs as values (no aliasing between an output and its clone; the one aliasing clone, Function's shared "
    "bytecode buffer, no longer reaches the cache because Compiled outputs are not cached) and the cacheable stages as "
    "deterministic functions of their input; the 64-bit DefaultHasher key is assumed injective on the sources used",
    "Model/GlobalLayoutOrder.v models only the HashMap walk in build_global_layout and the index pre-pass of compile_typed; "
    "every other table the compiler iterates is covered only by the multi-process byte comparison (exploration)",
    "hx_pipeline::compile_like_cli repeats the library calls of cli/src/cli/commands/compile.rs (the CLI crate is not linked)",
]

IMPORTS = ("From Aelys Require Import Model.PipelineCache Model.GlobalLayoutOrder.\n"
           "Local Open Scope string_scope.\nLocal Open Scope list_scope.")


def parse_hist(out):
    """-> list of histories {hid, kind, opt, hist, origin, sources[], feats[], reqs[]}"""
    hs = {}
    for line in out.splitlines():
        f = line.split("\t")
        if f[0] == "H":
            hs[int(f[1])] = {"hid": int(f[1]), "pipeline": f[2], "opt": int(f[3]), "history": f[4], "origin": f[6], "same_name": len(f) > 7 and f[7] == "1",
                             "sources": [], "feats": [], "names": [], "reqs": []}
        elif f[0] == "S":
            h = hs[int(f[1])]
            h["feats"].append(f[3])
            h["sources"].append(f[4])
            h["names"].append(f[5] if len(f) > 5 else "src%d" % int(f[2]))
        elif f[0] == "R" and len(f) >= 19:
            hs[int(f[1])]["reqs"].append({
                "i": int(f[2]), "kind": f[3], "src": int(f[4]),
                "cached": f[5], "nocache": f[6], "nocomp": f[7], "fresh": f[8],
                "out_cached": f[9], "out_nocache": f[10], "out_nocomp": f[11], "out_fresh": f[12],
                "objs": int(f[13]), "prior": int(f[14]), "prior_exec": int(f[15]), "cdiff": f[16],
                "detail_cached": f[17], "detail_fresh": f[18]})
    return [hs[k] for k in sorted(hs)]


def unesc(s):
    return (s.replace("\\\\", "\0").replace("\\n", "\n").replace("\\t", "\t").replace("\\r", "\r").replace("\0", "\\"))


def corpus_text(h, upto=None):
    hist = h["history"].split()
    if upto is not None:
        hist = hist[:upto + 1]
    t = f"#pipeline {h['pipeline']} {h['opt']}\n#history {' '.join(hist)}\n"
    for i, n in enumerate(h.get("names", [])):
        u = unesc(n)
        t += (f"#srcname {i} {u}\n" if re.fullmatch(r"[A-Za-z0-9_.\-]+", u) else f"#srcnamehex {i} {u.encode('utf-8').hex()}\n")
    for s in h["sources"]:
        u = unesc(s)
        exact = "\r" in u or not u.endswith("\n") or any(l != l.rstrip() for l in u.split("\n")) or u.endswith("\n\n")
        if exact:       # line endings / trailing blanks / final newline are the point: keep the exact bytes
            t += "#sourcehex " + u.encode("utf-8").hex() + "\n"
        else:
            t += "#source\n" + u
    return t


def classify(r):
    """Descriptive signature(s) of a divergent request (which twin disagrees, what differs in the
    compiled unit); returns [] when the request agrees everywhere.  No divergence is attributed to
    a known finding any more: KF-C16-1/2 are repaired (status fixed), so every signature is a VIOLATION."""
    same = lambda a, b: r[a] == r[b] and r["out_" + a] == r["out_" + b]
    if same("cached", "fresh") and same("nocache", "fresh"):
        return []
    if not same("nocache", "fresh"):
        # same stages, cache cleared before every request, still differs from a fresh pipeline
        if r["kind"] == "E" and same("cached", "nocache"):
            a, b = r["nocache"], r["fresh"]
            if a.startswith("err:") and b.startswith("err:") and a.split("@")[0] == b.split("@")[0] and r["out_nocache"] == r["out_fresh"]:
                return ["vm-reuse:error-reported-against-another-source"]
            if "late-global" in r.get("feats", "") or "kf4-vm-reuse" in r.get("origin", ""):
                return ["vm-reuse:global-of-an-earlier-run-visible:late-global"]
        return ["uncached-twin-differs-from-fresh:%s:%s-vs-%s" % (r["kind"], r["nocache"].split(":")[0], r["fresh"].split(":")[0])]
    # the cache is the cause
    if not same("nocomp", "fresh"):
        return ["cache:other-stage:%s" % r["kind"]]
    # ... more precisely the cached copy of a Compiled output (compiler / debug_strip stages)
    if r["prior"] == 0 or r["objs"] < 0:
        return ["cache:compiled-copy:unexplained:%s:prior=%d:objs=%d" % (r["kind"], r["prior"], r["objs"])]
    if r["kind"] == "E":
        if r["objs"] > 0:
            return ["cache:compiled-copy:empty-heap-clone:exec"]
        return ["cache:compiled-copy:exec-differs-without-heap-constants"]
    m = re.fullmatch(r"words=(\d+);patched=(\d+);fields=(\d);heap=(\d+)/(\d+)", r["cdiff"])
    if not m:
        return ["cache:compiled-copy:compile-differs:" + r["cached"].split(":")[0] + "-vs-" + r["fresh"].split(":")[0]]
    words, patched, fields, ha, hb = map(int, m.groups())
    sigs = []
    heap_drop = ha == 0 and hb > 0
    code_patch = words > 0 and words == patched   # prior > 0 holds here: an earlier execute, or an earlier compile whose unit the caller ran
    if fields == 0 and (heap_drop or ha == hb) and (code_patch or words == 0) and (heap_drop or code_patch):
        if heap_drop:
            sigs.append("cache:compiled-copy:empty-heap-clone:compile")
        if code_patch:
            sigs.append("cache:compiled-copy:shared-bytecode-patched:compile")
        return sigs
    return ["cache:compiled-copy:compile-differs:" + r["cdiff"]]


def run_hist(ctx, exe, files, n, prof, stats):
    cmd = [exe, "--mode", "hist", "--seed", str(ctx.seed), "--n", str(n), "--families", str(stats.get("families_per_run", 0) if n else 0)]
    if files:
        cmd += ["--files", ",".join(files)]
    rc, out = vlib.sh(cmd, timeout=1500)
    if rc != 0:
        ctx.violation("hx_pipeline-crash:hist", "history harness crashed (abort / stack overflow inside the toolchain?)",
                      {"profile": prof, "output_tail": out[-3000:], "cmd": " ".join(cmd)})
        return []
    hs = parse_hist(out)
    for line in out.splitlines():
        if line.startswith("X\t"):
            ctx.broken.append("corpus file unreadable: " + line[2:])
        elif line.startswith("K\t"):
            f = line.split("\t")
            stats["key_pairs_probed"] += 1
            if f[4] == "1":
                stats["key_collisions"].append(f"{f[5]} / {f[6]}")
    for h in hs:
        stats["histories"] += 1
        outside = h["origin"] == "generated-outside-known"
        for r in h["reqs"]:
            stats["requests"] += 1
            if r["prior"] > 0:
                stats["served_from_cache"] += 1
                stats["distinct"].add((h["pipeline"], h["opt"], h["sources"][r["src"]], r["kind"], min(r["prior_exec"], 1)))
            r["feats"] = h["feats"][r["src"]] if r["src"] < len(h["feats"]) else ""
            r["origin"] = h["origin"]
            sigs = classify(r)
            if not sigs:
                stats["agree"] += 1
                if outside:
                    stats["agree_outside_known"] += 1
                continue
            stats["divergent"] += 1
            replay = {"profile": prof, "pipeline": h["pipeline"], "opt": h["opt"], "history": h["history"], "request_index": r["i"],
                      "request": r, "sources": [unesc(s) for s in h["sources"]], "origin": h["origin"],
                      "hist_file_text": corpus_text(h, r["i"])}
            new = False
            for sg in sigs:
                what = ("request %d (%s src%d) of history [%s] on one %s pipeline (-O%d): cached=%s nocache=%s fresh=%s"
                        % (r["i"], r["kind"], r["src"], h["history"], h["pipeline"], h["opt"], r["cached"], r["nocache"], r["fresh"]))
                if ctx.violation(sg, what, replay) == "new":
                    new = True
                else:
                    stats["known"][sg] = stats["known"].get(sg, 0) + 1
            if outside:
                stats["divergent_outside_known"] += 1
            # after an execute with dangling constants the VM of the cached pipeline is in an
            # arbitrary state: later requests of this history are not compared
            if r["kind"] == "E":
                stats["skipped_after_exec_divergence"] += len(h["reqs"]) - r["i"] - 1
                break
            if new and len(ctx.violations) > 20:
                return hs
    return hs


def hash_site_report(ctx):
    """name the hash-table iterations that the translator found and Model/HashSites.v does not classify"""
    try:
        ext = open(os.path.join(vlib.COQ, "Extracted", "HashSites.v")).read()
        mod = vlib.strip_coq_comments(open(os.path.join(vlib.COQ, "Model", "HashSites.v")).read())
    except OSError:
        return
    trip = r'\("([^"]+)", "([^"]+)", "([^"]+)"\)'
    from collections import Counter
    found = Counter((f, n) for f, g, n in re.findall(trip, ext.split("serialized_hash_fields")[0]))
    known = Counter((f, n) for f, g, n in re.findall(trip, mod))
    ser = re.findall(r'\("([^"]+)", "([^"]+)"\)', ext.split("serialized_hash_fields")[1])
    ctx.cov["hash_iteration_sites"] = {"found_by_translator": sum(found.values()), "classified_entries": sum(known.values()),
                                       "classes": "Indexed / KeyedMerge / SetBuild / PerEntryUpdate / Sorted / Diagnostics / NotBytecode / NotHash (Model/HashSites.v)"}
    new = sorted(k for k in found if found[k] > known.get(k, 0))
    if new:
        ctx.broken.append("new hash-table iteration on the compile path, not classified in Model/HashSites.v "
                          "(read it: if its order can reach the output it is a determinism defect): " +
                          "; ".join(f"{f} over `{n}` ({found[(f, n)]} found, {known.get((f, n), 0)} classified)" for f, n in new[:6]))
    if ser:
        ctx.broken.append("serialized struct owns a hash table (its bytes follow the hash seed): " + "; ".join(f"{f}: {x}" for f, x in ser[:4]))


def run_det_cli(ctx, root, stats, quick):
    """the real `aelys-cli compile` on small projects whose aelys.toml has several [module.*] entries and
    (when the probe cdylib builds) several bundled native modules: N runs, bytes must be identical"""
    from props import c11 as c11mod
    cli = c11mod.cli_build(ctx)
    if not cli:
        ctx.broken.append("cli: aelys-cli does not build from the current tree")
        return
    lib = c11mod.native_lib_build(ctx)
    projects = [
        ("manifest-1-entry", '[module.alpha]\nkind = "script"\n', [], "let x = 1\nx + 1\n"),
        ("manifest-3-entries", '[module.alpha]\nkind = "script"\n[module.beta]\nkind = "script"\n[module.gamma]\ncapabilities = ["x", "y"]\n', [],
         "let x = 1\nx + 1\n"),
        ("manifest-4-entries-user-modules", '[module.um1]\nkind = "script"\n[module.um2]\nkind = "script"\n[module.zeta]\nchecksum = "00"\n[module.eta]\nrequired_version = ">=1.0.0"\n',
         [], "needs um1\nneeds um2 as u\num1.f1(2) + u.f2(3)\n"),
    ]
    if lib:
        projects += [
            ("bundle-2-native", '[module.sentry]\nkind = "native"\n[module.sentry2]\nkind = "native"\n[build]\nbundle_native_modules = true\n',
             ["libsentry.so", "libsentry2.so"], "needs sentry as s1\nneeds sentry2 as s2\ns1.touch() + s2.touch()\n"),
            ("bundle-3-native", '[module.sentry]\nkind = "native"\ncapabilities = ["a"]\n[module.sentry2]\nkind = "native"\n[module.sentry3]\nkind = "native"\n'
             '[build]\nbundle_native_modules = true\n', ["libsentry.so", "libsentry2.so", "libsentry3.so"],
             "needs sentry as s1\nneeds sentry2 as s2\nneeds sentry3 as s3\ns1.touch() + s2.touch() + s3.touch()\n"),
            ("bundle-1-native", '[module.sentry]\nkind = "native"\n[build]\nbundle_native_modules = true\n', ["libsentry.so"], "needs sentry\nsentry.touch()\n"),
        ]
    else:
        ctx.notes.append("probe cdylib does not build: bundled native modules are not exercised by the determinism oracle")
    runs = 8 if quick else 16
    for name, toml, libs, src in projects:
        d = os.path.join(root, "cli-" + name)
        shutil.rmtree(d, ignore_errors=True)
        os.makedirs(d)
        open(os.path.join(d, "aelys.toml"), "w").write(toml)
        open(os.path.join(d, "main.aelys"), "w").write(src)
        open(os.path.join(d, "um1.aelys"), "w").write("pub fn f1(x) { return x + 1 }\n")
        open(os.path.join(d, "um2.aelys"), "w").write("pub fn f2(x) { return x * 2 }\n")
        for l in libs:
            shutil.copy(lib, os.path.join(d, l))
        for opt in (0, 2):
            outs = []
            for k in range(runs):
                o = os.path.join(d, f"out{k}.avbc")
                rc, out = vlib.sh([cli, "compile", os.path.join(d, "main.aelys"), "-o", o, f"-O{opt}"], timeout=120, cwd=d)
                if rc != 0:
                    outs.append(("ERR", out.strip().split("\n")[0][:80]))
                else:
                    b = open(o, "rb").read()
                    outs.append(("OK", len(b), hashlib.sha1(b).hexdigest()[:16]))
                    os.remove(o)
            stats["cli_compiles"] = stats.get("cli_compiles", 0) + runs
            distinct = sorted(set(outs), key=str)
            if outs and outs[0][0] == "ERR":
                ctx.broken.append(f"determinism/cli: project {name} no longer compiles: {outs[0][1]}")
            elif len(distinct) > 1:
                ctx.violation(f"determinism:cli-bytes-differ:{name}",
                              f"`aelys-cli compile main.aelys -O{opt}` run {runs} times on project '{name}' wrote {len(distinct)} different files",
                              {"project": name, "opt": opt, "aelys.toml": toml, "main.aelys": src, "native_libraries": libs,
                               "outputs": [list(map(str, x)) for x in distinct[:6]]})
            else:
                stats.setdefault("cli_projects_identical", []).append(f"{name}@O{opt}")
        shutil.rmtree(d, ignore_errors=True)


def run(ctx):
    ctx.level = "proof"
    ctx.cov["trusted_base"] = TRUSTED
    ctx.assumptions = [
        "stage outputs are values and cacheable stages are deterministic functions (explored by the history oracle)",
        "DefaultHasher(name, content) is injective on the sources of a history",
        "the models of Pipeline::exec/compile_internal and build_global_layout are the code: contract ties on every run",
    ]
    ctx.cov["refuted_lemmas"] = [
        "old_protocol_dropped_heap_witness (about the protocol BEFORE the repair ea6c4c5 only): caching Compiled outputs through the code's "
        "clone made [exec s; exec s] and [compile s; compile s] differ from fresh pipelines; the repaired protocol never caches them "
        "(cache_transparent_for_the_codes_clone, cache_keeps_heap)",
        "layout_needs_distinct_indices: without distinct indices the HashMap order is visible (hypothesis of layout_permutation_invariant is needed)",
    ]
    if getattr(ctx, "replay_file", None):
        return replay(ctx)
    proved = ctx.prove("C16", extracted=["PipelineStages", "HashSites"])
    hash_site_report(ctx)
    if ctx.tier == "thorough" and proved:
        ctx.coqchk("C16")
    ok, out = vlib.coq_make(["Base/CaseCheck.vo", "Model/PipelineCache.vo", "Model/GlobalLayoutOrder.vo"])
    if not ok:
        ctx.broken.append("coq: model files for the C16 ties do not build")
        ctx.log(out[-2000:])
        return
    quick = ctx.tier == "quick"
    profiles = ["dev"] if quick else ["dev", "release"]
    n_proto, n_layout, n_hist, n_det = (1500, 500, 500, 40) if quick else (15000, 5000, 6000, 400)
    corpus = sorted(glob.glob(os.path.join(vlib.VERIF, "corpus", "C16", "*.hist")))
    stats = {"histories": 0, "requests": 0, "served_from_cache": 0, "agree": 0, "agree_outside_known": 0, "divergent": 0,
             "divergent_outside_known": 0, "skipped_after_exec_divergence": 0, "known": {}, "distinct": set(),
             "families_per_run": 6 if quick else 40, "key_pairs_probed": 0, "key_collisions": []}
    total_eval = 0
    distinct_proto, distinct_layout, distinct_det = set(), set(), set()
    for prof in profiles:
        ok, paths, log = vlib.harness_build(["hx_pipeline"], profile=prof)
        if not ok:
            ctx.broken.append("harness build failed (hx_pipeline, %s)" % prof)
            ctx.log(log[-3000:])
            return
        exe = paths["hx_pipeline"]
        # ---- direct oracle 1: histories on the real pipelines (corpus first)
        hs = run_hist(ctx, exe, corpus, n_hist, prof, stats)
        if hs and prof == profiles[0]:
            for h in hs[len(corpus):len(corpus) + 2]:
                ctx.add_samples([{"pipeline": h["pipeline"], "opt": h["opt"], "history": h["history"],
                                  "sources": [unesc(s) for s in h["sources"]],
                                  "results": [[r["cached"], r["nocache"], r["fresh"]] for r in h["reqs"]]}])
        # ---- contract tie 1: cache protocol with synthetic stages
        rc, out = vlib.sh([exe, "--mode", "proto", "--seed", str(ctx.seed), "--n", str(n_proto)], timeout=900)
        if rc != 0:
            ctx.violation("hx_pipeline-crash:proto", "protocol harness crashed", {"profile": prof, "output_tail": out[-2000:]})
            return
        cases = [tuple(l.split("\t")[:2]) for l in out.splitlines() if "\t" in l]
        total_eval += len(cases)
        for q, o in cases:
            hist = re.findall(r"R(?:Exec|Compile) (\d+)", q.split("], [")[-1])
            if len(hist) != len(set(hist)):       # some source requested twice: the cache is consulted
                distinct_proto.add(q)
        fails, err = vlib.coq_eval_cases("c16p", IMPORTS, "proto_obs", "pobs_list_eqb", cases)
        if err:
            ctx.broken.append("correspondence C16/proto: model evaluation failed")
            ctx.log(err[-3000:])
        if fails:
            ctx.broken.append(f"correspondence C16/proto ({prof}): Pipeline::exec/compile_internal and Model/PipelineCache.v differ on {len(fails)} cases")
            bad = [cases[i] for i in fails[:5]]
            mo, _ = vlib.coq_eval_terms("c16p", IMPORTS, [f"proto_obs ({q})" for q, _ in bad])
            ctx.cov["disagreements_proto"] = [{"query": q, "implementation": o, "model": m} for (q, o), m in zip(bad, mo)]
        if prof == profiles[0] and cases:
            ctx.add_samples([{"proto_query": cases[0][0], "observed": cases[0][1]}])
        # ---- contract tie 2: global layout
        rc, out = vlib.sh([exe, "--mode", "layout", "--seed", str(ctx.seed), "--n", str(n_layout)], timeout=900)
        if rc != 0:
            ctx.violation("hx_pipeline-crash:layout", "layout harness crashed", {"profile": prof, "output_tail": out[-2000:]})
            return
        lines = [l.split("\t") for l in out.splitlines() if "\t" in l]
        cases = [(l[0], l[1]) for l in lines if l[0] != "X"]
        rejected = sum(1 for l in lines if l[0] == "X")
        ctx.cov["layout_programs_rejected_by_compiler"] = rejected
        total_eval += len(cases)
        distinct_layout.update(q for q, _ in cases if q.count('"') >= 4)
        fails, err = vlib.coq_eval_cases("c16l", IMPORTS, "layout_of_decls", "slist_eqb", cases)
        if err:
            ctx.broken.append("correspondence C16/layout: model evaluation failed")
            ctx.log(err[-3000:])
        if fails:
            ctx.broken.append(f"correspondence C16/layout ({prof}): global layout and Model/GlobalLayoutOrder.v differ on {len(fails)} cases")
            bad = [cases[i] for i in fails[:5]]
            mo, _ = vlib.coq_eval_terms("c16l", IMPORTS, [f"layout_of_decls ({q})" for q, _ in bad])
            ctx.cov["disagreements_layout"] = [{"decls": q, "implementation": o, "model": m} for (q, o), m in zip(bad, mo)]
        if len(cases) < n_layout // 2:
            ctx.broken.append("layout tie: most generated programs no longer compile (generator out of date)")
        # ---- direct oracle 2: bytes across fresh processes
        d = os.path.join(vlib.CACHE, "c16-det-%d" % os.getpid())
        shutil.rmtree(d, ignore_errors=True)
        os.makedirs(d)
        ex = sorted(glob.glob(os.path.join(vlib.REPO, "examples", "lang", "*.aelys")))
        rc, out = vlib.sh([exe, "--mode", "det", "--seed", str(ctx.seed), "--n", str(n_det), "--procs", "8", "--dir", d,
                           "--files", ",".join(ex)], timeout=1500)
        if rc != 0:
            ctx.violation("hx_pipeline-crash:det", "determinism harness crashed", {"profile": prof, "output_tail": out[-2000:]})
            shutil.rmtree(d, ignore_errors=True)
            return
        nd_ok = nd_err = 0
        featc = ctx.cov.setdefault("det_feature_counts", {})
        for l in out.splitlines():
            f = l.split("\t")
            if f[0] != "D":
                continue
            if f[3] == "OK" and f[2] == "0":
                for ft in set(f[9].split(",")):
                    featc[ft] = featc.get(ft, 0) + 1
            total_eval += int(f[5])
            status, ndist = f[3], int(f[4])
            if status == "OK":
                nd_ok += 1
                distinct_det.add((f[8], f[2]))
            else:
                nd_err += 1
            if ndist > 1 or status in ("PANIC", "CRASH"):
                path = unesc(f[10])
                try:
                    text = open(path, encoding="utf-8").read()
                except OSError:
                    text = ""
                mods = {}
                for mp in glob.glob(os.path.join(os.path.dirname(path), "um%s_*.aelys" % f[1])):
                    mods[os.path.basename(mp)] = open(mp, encoding="utf-8").read()
                if ndist > 1:
                    ctx.violation("determinism:bytes-differ:O%s" % f[2],
                                  "compiling the same file in %s fresh processes gave %d different outputs (first difference at byte %s)"
                                  % (f[5], ndist, f[7]),
                                  {"profile": prof, "opt": int(f[2]), "file": path, "source": text, "modules": mods, "features": f[9],
                                   "outputs_hex": f[11][:6000] if len(f) > 11 else ""})
                else:
                    ctx.violation("determinism:compile-%s:O%s" % (status.lower(), f[2]), "the compile path of the CLI %s on this file" % status,
                                  {"profile": prof, "opt": int(f[2]), "file": path, "source": text, "modules": mods})
        # every hash table whose order could reach the output must be exercised with >= 2 entries by compiled files
        need = {"many-globals": "global_indices -> build_global_layout", "forward-globals": "child global_indices merged into the parent (finalize_*_function)",
                "lambda-forward-globals": "finalize_lambda / compile_typed_lambda_*", "block-lambda-new-globals": "compile_typed_lambda_with_stmts: globals first seen in a block-bodied lambda, used by the enclosing code afterwards",
                "nested-block-lambda": "the same, lambda inside a lambda / inside a function", "nested-interned-strings": "Heap::merge intern_table",
                "needs-module": "loader exports / known_globals / symbol_origins", "needs-selected": "loader exports (selected symbols)",
                "needs-alias": "loader exports (alias)", "user-module": "compile_module exports", "mutual-recursion": "inliner call graph (functions, calls)",
                "closure": "sema captures / scopes"}
        starved = [k for k in need if featc.get(k, 0) < 2]
        ctx.cov["det_tables_exercised"] = {k: {"table": v, "files_compiled": featc.get(k, 0)} for k, v in need.items()}
        if starved:
            ctx.broken.append("determinism generator starved: fewer than 2 compiled files exercise " + ", ".join(starved))
        ctx.cov["det_files_compiled_ok"] = nd_ok
        ctx.cov["det_files_rejected"] = nd_err
        shutil.rmtree(d, ignore_errors=True)
    droot = os.path.join(vlib.CACHE, "c16-cli-%d" % os.getpid())
    os.makedirs(droot, exist_ok=True)
    try:
        run_det_cli(ctx, droot, stats, quick)
    finally:
        shutil.rmtree(droot, ignore_errors=True)
    total_eval += stats.get("cli_compiles", 0)
    total_eval += stats["requests"] * 4
    ctx.cov["evaluations"] = total_eval
    ctx.cov["distinct_nontrivial"] = len(stats["distinct"]) + len(distinct_proto) + len(distinct_layout) + len(distinct_det)
    ctx.cov["distinct_breakdown"] = {"history_requests_served_from_a_populated_cache": len(stats["distinct"]),
                                     "protocol_cases_with_a_repeated_source": len(distinct_proto),
                                     "layout_programs_with_2+_declarations": len(distinct_layout),
                                     "(file,opt) pairs compiled to identical bytes in 8 processes + in-process": len(distinct_det)}
    st = dict(stats)
    st.pop("distinct")
    coll = st.pop("key_collisions")
    ctx.cov["history_oracle"] = st
    ctx.cov["hash_injectivity_probe"] = {
        "what": "hypothesis `hash injective on the requested (name, content) pairs` of cache_transparent(_on_named_sources), checked on the family pools "
                "(near-identical texts under one name, and name/content boundary shifts with equal name ++ content): for every ordered pair of "
                "distinct (name, content) a cacheable probe stage in a real Pipeline must run again for the second request (a shared key would serve it from the cache)",
        "pairs_probed": stats["key_pairs_probed"], "collisions": len(coll), "examples": coll[:6]}
    if coll:
        ctx.broken.append("hash-injectivity hypothesis of cache_transparent fails on the explored pools: %d pairs of different (name, content) "
                          "share a cache key, e.g. %s" % (len(coll), "; ".join(sorted(set(coll))[:4])))
    ctx.cov["rule"] = (
        "hist: seeded histories (2-8 requests, execute/compile) over pools of 1-4 generated sources (string recursion, nested "
        "functions with constants, closures, loops, typed recursion, mutable globals, call sites; 1 in 6 broken in some stage) on the "
        "standard / compilation / stdlib-enabled pipelines at -O0..-O3; each request also runs on a cache-cleared twin, a twin whose "
        "Compiled-producing stages are uncacheable, and a fresh pipeline; value class+payload and captured output must agree. every request of "
        "every history must agree (40% of the histories use sources without heap constants and one request kind only). "
        "families: per run 6 (quick) / 40 (thorough) families of 9 near-identical sources -- base, CRLF line endings, trailing blanks, no final "
        "newline, extra blank lines, blank line inside a multi-line string literal, other literal content, trailing tab in the literal, all under "
        "the SAME name, plus the base text under another name; a comparison chain turns the literal's content into the returned value; every "
        "ordered pair [i, j] and three complete orders run against one pipeline, and every pair goes through the key-injectivity probe. "
        "boundary families (same count): sources (name p ++ T[..k], content T[k..]) for 6 cut points of an expression T incl. k = 0 and the empty "
        "content, plus a two-line program cut at the line break -- name ++ content is one text, the programs differ; every ordered pair as "
        "[C i, C j] and [E i, E j], three complete mixed orders, and the probe: injectivity of the key on (name, content) PAIRS. "
        "proto: random stage lists (names incl. duplicates and 'vm' in the middle, cacheable flags, stateful counters, failing/Value/"
        "Compiled-with-k-heap-objects actions) x histories, compared with the Coq model; layout: top-level let/fn declaration lists with "
        "re-declarations; det: generated sources + imports of std modules in all three forms + 0-3 user modules + up to 32 extra globals, "
        "and /repo/examples/lang, each compiled in 8 child processes and in-process at -O0/-O2. "
        "distinct = see distinct_breakdown")
    ctx.cov["input_distribution"] = {"pipelines": "standard 50% / stdlib 30% / compilation 20%", "opt": "O0 33% O1 17% O2 33% O3 17%",
                                     "broken sources": "1/6 per pool entry, 1/8 per det file"}
    ctx.cov["exhaustive"] = False


def replay(ctx):
    rp = json.load(open(ctx.replay_file))
    r = rp.get("replay", {})
    prof = r.get("profile", "dev")
    ok, paths, log = vlib.harness_build(["hx_pipeline"], profile=prof)
    if not ok:
        ctx.broken.append("harness build failed")
        return
    exe = paths["hx_pipeline"]
    stats = {"histories": 0, "requests": 0, "served_from_cache": 0, "agree": 0, "agree_outside_known": 0, "divergent": 0,
             "divergent_outside_known": 0, "skipped_after_exec_divergence": 0, "known": {}, "distinct": set()}
    if "hist_file_text" in r:
        with tempfile.NamedTemporaryFile("w", suffix=".hist", delete=False, dir=vlib.CACHE) as f:
            f.write(r["hist_file_text"])
        hs = run_hist(ctx, exe, [f.name], 0, prof, stats)
        os.unlink(f.name)
        for h in hs:
            for q in h["reqs"]:
                ctx.log("request", q["i"], q["kind"], "src%d" % q["src"], "cached=" + q["cached"], "nocache=" + q["nocache"],
                        "fresh=" + q["fresh"], "out:", repr(q["out_cached"]), "vs", repr(q["out_fresh"]), q["cdiff"])
    elif "source" in r:
        d = os.path.join(vlib.CACHE, "c16-det-%d" % os.getpid())
        os.makedirs(d, exist_ok=True)
        p = os.path.join(d, os.path.basename(r.get("file", "replay.aelys")))
        open(p, "w").write(r["source"])
        for k, v in r.get("modules", {}).items():
            open(os.path.join(d, k), "w").write(v)
        rc, out = vlib.sh([exe, "--mode", "det", "--n", "0", "--procs", "8", "--dir", d, "--files", p], timeout=600)
        for l in out.splitlines():
            f = l.split("\t")
            if f[0] == "D":
                ctx.log("opt", f[2], "status", f[3], "distinct outputs", f[4], "of", f[5])
                if int(f[4]) > 1:
                    ctx.violation("determinism:bytes-differ:O%s" % f[2], "replayed: outputs differ across processes", r)
        shutil.rmtree(d, ignore_errors=True)
    ctx.cov["evaluations"] = stats["requests"]
    ctx.cov["rule"] = "replay of one recorded case"
