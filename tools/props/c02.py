"""C02 -- compiled execution matches the definitional evaluator (translation validation)."""
import collections, os
import vlib
from gen import proggen
import sys
sys.path.insert(0, os.path.join(os.path.dirname(os.path.abspath(__file__)), "..", "gen"))

IMPL_CLASS = {"ok": 0, "runtime:DivisionByZero": 1, "runtime:TypeError": 2, "runtime:IndexOutOfBounds": 3,
              "runtime:UndefinedVariable": 4, "runtime:NotCallable": 5, "runtime:ArityMismatch": 6,
              "runtime:StackOverflow": 7}


def unesc(s):
    out, i = [], 0
    while i < len(s):
        c = s[i]
        if c == "\\" and i + 1 < len(s):
            n = s[i + 1]
            if n == "n": out.append("\n"); i += 2; continue
            if n == "t": out.append("\t"); i += 2; continue
            if n == "r": out.append("\r"); i += 2; continue
            if n == "\\": out.append("\\"); i += 2; continue
            if n == "x": out.append(chr(int(s[i + 2:i + 4], 16))); i += 4; continue
        out.append(c); i += 1
    return "".join(out)


def impl_obs(cls, out, val):
    code = IMPL_CLASS.get(cls, 60)
    return f"({code}%N, {vlib.coq_str(unesc(out))}, {vlib.coq_str(unesc(val)) if code == 0 else vlib.coq_str('')})"


def run_stream(ctx, progs, levels="0,1,2,3", gc=None, passes=None, code=False):
    """Runs hx_ast on the programs; returns dict i -> {"ast": {...}, "run": {...}, "front": err}."""
    ok, paths, log = vlib.harness_build(["hx_ast"])
    if not ok:
        ctx.broken.append("harness build failed (hx_ast)")
        ctx.log(log[-3000:])
        return None
    d = os.path.join(vlib.CACHE, "progs")
    os.makedirs(d, exist_ok=True)
    f = os.path.join(d, f"{ctx.pid}_{os.getpid()}.txt")
    open(f, "w").write("\n=====\n".join(progs))
    cmd = [paths["hx_ast"], "--file", f, "--opts", levels]
    if gc:
        cmd += ["--gc-mode", str(gc[0]), "--gc-k", str(gc[1])]
    if passes:
        cmd += ["--passes", passes]
    if code:
        cmd += ["--code"]
    rc, out = vlib.sh(cmd, timeout=1800)
    os.remove(f)
    res = collections.defaultdict(lambda: {"ast": {}, "run": {}, "front": None})
    if rc != 0:
        ctx.violation("hx_ast-crash", "the toolchain crashed the harness process (abort / stack overflow)",
                      {"output_tail": out[-1500:]})
    for line in out.splitlines():
        t = line.split("\t")
        if t[0] == "AST" and len(t) >= 4:
            res[int(t[1])]["ast"][t[2]] = t[3]
        elif t[0] == "RUN" and len(t) >= 7:
            res[int(t[1])]["run"][t[2]] = (t[3], t[4], t[5], t[6])
        elif t[0] == "FRONT":
            res[int(t[1])]["front"] = t[2]
        elif t[0] == "CODE" and len(t) >= 7:
            res[int(t[1])].setdefault("code", {}).setdefault(t[2], []).append((t[3], t[4], t[5], t[6]))
        elif t[0] == "WIN" and len(t) >= 5:
            res[int(t[1])].setdefault("win", {})[t[2]] = (int(t[3]), t[4])
    return res


def run_selfcheck(ctx):
    """Self-checking programs at the toolchain's size limits (tools/gen/scalegen.py): the expected
    output is known by construction, independently of the front end's typed AST.  A program must
    be rejected at compile time or print exactly the expected text, at every level."""
    import scalegen
    ok, paths, log = vlib.harness_build(["hx_run"])
    if not ok:
        ctx.broken.append("harness build failed (hx_run)")
        ctx.log(log[-3000:])
        return
    cases = scalegen.gen(ctx.seed, ctx.tier)
    levels = "0,2" if ctx.tier == "quick" else "0,1,2,3"
    d = os.path.join(vlib.CACHE, "progs")
    os.makedirs(d, exist_ok=True)
    # shards run in parallel; the very large programs (compile time grows faster than linearly
    # with the size of one body) each get a process of their own and a time limit: a program
    # that is still compiling at the limit is counted as not decided, which is not a violation
    order = sorted(range(len(cases)), key=lambda i: -len(cases[i][1]))
    big = [i for i in order if len(cases[i][1]) > 300000]
    rest = [i for i in order if i not in set(big)]
    nsh = 12
    shards = [[i] for i in big] + [rest[k::nsh] for k in range(nsh) if rest[k::nsh]]
    limit = 900 if ctx.tier == "quick" else 3000

    def run_shard(k_ix):
        k, ix = k_ix
        f = os.path.join(d, f"{ctx.pid}_scale_{os.getpid()}_{k}.txt")
        open(f, "w").write("\n=====\n".join(cases[i][1] for i in ix))
        rc, out = vlib.sh([paths["hx_run"], "--file", f, "--opts", levels, "--budget", "120000000"], timeout=limit)
        os.remove(f)
        return ix, rc, out

    import concurrent.futures
    res = collections.defaultdict(dict)
    undecided = []
    with concurrent.futures.ThreadPoolExecutor(max_workers=14) as ex:
        for ix, rc, out in ex.map(run_shard, enumerate(shards)):
            seen = collections.defaultdict(set)
            for line in out.splitlines():
                t = line.split("\t")
                if len(t) >= 7 and t[0].isdigit() and int(t[0]) < len(ix):
                    res[ix[int(t[0])]][t[1]] = (t[3], unesc(t[4]), t[6])
                    seen[int(t[0])].add(t[1])
            if rc == 0:
                continue
            # the program the process stopped in: the first one without a result at every level
            stop = next((j for j in range(len(ix)) if len(seen[j]) < len(levels.split(","))), len(ix) - 1)
            name = cases[ix[stop]][0]
            if rc == 124 and out.endswith("[timeout]"):
                undecided += [cases[i][0] for i in ix[stop:]]
                continue
            src = cases[ix[stop]][1]
            ctx.violation(f"c02:scale:{name.rsplit('-', 1)[0]}:harness-crash",
                          f"the toolchain crashed the harness process (abort / stack overflow, exit {rc}) on size-limit program {name}",
                          {"generator": "tools/gen/scalegen.py", "name": name, "seed": ctx.seed, "output_tail": out[-1500:],
                           "program": src if len(src) < 60000 else src[:2000] + " ...(regenerate with the generator)"})
    if undecided:
        ctx.log(f"size-limit programs still compiling / running at the {limit}s limit (not decided): {undecided}")
    st = collections.Counter()
    fam = collections.Counter()
    for i, (name, src, exp) in enumerate(cases):
        family = name.rsplit("-", 1)[0]
        for o in levels.split(","):
            r = res[i].get(o)
            if r is None:
                st["not-decided-time-limit" if name in undecided else "missing-run"] += 1
                continue
            cls, outp, detail = r
            if cls == "compile-error":
                st["rejected-at-compile-time"] += 1
                fam[family + ":rejected"] += 1
            elif cls == "ok" and outp == exp:
                st["correct-output"] += 1
                fam[family + ":correct"] += 1
            else:
                st["wrong"] += 1
                ctx.violation(f"c02:scale:{family}:{cls}",
                              f"size-limit program {name} at -O{o}: accepted, but the run is `{cls}` with output {outp[:60]!r} ({unesc(detail)[:160]}); expected output {exp[:60]!r} or a compile-time diagnostic",
                              {"generator": "tools/gen/scalegen.py", "name": name, "seed": ctx.seed, "level": int(o),
                               "expected": exp[:2000], "program": src if len(src) < 60000 else src[:2000] + " ...(regenerate with the generator)"})
    ctx.cov["scale_selfcheck"] = {"programs": len(cases), "runs": sum(st.values()), "outcomes": dict(st), "by_family": dict(sorted(fam.items()))}
    ctx.cov["evaluations"] = ctx.cov.get("evaluations", 0) + sum(st.values())
    ctx.log(f"size-limit self-checks: {dict(st)}")



def replay_program(ctx):
    """--replay <file>: the program of a stored violation, or None (then the whole check is re-run,
    which reproduces every violation of that tier and seed since all choices derive from the seed)."""
    f = getattr(ctx, "replay_file", None)
    if not f:
        return None
    try:
        import json
        d = json.load(open(f))
        p = (d.get("replay") or {}).get("program")
        if isinstance(p, str) and "(regenerate with the generator)" not in p:
            ctx.log(f"replaying the program stored in {f}")
            return p
    except Exception as e:
        ctx.log(f"cannot read replay file {f}: {e}")
    return None


TRUSTED = [
    "Coq 8.16.1 kernel + vm_compute",
    "coq/Model/Eval.v: definitional evaluator written from docs/language-spec.md (ints wrapping at 48 bits, truncating division, short-circuit and/or, block scoping and shadowing, top-level lets as globals, parameters as copies, closures sharing cells, arrays/vecs by reference with bounds checks, ranges, for-each, break/continue, string concatenation and interpolation, float arithmetic/comparison with int promotion through the PrimFloat codec of Model/VmArith.v); float printing, structs, slices, casts, std modules other than print/println are outside the modelled fragment and are discarded (counted)",
    "harness/src/astdump.rs renders aelys_sema::TypedProgram as a Coq term (Grouping and type annotations dropped)",
    "tools/gen/proggen.py generates only terminating, mostly type-correct programs",
    "tools/gen/scalegen.py computes the expected output of its size-limit programs by construction (sums, counts, concatenations)",
]


def run(ctx):
    ctx.level = "translation_validation"
    ctx.cov["trusted_base"] = TRUSTED
    proved = ctx.prove("C02", extracted=["ValueConsts", "Opcodes", "RegUse", "VerifierTable"])
    if ctx.tier == "thorough" and proved:
        ctx.coqchk("C02")
    ok, out = vlib.coq_make(["Model/EvalObs.vo", "Model/RegPoolObs.vo"])
    if not ok:
        ctx.broken.append("coq: Model/EvalObs.vo does not build")
        ctx.log(out[-2000:])
        return
    n = 400 if ctx.tier == "quick" else 6000
    progs, feats = proggen.generate(ctx.seed * 7919 + 2, n)
    corpus, corpus_names = load_corpus("C02", names=True)
    progs = corpus + progs
    feats = [["corpus"]] * len(corpus) + feats
    rp = replay_program(ctx)
    if rp is not None:
        progs, feats, corpus, corpus_names = [rp], [["replay"]], [], []
    res = run_stream(ctx, progs, code=True)
    if res is None:
        return
    call_windows(ctx, progs, res)
    call_liveness(ctx, progs, res)
    cases, idx = [], []
    dist = collections.Counter()
    featc = collections.Counter()
    for i, p in enumerate(progs):
        r = res.get(i)
        if r is None or r["front"] or "in" not in r["ast"]:
            dist["front-rejected"] += 1
            continue
        runs = [r["run"].get(str(l)) for l in range(4)]
        if any(x is None for x in runs):
            dist["missing-run"] += 1
            continue
        if any(x[0] == "budget" for x in runs):
            dist["budget"] += 1
            continue
        dist[runs[0][0]] += 1
        for ft in feats[i]:
            featc[ft] += 1
        cases.append(f"{r['ast']['in']} [{'; '.join(impl_obs(*x[:3]) for x in runs)}]")
        idx.append(i)
    codes, err = vlib.coq_eval_codes("c02", "From Aelys Require Import Model.Lang Model.Eval Model.EvalObs.", "c02_codes", cases)
    if err:
        ctx.broken.append("correspondence C02: model evaluation failed")
        ctx.log(err[-3000:])
    agree = disc_fuel = disc_frag = relaxed = 0
    nontrivial = set()
    for k, code in enumerate(codes):
        if code is None:
            continue
        digits = [int(c) for c in str(code)[1:]]
        i = idx[k]
        if 3 in digits:
            disc_frag += 1
            continue
        if 2 in digits:
            disc_fuel += 1
            continue
        if all(d == 0 for d in digits):
            agree += 1
            if len(progs[i]) > 40:
                nontrivial.add(hash(progs[i]))
            continue
        lv = [l for l, d in enumerate(digits) if d == 1]
        runs = [res[i]["run"][str(l)] for l in range(4)]
        # C01's one permitted difference also bounds C02 at optimised levels: if -O0 agrees with
        # the evaluator and failed, an optimised run may skip that failing computation when its
        # result is unused, provided -O0's output is a prefix of the optimised output
        if 0 not in lv and runs[0][0].startswith("runtime:"):
            lv = [l for l in lv if not runs[l][1].startswith(runs[0][1])]
            if not lv:
                relaxed += 1
                continue
        sig = classify(progs[i], runs, lv)
        if i < len(corpus):
            sig = "c02:corpus:" + corpus_names[i] + ":" + sig
        mo, _ = vlib.coq_eval_terms("c02", "From Aelys Require Import Model.Lang Model.Eval Model.EvalObs.\nOpen Scope string_scope.",
                                    [f"obs_of (run_program FUEL {res[i]['ast']['in']})"])
        ctx.violation(sig, f"compiled execution differs from the definitional evaluator at -O{lv}",
                      {"program": progs[i], "levels_differing": lv,
                       "implementation": {f"O{l}": runs[l] for l in range(4)}, "evaluator": mo[0]})
    ctx.cov["model_too_slow"] = len([x for x in vlib.SLOW_CASES if x[0] == "c02"])
    ctx.cov["programs"] = len(cases)
    ctx.cov["disagreements_checked"] = len(cases) * 4
    ctx.cov["evaluations"] = len(cases) * 4
    ctx.cov["distinct_nontrivial"] = len(nontrivial)
    ctx.cov["agree_all_levels"] = agree
    ctx.cov["permitted_skip_of_unused_failing_computation"] = relaxed
    ctx.cov["discarded_model_out_of_fuel"] = disc_fuel
    ctx.cov["discarded_outside_fragment"] = disc_frag
    ctx.cov["input_distribution"] = {"outcome_at_O0": dict(dist), "features": dict(featc)}
    ctx.cov["rule"] = ("grammar-based programs (tools/gen/proggen.py, seeded) parsed and inferred by the real front end; the typed AST is "
                       "evaluated by the Coq evaluator and compared with the real compiler+VM at -O0..-O3 (class, output, final value); "
                       "non-trivial = distinct program text longer than 40 chars on which all four levels agreed with the evaluator")
    for i in idx[:3]:
        ctx.add_samples([{"program": progs[i], "O0": res[i]["run"]["0"][:3]}])
    if rp is None:
        pool_tie(ctx)
        run_selfcheck(ctx)


def call_windows(ctx, progs, res):
    """Statistic only: the frame-pushing calls the compiler emitted (hook
    aelys_backend::verif::record_call) and how many had a register marked in use above their
    window at emission time.  That is NOT by itself an error: the argument registers of an
    enclosing call are reserved before they are written (`sw(f2(), f2() + 1)` compiles the first
    f2() while the register of the second argument is reserved).  The exact condition - no
    register that is LIVE across a call lies above its window - is checked on the emitted
    bytecode by the liveness analysis (call_liveness)."""
    calls = bad = 0
    for i in range(len(progs)):
        for lvl, (n, off) in sorted((res.get(i) or {}).get("win", {}).items()):
            calls += n
            bad += 1 if off else 0
    ctx.cov["call_windows"] = {"frame_pushing_calls_emitted": calls, "programs_levels_with_a_reserved_register_above_a_window": bad}


def call_liveness(ctx, progs, res):
    """Model/CallLive.v on the bytecode the compiler emitted for every function of every program at
    every level: a register that is read after a call returns, without being written in between
    (must-liveness: Props/C02.v C02_live_register_has_a_path_to_a_read), must not lie above the
    call's window - the callee's frame starts right after the window and overwrites it."""
    ok, out = vlib.coq_make(["Model/CallLiveObs.vo"])
    if not ok:
        ctx.broken.append("coq: Model/CallLiveObs.vo does not build")
        ctx.log(out[-2000:])
        return
    seen = {}
    entry = {}
    skipped = 0
    for i in range(len(progs)):
        for lvl, fns in sorted((res.get(i) or {}).get("code", {}).items()):
            for path, arity, nregs, words in fns:
                if words.startswith("TOO-LONG") or len(words.split()) > 1500:
                    skipped += 1
                    continue
                seen.setdefault(words, (i, lvl, path))
                entry.setdefault((arity, words), (i, lvl, path))
    keys = list(seen)
    cases = ["[" + "; ".join(k.split()) + "]" for k in keys]
    codes, err = vlib.coq_eval_codes("c02live", "From Aelys Require Import Model.CallLive Model.CallLiveObs.\nOpen Scope N_scope.", "live_code", cases, shard=120)
    if err:
        ctx.broken.append("call-liveness (Model/CallLive.v): model evaluation failed")
        ctx.log(err[-2000:])
        return
    bad = 0
    calls = 0
    for k, code in zip(keys, codes):
        calls += sum(1 for w in k.split() if (int(w) >> 24) in (21, 77, 78, 79, 80))
        if not code:
            continue
        bad += 1
        if bad > 3:
            continue
        i, lvl, path = seen[k]
        pc = (code & 0xffffffff) - 1
        mask = code >> 32
        regs = [r for r in range(256) if mask >> r & 1]
        w = int(k.split()[pc])
        ctx.violation("c02:live-register-above-call-window",
                      f"at -O{lvl}, function {path}: the call at word {pc} (opcode {w >> 24}, a={w >> 16 & 255}, b={w >> 8 & 255}, c={w & 255}) "
                      f"has registers {regs} above its window that are read after it returns without being written again; "
                      "the callee's frame starts right after the window and overwrites them",
                      {"program": progs[i], "level": int(lvl), "function": path, "call_word": pc, "registers": regs,
                       "bytecode_words": k, "theorem": "Props/C02.v C02_live_register_has_a_path_to_a_read"})
    # second use of the same analysis: registers (other than the parameters) that are read on some
    # path from the function's entry before anything wrote them (C02_entry_read_has_a_path)
    ekeys = list(entry)
    ecodes, err = vlib.coq_eval_codes("c02entry", "From Aelys Require Import Model.CallLive Model.CallLiveObs.\nOpen Scope N_scope.", "entry_code",
                                      [f"{a} [{'; '.join(w.split())}]" for a, w in ekeys], shard=120)
    if err:
        ctx.broken.append("entry liveness (Model/CallLive.v): model evaluation failed")
        ctx.log(err[-2000:])
        return
    ebad = 0
    for (a, w), code in zip(ekeys, ecodes):
        if not code:
            continue
        ebad += 1
        if ebad > 3:
            continue
        i, lvl, path = entry[(a, w)]
        regs = [r for r in range(256) if (code - 1) >> r & 1]
        ctx.violation("c02:register-read-before-written",
                      f"at -O{lvl}, function {path} (arity {a}): registers {regs} are read on some path from the entry before anything "
                      "wrote them: the function computes with what an earlier frame left in its register window",
                      {"program": progs[i], "level": int(lvl), "function": path, "arity": int(a), "registers": regs,
                       "bytecode_words": w, "theorem": "Props/C02.v C02_entry_read_has_a_path"})
    ctx.cov["entry_liveness"] = {"functions_analysed": len(ekeys), "functions_reading_a_register_before_writing_it": ebad}
    ctx.cov["call_liveness"] = {"distinct_functions_analysed": len(keys), "functions_too_long": skipped,
                                "functions_with_a_live_register_above_a_call_window": bad, "call_instructions_seen": calls}
    ctx.cov["evaluations"] = ctx.cov.get("evaluations", 0) + len(keys)
    ctx.log(f"call liveness: {len(keys)} distinct functions, {bad} with a live register above a call window")


def pool_tie(ctx):
    """Correspondence of Model/RegPool.v with the compiler's own pool functions (hook
    aelys_backend::verif::pool_script): random pools and operation scripts, every intermediate
    pool and every result compared.  Register 255 is reserved by the compiler (in use from the
    start, never handed out): the model's pool is registers 0..254."""
    import random
    ok, paths, log = vlib.harness_build(["hx_pool"])
    if not ok:
        ctx.broken.append("harness build failed (hx_pool)")
        ctx.log(log[-3000:])
        return
    r = random.Random(ctx.seed * 7919 + 5)
    n = 400 if ctx.tier == "quick" else 3000
    scripts = []
    for k in range(n):
        shape = r.random()
        if shape < 0.4:      # compact pool
            used = list(range(r.randrange(0, 40)))
        elif shape < 0.5:    # nearly full
            used = [i for i in range(255) if r.random() < 0.97]
        elif shape < 0.55:
            used = list(range(r.randrange(250, 256)))
        else:                # holes
            top = r.randrange(1, 60)
            used = [i for i in range(top) if r.random() < 0.7]
        ops = []
        inuse = set(used)
        for _ in range(r.randrange(1, 12)):
            c = r.random()
            if c < 0.3:
                ops.append("a")
            elif c < 0.45:
                ops.append(f"f{r.choice(sorted(inuse)) if inuse and r.random() < 0.8 else r.randrange(255)}")
            elif c < 0.65:
                ops.append(f"c{r.choice([1, 2, 3, 4, 8, 1, 2, 255, 0])}")
            elif c < 0.75:
                ops.append(f"m{r.randrange(0, 256)},{r.choice([0, 1, 2, 3, 5])}")
            elif c < 0.9:
                if inuse:
                    ops.append(f"l{r.choice(sorted(inuse))},{int(r.random() < 0.6)},{int(r.random() < 0.15)}")
            else:
                ops.append("d")
        if not ops:
            ops = ["a"]
        scripts.append((used, ops))
    d = os.path.join(vlib.CACHE, "progs")
    os.makedirs(d, exist_ok=True)
    f = os.path.join(d, f"pool_{os.getpid()}.txt")
    open(f, "w").write("\n".join(",".join(map(str, u)) + "|" + ";".join(o) for u, o in scripts))
    rc, out = vlib.sh([paths["hx_pool"], "--file", f], timeout=600)
    os.remove(f)
    impl = {}
    for line in out.splitlines():
        t = line.split("\t")
        if len(t) == 2 and t[0].isdigit():
            impl[int(t[0])] = t[1]
    if rc != 0 or len(impl) != len(scripts):
        ctx.broken.append("correspondence C02 (register pool): the hook run failed")
        ctx.log(out[-1500:])
        return

    def cop(o):
        k, a = o[0], [int(x) for x in o[1:].split(",")] if len(o) > 1 else []
        return {"a": "SAlloc", "f": f"SFree {a[0]}" if a else "", "c": f"SCall {a[0]}" if a else "",
                "m": f"SFrom {a[0]} {a[1]}" if len(a) > 1 else "", "d": "SDead",
                "l": f"SLocal {a[0]} {'true' if len(a) > 1 and a[1] else 'false'} {'true' if len(a) > 2 and a[2] else 'false'}" if a else ""}[k]

    def cres(txt):
        steps = []
        for st in txt.split(";"):
            rr, u = st.split(":")
            steps.append(f"(({rr})%Z, [{'; '.join(x for x in u.split(',') if x and x != '255')}])")
        return "[" + "; ".join(steps) + "]"

    cases = []
    for k, (u, o) in enumerate(scripts):
        if impl[k] == "panic":
            ctx.violation("c02:pool:panic", "a register-pool function panicked", {"used": u, "ops": o})
            continue
        cases.append(f"[{'; '.join(map(str, u))}] [{'; '.join(cop(x) for x in o)}] {cres(impl[k])}")
    codes, err = vlib.coq_eval_codes("c02pool", "From Aelys Require Import Model.RegPool Model.RegPoolObs.\nOpen Scope nat_scope.", "pool_code", cases, shard=30)
    if err:
        ctx.broken.append("correspondence C02 (register pool): model evaluation failed")
        ctx.log(err[-2000:])
        return
    agree = 0
    for k, code in enumerate(codes):
        if code == 0:
            agree += 1
        else:
            u, o = scripts[k]
            ctx.broken.append(f"correspondence C02 (register pool): Model/RegPool.v and the compiler's pool functions differ on pool {u[:20]}.. ops {o} (implementation: {impl[k][:200]})")
            break
    ctx.cov["register_pool_tie"] = {"scripts": len(scripts), "agree": agree,
                                    "operations": dict(collections.Counter(x[0] for _, o in scripts for x in o))}
    ctx.cov["evaluations"] = ctx.cov.get("evaluations", 0) + len(scripts)
    ctx.log(f"register pool tie: {agree}/{len(scripts)} scripts agree")


def classify(prog, runs, lv):
    """Signature of a disagreement (root-cause specific where it can be recognised)."""
    if any(r[0] == "panic" for r in runs):
        return "c02:panic:" + runs[[r[0] for r in runs].index("panic")][3][:40]
    if 0 in lv:
        return "c02:O0-differs-from-evaluator"
    return "c02:optimised-level-differs:" + ",".join(map(str, lv))


def load_corpus(pid, names=False):
    d = os.path.join(vlib.VERIF, "corpus", pid)
    out, ns = [], []
    if os.path.isdir(d):
        for f in sorted(os.listdir(d)):
            if f.endswith(".aelys"):
                out.append(open(os.path.join(d, f)).read())
                ns.append(f[:-6])
    return (out, ns) if names else out
