"""C08 -- Saving and reloading compiled code preserves behaviour.
Proof (binary codec round trip, Model/Avbc.v) + contract tie (hx_avbc --mode codec) +
observational tie original / reloaded .avbc / reassembled .aasm (hx_avbc --mode run, CLI sample)."""
import collections, json, os, re, subprocess
import vlib
from props import c08_gen

TRUSTED = [
    "Coq 8.16.1 kernel + vm_compute (witnesses of the refuted statements, the non-vacuity Example, the tie's case evaluation)",
    "tools/extractors/c08.py transcribes MAGIC/VERSION/MAX_*/limit bindings/writer tags/reader tags/opcode numbers from "
    "bytecode/src/asm/binary.rs and checks write_function/read_function/read_program step by step against the shape "
    "Model/Avbc.v was written for (it fails when the shape changes)",
    "Model/Avbc.v is a hand model of write_function/read_function/write_constant/read_constant; tied on every run by hx_avbc: "
    "serialize bytes = model write, deserialize(serialize) = model normalize, deserialize(arbitrary bytes) = model read "
    "(result structure and error kind)",
    "the abstraction Function+Heap -> func used by the tie (harness/src/avbc_common.rs dump_func) resolves pointer constants "
    "through the heap the way write_constant does",
    "modelled, not verified: that normalize preserves behaviour (it does not: slot ids), the assembler/disassembler text format, "
    "the VM; these are explored by the observational tie only",
]
IMPORTS = "From Aelys Require Import Model.Value Model.Avbc Model.AvbcObs.\nOpen Scope N_scope."


def cli_build(ctx):
    """aelys-cli built from the current tree (own target dir per tree); returns path or None"""
    tag = vlib.repo_tag()
    target = os.path.join(vlib.CACHE, "target", tag + "-cli")
    with vlib.Lock("cargo-" + tag + "-cli"):
        rc, out = vlib.sh(["cargo", "build", "--offline", "-q", "-p", "aelys-cli"], cwd=vlib.REPO,
                          env={"CARGO_TARGET_DIR": target, "CARGO_NET_OFFLINE": "true", "RUSTFLAGS": "-Awarnings"}, timeout=2400)
    p = os.path.join(target, "debug", "aelys-cli")
    if rc != 0 or not os.path.exists(p):
        ctx.log("cli build failed:\n" + out[-2000:])
        return None
    return p


def workdir(ctx):
    d = os.path.join(vlib.CACHE, "c08", f"{vlib.repo_tag()}_{ctx.pid}_{ctx.tier}_{ctx.seed}")
    os.makedirs(d, exist_ok=True)
    return d


def programs(ctx, n):
    corpus = []
    cd = os.path.join(vlib.VERIF, "corpus", "C08")
    if os.path.isdir(cd):
        for fn in sorted(os.listdir(cd)):
            if fn.endswith(".aelys"):
                corpus.append(open(os.path.join(cd, fn), encoding="utf-8").read())
    return corpus, corpus + c08_gen.snippet_programs() + [c08_gen.gen_program(ctx.seed, i) for i in range(n)]


# ---------------------------------------------------------------------------------- codec tie
def codec_tie(ctx, prof, pfile, wd):
    quick = ctx.tier == "quick"
    ok, paths, log = vlib.harness_build(["hx_avbc"], profile=prof)
    if not ok:
        ctx.broken.append(f"harness build failed (hx_avbc, {prof})")
        ctx.log(log[-3000:])
        return
    cmd = [paths["hx_avbc"], "--mode", "codec", "--seed", str(ctx.seed), "--file", pfile, "--tmp", wd,
           "--compiled", "30" if quick else "120", "--hand", "250" if quick else "1500",
           "--mutants", "1500" if quick else "8000", "--raw", "100" if quick else "1000"]
    if not quick:
        cmd.append("--big-thorough")
    rc, out = vlib.sh(cmd, timeout=1200)
    if rc != 0:
        ctx.violation("hx_avbc-crash:codec", "codec harness crashed outside catch_unwind (abort / stack overflow in serialize or deserialize?)",
                      {"profile": prof, "cmd": " ".join(cmd), "output_tail": out[-1500:]})
        return
    dbg = "true" if prof == "dev" else "false"
    cases, kinds, sizes = [], collections.Counter(), {}
    sizes_hist = collections.Counter()
    distinct = set()
    for line in out.splitlines():
        t = line.split("\t")
        if t[0] == "Z":
            sizes[t[1]] = int(t[2])
        elif t[0] == "W":
            if t[2].startswith("ERR "):
                cases.append((f"QW {t[1]}", f"OWErr {t[2][4:]}"))
                kinds["write:refused"] += 1
                kinds["write-error:" + t[2][4:].strip("() ")] += 1
            else:
                cases.append((f"QW {t[1]}", f"OBytes (hx \"{t[2]}\")"))
                kinds["write"] += 1
            distinct.add(t[2])
        elif t[0] == "N":
            cases.append((f"QN {t[1]}", f"ORes ({t[2]})"))
            kinds["normalize"] += 1
            for ck in ("CNull", "CBool", "CInt", "CFloat", "CStr", "CFunc", "CPtr"):
                kinds["const:" + ck] += t[1].count(ck + " ") + t[1].count(ck + ";") + t[1].count(ck + "]")
            kinds["nesting:" + str(min(3, max(0, t[1].count("(Func") - 1)))] += 1
        elif t[0] == "R":
            cases.append((f"QR {dbg} (hx \"{t[1]}\")", f"ORes ({t[2]})"))
            kinds["read:" + ("accept" if t[2].startswith("ROk") else "crash" if t[2].startswith("RCrash") else "reject")] += 1
            if t[2].startswith("RErr"):
                kinds["read-error:" + t[2][5:].strip("() ")] += 1
            sizes_hist[min(len(t[1]) // 2 // 64, 20)] += 1
            kinds["mut:" + t[3]] += 1
            distinct.add(t[1])
            if t[2].startswith("RCrash"):
                # a panic inside deserialize: the model predicts it (Value::ptr debug_assert) or not; either way C07's business,
                # here it only has to agree with the model
                pass
        elif t[0] == "B":
            cases.append((f"QB {dbg} {t[1]} {t[2]}", f"OBig {t[3]} {t[4]} {t[5]} {t[6]}"))
            kinds["big"] += 1
            ctx.cov.setdefault("big_table_cases", {})[f"kind{t[1]}:n={t[2]}"] = t[6]
        elif t[0] == "D":
            sig = "codec:" + t[1].split(":")[0]
            ctx.violation(sig, f"direct oracle on the implementation: {t[1]} for a hand-built / compiled Function",
                          {"profile": prof, "function": t[2][:4000], "oracle": t[1]})
    want = {"Value": 8, "u32": 4, "Function": 256, "UpvalueDescriptor": 2, "Line": 8, "String": 24}
    for k, v in want.items():
        if sizes.get(k, 10 ** 9) > v:
            ctx.broken.append(f"tie: size_of::<{k}>() = {sizes.get(k)} exceeds the model's nominal {v} (read_alloc_bounded constants)")
    ctx.cov["element_sizes"] = sizes
    fails, err = vlib.coq_eval_cases("c08" + prof, IMPORTS, "run", "obs_eqb", cases, shard=250, timeout=1200)
    if err:
        ctx.broken.append(f"correspondence C08 ({prof}): model evaluation failed")
        ctx.log(err[-3000:])
    if fails:
        ctx.broken.append(f"correspondence C08 ({prof}): model and binary.rs differ on {len(fails)} of {len(cases)} cases")
        bad = [cases[i] for i in fails[:4]]
        mo, _ = vlib.coq_eval_terms("c08", IMPORTS, [f"run ({q[:20000]})" for q, _ in bad if len(q) < 20000])
        ctx.cov["disagreements"] = [{"query": q[:3000], "implementation": o[:3000], "model": (m or "")[:3000]}
                                    for (q, o), m in zip(bad, mo + [None] * 4)]
        for q, o in bad[:2]:
            ctx.violation("codec:model-mismatch:" + q.split()[0], "binary.rs and Model/Avbc.v disagree (the code changed, or the model is wrong)",
                          {"profile": prof, "query": q[:6000], "implementation": o[:6000]}, no_input=False)
    ctx.cov["evaluations"] += len(cases)
    ctx.cov["distinct_nontrivial"] += len(distinct)
    ctx.cov.setdefault("codec_case_kinds", {})[prof] = dict(kinds)
    ctx.cov.setdefault("mutant_size_histogram_64B_buckets", {})[prof] = {str(k * 64): v for k, v in sorted(sizes_hist.items())}
    ctx.add_samples([{"query": q[:600], "observed": o[:600]} for q, o in cases[:1] + cases[len(cases) // 2: len(cases) // 2 + 1]])


# ---------------------------------------------------------------------------------- assembly text, instruction level
AASM_IMPORTS = ("From Coq Require Import String.\nFrom Aelys Require Import Model.Avbc Model.AasmTypes Extracted.AasmTable Model.Aasm.\nOpen Scope N_scope.\n"
                "Definition aobs_eqb (a b : string * option (list N)) : bool := String.eqb (fst a) (fst b) && "
                "match snd a, snd b with Some x, Some y => list_eqbN x y | None, None => true | _, _ => false end.\n"
                "Definition text_eqb (a b : string * option (list N)) : bool := String.eqb (fst a) (fst b).")


def aasm_instr_tie(ctx, prof, model=True):
    """every opcode byte 0..255 x fixed + random operand bytes: the real disassembly line must be the model's
    rendering and the real reassembly must be the model's (jumps: text only, labels are resolved per function)"""
    ok, paths, log = vlib.harness_build(["hx_avbc"], profile=prof)
    if not ok:
        return
    rc, out = vlib.sh([paths["hx_avbc"], "--mode", "aasm", "--seed", str(ctx.seed), "--per-op", "3" if ctx.tier == "quick" else "40"], timeout=600)
    if rc != 0:
        ctx.violation("hx_avbc-crash:aasm", "disassemble/assemble of a single instruction crashed the harness", {"output_tail": out[-1500:]})
        return
    full, text_only, strs, trees = [], [], [], []
    for line in out.splitlines():
        t = line.split("\t")
        if t[0] == "S" and len(t) >= 4:
            lst = lambda x: "[" + "; ".join(x.split(";")) + "]" if x else "[]"
            back = "None" if t[3] in ("ERR", "NONE") else f"(Some {lst(t[3])})"
            strs.append((lst(t[1]), f"({lst(t[2])}, {back})"))
            continue
        if t[0] == "T" and len(t) >= 3:
            if t[2] == "PANIC":
                ctx.violation("aasm:rebuild-panics", "assemble panicked while rebuilding the function tree", {"items": t[1]})
            else:
                trees.append((f"[{t[1]}]", t[2]))
            continue
        if t[0] != "A" or len(t) < 4:
            continue
        w, txt, re_ = t[1], t[2], t[3]
        if re_ == "PANIC":
            ctx.violation("aasm:assemble-panics", "assemble panicked on the disassembly of one instruction", {"word": w, "text": txt})
            continue
        if txt.startswith(".word"):
            txt = ".word"
        # an oracle that needs no model: the text of an instruction must assemble to the same opcode
        if re_ != "ERR" and txt != ".word" and (int(re_.split(";")[0]) >> 24) != (int(w) >> 24):
            ctx.violation("aasm:opcode-changes-in-round-trip", f"`{txt}` (opcode {int(w) >> 24}) assembles to opcode {int(re_.split(';')[0]) >> 24}",
                          {"word": int(w), "text": txt, "reassembled": re_})
        obs_re = "(@None (list N))" if re_ == "ERR" else "(Some [" + "; ".join(re_.split(";")) + "])"
        q = (w, f"(\"{txt}\"%string, {obs_re})")
        (text_only if txt.startswith("Jump") else full).append(q)
    ctx.cov["aasm_instruction_cases"] = {"words": len(full) + len(text_only), "jumps_text_only": len(text_only),
                                         "not_opcodes": sum(1 for _, o in full if ".word" in o)}
    if not model:
        return            # the models do not build (reported as broken): only the model-free oracle above ran
    for cases, eqb, what in ((full, "aobs_eqb", "text+reassembly"), (text_only, "text_eqb", "text")):
        fails, err = vlib.coq_eval_cases("c08a" + prof, AASM_IMPORTS, "(fun w => (render_line w, reassemble w))", eqb, cases, shard=400, timeout=600)
        if err:
            ctx.broken.append("correspondence C08 (aasm instruction table): model evaluation failed")
            ctx.log(err[-2000:])
        for k in fails[:3]:
            w, o = cases[k]
            mo, _ = vlib.coq_eval_terms("c08a", AASM_IMPORTS, [f"(render_line {w}, reassemble {w})"])
            ctx.violation("aasm:instruction-table-mismatch", f"disassembler/assembler and the table model disagree on one instruction ({what})",
                          {"word": int(w), "implementation": o, "model": mo[0] if mo else None})
        if fails:
            ctx.broken.append(f"correspondence C08 (aasm instruction, {what}): {len(fails)} of {len(cases)} words differ")
    # string literals: escape_string's text and the name read back by the assembler
    simp = ("From Aelys Require Import Model.Avbc Extracted.AasmEscapes Model.AasmStr.\nOpen Scope N_scope.\n"
            "Definition sobs_eqb (a b : list N * option (list N)) : bool := list_eqbN (fst a) (fst b) && "
            "match snd a, snd b with Some x, Some y => list_eqbN x y | None, None => true | _, _ => false end.")
    fails, err = vlib.coq_eval_cases("c08s" + prof, simp,
                                     "(fun s => (escape s, match unescape (escape s ++ [QUOTE]) with Some (x, _) => Some x | None => None end))",
                                     "sobs_eqb", strs, shard=400, timeout=600)
    if err:
        ctx.broken.append("correspondence C08 (aasm string literals): model evaluation failed")
        ctx.log(err[-2000:])
    for k in fails[:3]:
        ctx.violation("aasm:string-literal-mismatch", "escape_string / read_string and the model disagree on a string",
                      {"code_points": strs[k][0], "implementation(text, read back)": strs[k][1]})
    if fails:
        ctx.broken.append(f"correspondence C08 (aasm string literals): {len(fails)} of {len(strs)} strings differ")
    # `.nested` counts -> tree: real assemble vs Model/AasmTree.v rebuild (consistent counts, arbitrary counts, chains up to 80)
    timp = "From Aelys Require Import Model.AasmTree.\nOpen Scope N_scope."
    fails, err = vlib.coq_eval_cases("c08t" + prof, timp, "(fun items => rebuild items)", "rebuilt_eqb", trees, shard=300, timeout=600)
    if err:
        ctx.broken.append("correspondence C08 (aasm tree rebuild): model evaluation failed")
        ctx.log(err[-2000:])
    for k in fails[:3]:
        mo, _ = vlib.coq_eval_terms("c08t", timp, [f"rebuild {trees[k][0]}"])
        ctx.violation("aasm:tree-rebuild-mismatch", "rebuild_hierarchy and Model/AasmTree.v disagree",
                      {"items": trees[k][0], "implementation": trees[k][1], "model": mo[0] if mo else None})
    if fails:
        ctx.broken.append(f"correspondence C08 (aasm tree rebuild): {len(fails)} of {len(trees)} item lists differ")
    ctx.cov["aasm_instruction_cases"]["trees"] = len(trees)
    ctx.cov["aasm_instruction_cases"]["strings"] = len(strs)
    ctx.cov["evaluations"] += len(full) + len(text_only) + len(strs)
    ctx.cov["distinct_nontrivial"] += len(full) + len(text_only) + len(strs)


# ---------------------------------------------------------------------------------- observational tie
def alias_missing(prog, detail):
    """open finding KF-C08-2: a *script* module imported under an alias (std modules were repaired by 5e6a7be)"""
    m = re.search(r"needs\s+(?!std\.)[\w.]+\s+as\s+(\w+)", prog)
    return bool(m) and ("module not found: '%s'" % m.group(1)) in detail


def classify_aasm(o, a, fixed_by_slots, info, prog):
    """The only open root cause left is the module alias; the former classes (named func constant,
    float text, StoreMemI operands, missing mnemonics, flattened hierarchy, slot ids) were repaired
    in /repo and a recurrence must surface as an unclassified difference."""
    d = a[3]
    if a[0] == "load-error:module" and alias_missing(prog, d):
        return "aasm:module-alias-not-resolvable"
    return f"aasm:behaviour-differs:{o[0]}->{a[0]}"


def observational(ctx, prof, pfile, progs, wd, ncorpus):
    ok, paths, log = vlib.harness_build(["hx_avbc"], profile=prof)
    if not ok:
        ctx.broken.append(f"harness build failed (hx_avbc, {prof})")
        return {}
    cmd = [paths["hx_avbc"], "--mode", "run", "--file", pfile, "--tmp", wd, "--opts", "0,2" if ctx.tier == "quick" else "0,1,2,3"]
    rc, out = vlib.sh(cmd, timeout=2400)
    if rc != 0:
        ctx.violation("hx_avbc-crash:run", "observational harness crashed outside catch_unwind",
                      {"profile": prof, "cmd": " ".join(cmd), "output_tail": out[-1500:]})
        return {}
    rows, info = collections.defaultdict(dict), {}
    for line in out.splitlines():
        t = line.split("\t")
        if t[0] == "O":
            t += [""] * (9 - len(t))
            rows[(int(t[1]), int(t[2]), t[3])][t[4]] = (t[5], t[6], t[7], t[8])
        elif t[0] == "I":
            info[(int(t[1]), int(t[2]), t[3])] = t[4:]
    stats = collections.Counter()
    opcodes, sigs = set(), collections.Counter()
    clean = {}
    seen = set()
    for key in sorted(rows):
        i, opt, strip = key
        v = rows[key]
        if "orig" not in v:
            stats["compile-error"] += 1
            continue
        inf = info.get(key, ["0", "0", "0", "0", ""])
        opcodes.update(x for x in inf[4].split(",") if x)
        o = v["orig"][:3]
        stats["configs"] += 1
        stats["orig:" + v["orig"][0]] += 1
        seen.add((i, o))
        ok_all = True
        rep = {"program": progs[i], "opt": opt, "strip_debug_info": strip, "profile": prof, "original": v["orig"]}

        def report(sig, what, extra):
            sigs[sig] += 1
            r = dict(rep)
            r.update(extra)
            if sigs[sig] <= 2 or i < ncorpus:
                ctx.violation(sig, what, r)
        a = v.get("avbc")
        if a and a[:3] != o:
            ok_all = False
            if a[0] == "load-error:module" and alias_missing(progs[i], a[3]):
                sig = "avbc:module-alias-not-resolvable"
            else:
                sig = f"avbc:behaviour-differs:{o[0]}->{a[0]}"
            report(sig, "reloaded .avbc behaves differently from the original compiled program", {"reloaded": a, "with_slot_ids_restored": v.get("avbc+slots")})
        if a and a[:3] == o:
            stats["avbc:same"] += 1
        if v.get("aasm") and v["aasm"][:3] == o:
            stats["aasm:same"] += 1
        if strip == "names":
            u = rows.get((i, opt, "false"), {}).get("orig")
            if u and u[:3] != o:
                ok_all = False
                report("strip-function-names:behaviour-differs", "removing only the function names (used for messages) changes what the program does", {"unstripped": u})
        s = v.get("aasm")
        if s and s[:3] != o:
            ok_all = False
            sig = classify_aasm(o, s, "aasm+slots" in v and v["aasm+slots"][:3] == o, inf, progs[i])
            report(sig, "assemble(disassemble(program)) behaves differently from the original compiled program",
                   {"reassembled": s, "with_slot_ids_restored": v.get("aasm+slots")})
        # stripping debug info is part of `aelys compile -O1..3`
        if strip == "true":
            u = rows.get((i, opt, "false"), {}).get("orig")
            if u and u[:3] != o:
                ok_all = False
                report("strip-debug-info:behaviour-differs", "strip_debug_info (applied by `aelys compile` above -O0) changes what the compiled program does, before any saving",
                       {"unstripped": u})
        clean[key] = ok_all
    ctx.cov["evaluations"] += stats["configs"] * 3
    ctx.cov["distinct_nontrivial"] += len(seen)
    ctx.cov.setdefault("observational", {})[prof] = {
        "stats": dict(stats), "signatures": dict(sigs), "opcodes_seen": sorted(int(x) for x in opcodes),
        "programs": len(progs)}
    return clean


# The in-process observational tie REPLICATES the CLI's load sequence (harness/Cargo.toml.in does not link the cli
# crate).  These are the functions it was copied from, with the hash of their (comment- and blank-normalised)
# bodies at the time of copying.  When one of them changes, the replication can no longer be trusted to behave
# like the CLI: that is not an alarm (a refactor is allowed), but from then on EVERY program goes through the
# real CLI binary as well, so that the change is judged by its behaviour.
REPLICATED = {
    "cli/src/cli/commands/run.rs": {
        "collect_required_modules": "3fec969dc431", "collect_required_modules_rec": "12a4c18afac7",
        "load_required_modules": "d0c8dab1f6cf", "try_load_std_module": "c650a6347edd",
        "run_avbc_file": "53113afd2206", "run_aasm_file": "a296cc3f32ae", "reconstruct_function_hierarchy": "9553f3918c50"},
}


def load_sequence_drift(ctx):
    import hashlib
    import extract
    from extractors import c08 as ex
    drift = []
    for rel, fns in REPLICATED.items():
        try:
            text = extract.strip_comments(extract.rd(rel))
        except extract.ExtractError as e:
            drift.append(f"{rel}: {e}")
            continue
        for fn, want in fns.items():
            try:
                got = hashlib.sha1(" ".join(ex.fn_body(text, fn).split()).encode()).hexdigest()[:12]
            except extract.ExtractError:
                got = None
            if got != want:
                drift.append(f"{rel}: fn {fn} " + ("is gone" if got is None else "changed"))
        # the walk over the function tree must reach every nesting level
        try:
            rec = ex.fn_body(text, "collect_required_modules_rec")
            if "nested_functions" not in rec or "collect_required_modules_rec(" not in rec:
                drift.append(f"{rel}: collect_required_modules_rec no longer recurses over nested_functions")
        except extract.ExtractError:
            pass
    ctx.cov["cli_load_sequence_drift"] = drift
    if drift:
        ctx.log("cli load sequence differs from what the harness replicates: every program also goes through the CLI binary: " + "; ".join(drift)[:300])
    return drift


def cli_sample(ctx, progs, clean, wd, limit):
    cli = cli_build(ctx)
    if not cli:
        ctx.broken.append("cli: aelys-cli does not build from the current tree")
        return
    n = 0
    res = collections.Counter()
    # programs that need a module the VM does not register by itself first: re-linking them is CLI code
    order = sorted(range(len(progs)), key=lambda i: (0 if re.search(r"needs std\.(sys|bytes|fs|net)", progs[i]) else 1, i))
    for i in order:
        p = progs[i]
        if n >= limit:
            break
        for opt in (0, 2):
            strip = "false" if opt == 0 else "true"
            if not (clean.get((i, opt, strip)) and clean.get((i, opt, "false"))):
                continue
            src = os.path.join(wd, f"cli_{i}.aelys")
            open(src, "w", encoding="utf-8").write(p)
            avbc, aasm = src[:-6] + f"_{opt}.avbc", src[:-6] + f"_{opt}.aasm"

            def run(args):
                try:
                    q = subprocess.run([cli] + args, stdout=subprocess.PIPE, stderr=subprocess.PIPE, timeout=60, cwd=wd)
                    return q.returncode, q.stdout.decode("utf-8", "replace")
                except subprocess.TimeoutExpired:
                    return 124, ""
            base = run(["run", f"-O{opt}", src])
            c = run(["compile", f"-O{opt}", src, "-o", avbc])
            if c[0] != 0:
                res["compile-failed"] += 1
                continue
            r1 = run(["run", avbc])
            d = run(["asm", avbc, "-o", aasm])
            r2 = run(["run", aasm]) if d[0] == 0 else (d[0], "")
            n += 1
            res["compared"] += 1
            for route, r in (("avbc", r1), ("aasm", r2)):
                if r != base:
                    ctx.violation(f"cli:{route}:differs-from-run-source",
                                  f"`aelys compile -O{opt}` then `aelys run` of the .{route} differs from `aelys run -O{opt}` of the source although the in-process routes agree",
                                  {"program": p, "opt": opt, "run_source": base, route: r})
    ctx.cov["cli_sample"] = dict(res)
    ctx.cov["evaluations"] += 3 * res["compared"]


def project_layouts():
    """generated multi-file projects: (name, files, entry, cwd) - where the modules live relative to the entry file,
    how they are named in `needs`, and from where the CLI is started. The saved program must find them again."""
    io = "needs std.io\n"
    inc = "pub fn inc(x) { return x + 1 }\n"
    L = []
    def add(name, files, entry="main.aelys", cwd="."):
        L.append((name, files, entry, cwd))
    add("flat-module", {"main.aelys": io + "needs helpers\nio.println(helpers.inc(41))\n", "helpers.aelys": inc})
    add("nested-import", {"main.aelys": io + "needs utils.helpers\nio.println(helpers.inc(41))\n", "utils/helpers.aelys": inc})
    add("nested-import-depth3", {"main.aelys": io + "needs a.b.c\nio.println(c.inc(41))\n", "a/b/c.aelys": inc})
    add("nested-import-in-function", {"main.aelys": io + "needs utils.helpers\nfn go(n) { return helpers.inc(n) }\nio.println(go(41))\n", "utils/helpers.aelys": inc})
    add("nested-import-alias", {"main.aelys": io + "needs utils.helpers as h\nio.println(h.inc(41))\n", "utils/helpers.aelys": inc})
    add("nested-import-symbol", {"main.aelys": io + "needs inc from utils.helpers\nio.println(inc(41))\n", "utils/helpers.aelys": inc})
    add("flat-import-symbol", {"main.aelys": io + "needs inc from helpers\nio.println(inc(41))\n", "helpers.aelys": inc})
    add("std-import-symbol", {"main.aelys": io + "needs sqrt, pow from std.math\nio.println(sqrt(pow(2.0, 4.0)))\n"})
    add("nested-two-modules", {"main.aelys": io + "needs utils.helpers\nneeds utils.more\nio.println(helpers.inc(more.dec(42)))\n",
                               "utils/helpers.aelys": inc, "utils/more.aelys": "pub fn dec(x) { return x - 1 }\n"})
    add("directory-module", {"main.aelys": io + "needs utils\nio.println(utils.inc(41))\n", "utils/mod.aelys": inc})
    add("module-needs-nested", {"main.aelys": io + "needs lib\nio.println(lib.go(41))\n", "lib.aelys": "needs sub.deep\npub fn go(n) { return deep.inc(n) }\n", "sub/deep.aelys": inc})
    add("nested-module-needs-sibling", {"main.aelys": io + "needs utils.helpers\nio.println(helpers.inc2(40))\n",
                                        "utils/helpers.aelys": "needs utils.base\npub fn inc2(x) { return base.inc(base.inc(x)) }\n", "utils/base.aelys": inc})
    # the same flat project started from elsewhere: the entry path has a directory component / is absolute
    flat = {"proj/main.aelys": io + "needs helpers\nio.println(helpers.inc(41))\n", "proj/helpers.aelys": inc}
    add("entry-in-subdirectory", flat, "proj/main.aelys")
    add("entry-dot-slash", {"main.aelys": flat["proj/main.aelys"], "helpers.aelys": inc}, "./main.aelys")
    add("entry-dotdot", dict(flat, **{"other/.keep": ""}), "../proj/main.aelys", "other")
    add("entry-absolute", flat, "{abs}/proj/main.aelys")
    add("entry-through-symlinked-directory", dict(flat, **{"lnk": "->proj"}), "lnk/main.aelys")
    add("entry-absolute-through-symlink", dict(flat, **{"lnk": "->proj"}), "{abs}/lnk/main.aelys")
    add("entry-in-deeper-subdirectory", {"a/b/main.aelys": flat["proj/main.aelys"], "a/b/helpers.aelys": inc}, "a/b/main.aelys")
    add("entry-subdirectory-directory-module", {"proj/main.aelys": io + "needs utils\nio.println(utils.inc(41))\n", "proj/utils/mod.aelys": inc}, "proj/main.aelys")
    add("entry-in-subdirectory-nested-import", {"proj/main.aelys": io + "needs utils.helpers\nio.println(helpers.inc(41))\n", "proj/utils/helpers.aelys": inc}, "proj/main.aelys")
    # names the VM registers on its own: no `needs` at all
    add("builtin-print", {"main.aelys": "fn sq(x) { return x * x }\nprint(sq(7))\n"})
    add("builtin-print-and-module", {"main.aelys": "needs helpers\nprint(helpers.inc(41))\n", "helpers.aelys": inc})
    # function values are printable: the name is part of the observable value at every level
    add("fn-name-printed", {"main.aelys": io + "fn show() { return 1 }\nio.println(show)\n"})
    add("fn-name-lambda", {"main.aelys": io + "let l = fn() { return 2 }\nio.println(l)\n"})
    add("fn-name-interpolated", {"main.aelys": io + "fn show() { return 1 }\nio.println(\"{show} and {show}\")\n"})
    add("fn-name-nested", {"main.aelys": io + "fn outer() {\n  fn inner() { return 1 }\n  return inner\n}\nio.println(outer())\nio.println(outer)\n"})
    add("fn-name-closure", {"main.aelys": io + "fn make(n) {\n  return fn() { return n }\n}\nlet c = make(3)\nio.println(c)\nio.println(make)\n"})
    add("fn-name-in-collection", {"main.aelys": io + "fn a() { return 1 }\nfn b() { return 2 }\nio.println([a, b])\nlet v = Vec[a]\nio.println(v)\n"})
    add("fn-name-to-string", {"main.aelys": io + "fn show() { return 1 }\nlet s = \"{show}\"\nio.println(s.len())\n"})
    add("fn-name-from-module", {"main.aelys": io + "needs helpers\nio.println(helpers.inc)\n", "helpers.aelys": inc})
    add("fn-name-builtin-print", {"main.aelys": "fn show() { return 1 }\nprint(show)\n"})
    # a run-time error: kind, message and position of the report
    add("runtime-error-in-function", {"main.aelys": io + "fn d(a, b) {\n    return a / b\n}\nio.println(d(1, 0))\n"})
    add("runtime-error-in-module", {"main.aelys": io + "needs helpers\nio.println(helpers.d(1, 0))\n", "helpers.aelys": "pub fn d(a, b) {\n    return a / b\n}\n"})
    return L


def report_lines(stderr, entry_stem):
    """the parts of a run-time report that do not depend on having the source text: error line, position, stack frames"""
    out = []
    for l in stderr.splitlines():
        t = l.strip()
        if t.startswith(("Error:", "error", "-->")) or re.match(r"^\S.* \(\S+:\d+\)$", t):
            out.append(re.sub(re.escape(entry_stem) + r"\d?\.(avbc|aasm|aelys)", entry_stem + ".*", t))
    return out


def multi_file_cases(ctx, wd):
    """multi-file programs through the CLI: `run source` vs `compile` + `run file.avbc` and `asm` + `run file.aasm`;
    corpus/C08/<dir>/main.aelys projects and the generated layouts of project_layouts()"""
    cli = cli_build(ctx)
    cd = os.path.join(vlib.VERIF, "corpus", "C08")
    if not cli:
        return
    import shutil
    projects = []
    for name in sorted(os.listdir(cd)) if os.path.isdir(cd) else []:
        src = os.path.join(cd, name)
        if os.path.isdir(src) and os.path.exists(os.path.join(src, "main.aelys")):
            files = {}
            for root, _, fs in os.walk(src):
                for f in fs:
                    q = os.path.join(root, f)
                    files[os.path.relpath(q, src)] = open(q, encoding="utf-8").read()
            projects.append(("corpus-" + name, files, "main.aelys", "."))
    projects += project_layouts()
    stats = collections.Counter()
    found = {}
    for name, files, entry, cwd in projects:
        dst = os.path.join(wd, "mf_" + name)
        shutil.rmtree(dst, ignore_errors=True)
        for rel, text in files.items():
            os.makedirs(os.path.dirname(os.path.join(dst, rel)) or dst, exist_ok=True)
            if text.startswith("->"):
                os.symlink(text[2:], os.path.join(dst, rel))
                continue
            open(os.path.join(dst, rel), "w", encoding="utf-8").write(text)
        entry = entry.replace("{abs}", dst)
        stem = entry[:-len(".aelys")]
        prog = files.get(os.path.normpath(os.path.join(cwd, entry)) if not os.path.isabs(entry) else os.path.relpath(entry, dst), "")

        def run(args):
            q = subprocess.run([cli] + args, stdout=subprocess.PIPE, stderr=subprocess.PIPE, timeout=60, cwd=os.path.join(dst, cwd))
            return q.returncode, q.stdout.decode("utf-8", "replace"), q.stderr.decode("utf-8", "replace")
        prog = prog or next((t for r_, t in files.items() if r_.endswith("main.aelys")), "")
        for opt in ((0, 1, 2, 3) if name.startswith("fn-name-") or name == "corpus-function_names" else (0, 2)):
            base = run(["run", f"-O{opt}", entry])
            for route, make, saved in (("avbc", ["compile", f"-O{opt}", entry, "-o", f"{stem}{opt}.avbc"], f"{stem}{opt}.avbc"),
                                       ("aasm", ["asm", f"-O{opt}", entry, "-o", f"{stem}{opt}.aasm"], f"{stem}{opt}.aasm")):
                c = run(make)
                r = run(["run", saved]) if c[0] == 0 else c
                ctx.cov["evaluations"] += 2
                stats[route] += 1
                sig = None
                miss = re.search(r"module not found: '([\w.]+)'", r[2])
                if c[0] != 0 and base[0] == 0:
                    code = re.search(r"error\[(E\d+)\]", c[2])
                    sig = f"cli:{route}:cannot-save-a-program-that-runs:{code.group(1) if code else 'error'}"
                elif r[:2] != base[:2]:
                    if alias_missing(prog, r[2]):
                        sig = f"{route}:module-alias-not-resolvable"
                    elif route == "aasm" and (os.path.basename(entry) + ".toml") in files:
                        # assembly text carries no manifest, and a per-file manifest is named after the ENTRY file: the saved
                        # .aasm (whatever it is called) is run without the policies `<entry>.toml` declares (KF-C08-12)
                        sig = "aasm:per-file-manifest-not-carried"
                    elif (lm := re.search(r"^\s*needs\s+(math|io|string|fs|net|sys|time|bytes|convert)\b(?!\.)", prog, flags=re.M)) and (lm.group(1) + ".aelys") in files:
                        # `needs math` with a math.aelys next to the entry file: the saved program only says `math::..`,
                        # and the bytecode route tries std.<name> before a script module of that name
                        sig = f"{route}:local-module-shadowed-by-std"
                    elif miss and re.search(r"needs\s+(?:\w+\s*(?:,\s*\w+\s*)*from\s+)?(?!std\.)(\w+\.)+" + re.escape(miss.group(1)) + r"\b", "\n".join(files.values())):
                        sig = f"{route}:module-path-not-resolvable"       # `needs utils.helpers`: the saved program asks for `helpers`
                    elif (u := re.search(r"undefined variable '(\w+)", r[2])) and re.search(r"needs\s+[\w\s,]*\b" + re.escape(u.group(1)) + r"\b[\w\s,]*\sfrom\s+(?!std\.)", prog):
                        sig = f"{route}:symbol-import-not-resolvable"     # `needs inc from helpers`: the saved global is just `inc`
                    else:
                        sig = (f"{route}:function-name-lost" if (name.startswith("fn-name-") or name == "corpus-function_names") else
                               f"cli:{route}:multi-file-differs:" + ("entry-path-form" if name.startswith("entry-") else name))
                elif base[0] != 0 and opt == 0 and report_lines(r[2], os.path.basename(stem)) != report_lines(base[2], os.path.basename(stem)):
                    # -O0 keeps the line table in .avbc (higher levels strip it on purpose)
                    sig = f"{route}:error-position-differs"
                if sig:
                    found.setdefault(sig, []).append(f"{name}@O{opt}")
                    ctx.violation(sig, f"a program behaves differently after `aelys {make[0]}` + `aelys run file.{route}` (layout `{name}`)",
                                  {"case": name, "opt": opt, "files": files, "entry": entry, "cwd": cwd, "make": make, "run_source": base, "saved_then_run": r,
                                   "report_source": report_lines(base[2], os.path.basename(stem)), "report_saved": report_lines(r[2], os.path.basename(stem))})
    ctx.cov["multi_file_projects"] = {"projects": len(projects), "routes": dict(stats), "layouts": [p[0] for p in projects], "differences": found}


def run(ctx):
    ctx.level = "proof"
    ctx.cov["trusted_base"] = TRUSTED
    ctx.assumptions = [
        "the codec model is the code: checked by the contract tie on compiler outputs, hand-built Functions, byte mutants and table sizes at the limits",
        "the theorems carry the codec half only; behaviour preservation of the saved program and the assembly-text route are explored, not proved",
    ]
    proved = ctx.prove("C08", extracted=["AvbcLayout", "ValueConsts", "AasmTable", "AasmEscapes"])
    try:
        import json as _json
        w = _json.load(open(os.path.join(vlib.COQ, "Extracted", "AvbcLayout.warnings.json")))
    except Exception:
        w = []
    ctx.cov["translator_shape_warnings"] = w      # code written differently from what the model's author read; the ties decide
    if w:
        ctx.log("translator: shape drift (not an alarm): " + "; ".join(w)[:300])
    if ctx.tier == "thorough" and proved:
        ctx.coqchk("C08")
    ctx.cov["refuted_lemmas"] = []
    ok, out = vlib.coq_make(["Base/CaseCheck.vo", "Model/AvbcObs.vo", "Model/Aasm.vo", "Model/AasmStr.vo", "Model/AasmTree.vo"])
    wd = workdir(ctx)
    quick = ctx.tier == "quick"
    corpus, progs = programs(ctx, 30 if quick else 300)
    pfile = os.path.join(wd, "progs.txt")
    open(pfile, "w", encoding="utf-8").write("\n=====\n".join(progs))
    profiles = ["dev"] if quick else ["dev", "release"]
    clean = {}
    for prof in profiles:
        if ok:
            ctx.log(f"codec tie ({prof})")
            codec_tie(ctx, prof, pfile, wd)
            aasm_instr_tie(ctx, prof)
        else:
            aasm_instr_tie(ctx, prof, model=False)
        ctx.log(f"observational tie ({prof}), {len(progs)} programs")
        c = observational(ctx, prof, pfile, progs, wd, len(corpus))
        if prof == "dev":
            clean = c
    if not ok:
        ctx.broken.append("coq: Model/AvbcObs.vo does not build (tie cannot be evaluated)")
        ctx.log(out[-2000:])
    multi_file_cases(ctx, wd)
    ctx.log("cli sample")
    drift = load_sequence_drift(ctx)
    cli_sample(ctx, progs, clean, wd, 10 ** 6 if drift else (30 if quick else 150))
    ctx.cov["input_distribution"] = (
        "codec: Functions compiled from the program stream at (-O0, -O2, -O2 stripped), seeded hand-built Functions (0-3 levels of "
        "nesting, all 7 constant kinds incl. dangling and aliasing pointers, opcodes 77/78/104 with random cache words, call opcode as "
        "last word, empty/Unicode names), 12 byte-mutation operators + random bytes after a valid header + raw bytes through the "
        "reader, table sizes at limit and limit+1 with real content; observational: corpus/C08 first, one program per feature snippet "
        "(22 families: int/float arithmetic, strings/interpolation, global calls in loops, closures, nested closures, recursion, loops, "
        "arrays/vecs, bitwise, short-circuit, @no_gc memory, 5-320 globals, higher-order, nested fn 3 deep, mutable params, "
        "if/else, 48-bit ints, @inline, typed, upvalue calls, runtime errors) then seeded random combinations, each at -O0/-O2 x "
        "with/without debug info, through original / .avbc / .aasm")
    ctx.cov["rule"] = ("a codec case is distinct by its byte string; an observational case is distinct by (program, original outcome); "
                       "non-trivial = at least one instruction beyond the header was produced / the program printed or returned something")
    ctx.notes.append("theorems carry: read(write f) = normalize f for all functions within the format's sizes; "
                     "tie explores: behaviour of original vs reloaded vs reassembled")
