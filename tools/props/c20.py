"""C20 -- String lengths, indexing and iteration agree on characters.
Proof (Props/C20.v over Model/Utf8.v) + contract tie (hx_utf8: Rust std primitives, and generated
Aelys programs at -O0..-O3) + direct property oracle on the programs' own outputs."""
import json, os, re
import vlib

TRUSTED = [
    "Coq 8.16.1 kernel (+ vm_compute only in the non-vacuity Example)",
    "Model/Utf8Natives.v is a hand model of string::char_at / substr / chars / split(\"\") / reverse / pad_left / pad_right / "
    "repeat / concat / byte_at (runtime/src/stdlib/string.rs), tied on every run by a natives program per generated string at "
    "-O0..-O3 (method and qualified call syntax); capacity errors of repeat / pad are not modelled",
    "Model/Utf8.v is a hand model of the StringForLoop arm (control_flow.inc op 177), the StringLoadChar arm "
    "(arrays.inc op 176), string::len / VecLen-on-string (byte length) and string::char_len; "
    "tied on every run by hx_utf8 running generated programs through the real pipeline at -O0..-O3",
    "Rust std: char::encode_utf8, char::len_utf8, str::chars (next / nth / count) are modelled arithmetically "
    "(x & 0x1F as x mod 32, (a << 6) | (b & 0x3F) as a*64 + b mod 64); tied by the S cases: boundary + random "
    "scalars, valid strings, and a complete checksum sweep over all 1,112,064 scalar values",
    "every string object holds valid UTF-8 (AelysString::as_str is from_utf8_unchecked): strings are quantified "
    "as encodings of scalar lists; a byte string that is not valid UTF-8 (AelysString::from_bytes from a crafted "
    ".avbc) is outside the theorems",
    "byte offsets / lengths below 2^47 (the for-loop's offset register is a 48-bit VM int)",
    "the compiler selects StringForLoop / StringLoadChar / string::len for an expression it types as string and the "
    "polymorphic VecForLoop / VecLoadP / VecLen otherwise; both selections are modelled (and proved equal on strings), "
    "which one a program gets is covered only by the program-level tie",
]

IMPORTS = "From Aelys Require Import Model.Utf8 Model.Utf8Obs."


def zlist(nums):
    return "[" + "; ".join(("(%s)" % t if t.startswith("-") else t) for t in nums) + "]%Z"


def coq_query(q):
    t = q.split(None, 1)
    if t[0] == "QEnc":
        return f"QEnc {t[1]}%N"
    if t[0] == "QSum":
        a, b = t[1].split()
        return f"QSum {a}%N {b}%N"
    if t[0] == "QProg":
        k, l = t[1].split(None, 1)
        return f"QProg {k} {l}%N"
    if t[0] == "QBody":
        a, b, c = t[1].split("] [")
        return f"QBody {a}]%N [{b}]%N [{c}%N"
    if t[0] == "QFirst":
        return f"QFirst {t[1]}%N"
    if t[0] == "QRecycle":
        return f"QRecycle {t[1]}%N"
    if t[0] == "QNat":
        a, b = t[1].split("] [")
        return f"QNat {a}]%N [{b}%N"
    return f"{t[0]} {t[1]}%N"           # QStr with a list


def scalars_of(q):
    inner = q[q.index("[") + 1: q.index("]")].strip()
    return [int(x) for x in inner.split(";")] if inner else []


def parse_framed(v, pos):
    k = v[pos]
    if k < 0 or pos + 1 + k > len(v):
        raise ValueError("bad frame")
    return bytes(v[pos + 1: pos + 1 + k]), pos + 1 + k


def prog_oracle(cs, v):
    """The property itself, applied to what the program printed (no model): returns (check, text) or None."""
    s = "".join(map(chr, cs)).encode("utf-8")
    n = len(cs)
    if v[0] in (-9, -8):
        return ("run-failed:%d:%d" % (v[0], v[1]), f"program did not run to completion / output unparsable: {v[:2]}")
    try:
        blen, clen, k = v[0], v[1], v[2]
        pos, items = 3, []
        for _ in range(k):
            it, pos = parse_framed(v, pos)
            items.append(it)
        neg = v[pos]
        if neg == -7:
            _, pos = parse_framed(v, pos + 1)
        else:
            pos += 1
        nidx = v[pos]
        pos += 1
        idx = []
        for _ in range(nidx):
            it, pos = parse_framed(v, pos)
            idx.append(it)
        tail = []
        for _ in range(2):
            c = v[pos]
            if c == -7:
                _, pos = parse_framed(v, pos + 1)
            else:
                pos += 1
            tail.append(c)
        if pos != len(v):
            raise ValueError("trailing data")
    except (ValueError, IndexError) as e:
        return ("obs-unparsable", f"observation vector malformed: {e}")
    if clen != k:
        return ("char_len!=items", f"char_len()={clen} but the for-each yields {k} items")
    if nidx != clen:
        return ("valid-indices!=char_len", f"{nidx} indices succeed but char_len()={clen}")
    if clen != n:
        return ("char_len!=scalars", f"char_len()={clen} for a string of {n} scalar values")
    for i, (a, b) in enumerate(zip(idx, items)):
        if a != b:
            return ("index!=item", f"s[{i}]={a!r} but item {i} of the iteration is {b!r}")
    for i, it in enumerate(items):
        try:
            if len(it.decode("utf-8")) != 1:
                return ("item-not-one-char", f"item {i} = {it!r} is not a one-character string")
        except UnicodeDecodeError:
            return ("item-not-utf8", f"item {i} = {it!r} is not valid UTF-8")
    if b"".join(items) != s:
        return ("concat!=string", f"concatenated items {b''.join(items)!r} differ from the string {s!r}")
    if blen != sum(len(it) for it in items):
        return ("len!=sum", f"len()={blen} but the items' UTF-8 sizes add up to {sum(len(i) for i in items)}")
    for name, c in (("-1", neg), ("n", tail[0]), ("n+1", tail[1])):
        if c != -1:
            what = "succeeds" if c == -7 else f"fails with class code {c} instead of IndexOutOfBounds"
            return (f"oob[{name}]", f"s[{name}] with n={n} {what}")
    return None


def two_lists(q):
    a, b = q[q.index("[") + 1:].split("] [")
    b = b.rstrip("]")
    f = lambda t: [int(x) for x in t.split(";")] if t.strip() else []
    return f(a), f(b)


def nat_oracle(cs, ps, v):
    """Python strings (sequences of code points) as the reference for the character natives: the property's
    reading of them -- char_at(i) is the i-th iteration item, substr takes items, reverse/pad/repeat count items."""
    if v[0] in (-9, -8):
        return ("nat-run-failed:%d:%d" % (v[0], v[1]), f"natives program failed / output unparsable: {v[:2]}")
    s = "".join(map(chr, cs))
    pad = "".join(map(chr, ps))
    n = len(s)
    pc = pad[0] if pad else " "
    want, names = [], []
    for i in range(-1, n + 2):
        want.append(s[i] if 0 <= i < n else "")
        names.append(f"char_at({i})")
    for a, l in [(0, n), (1, 2), (n - 1, 5), (n, 1), (n + 1, 1), (0, 0), (-1, 2), (2, -1), (1, n)]:
        want.append("" if a < 0 or l < 0 else s[a:a + l])
        names.append(f"substr({a},{l})")
    want.append(s[::-1]); names.append("reverse")
    padl = lambda w: pc * max(0, (w - n) if w > 0 else 0)
    want += [padl(n - 1) + s, padl(n + 2) + s, s + padl(n + 2), s + padl(0)]
    names += [f"pad_left({n - 1})", f"pad_left({n + 2})", f"pad_right({n + 2})", "pad_right(0)"]
    for k in (-1, 0, 1, 2):
        want.append(s * max(0, k)); names.append(f"repeat({k})")
    want += ["\n".join(s), "\n".join(s), s + pad]
    names += ["chars", "split('')", "concat"]
    b = s.encode("utf-8")
    ints = [(-1 if i < 0 or i >= len(b) else b[i]) for i in (-1, 0, len(b) - 1, len(b))]
    # find answers in bytes; by characters: the UTF-8 size of everything before the first occurrence
    for nd in (s[n // 2: n // 2 + 1], s[max(0, n - 2):], "", s + "z"):
        k = s.find(nd)
        ints.append(-1 if k < 0 else len(s[:k].encode("utf-8")))
    pos, got = 0, []
    try:
        for _ in want:
            it, pos = parse_framed(v, pos)
            got.append(it)
        tail = v[pos:]
    except (ValueError, IndexError) as e:
        return ("nat-obs-unparsable", f"observation vector malformed: {e}")
    for nm, w, g in zip(names, want, got):
        if w.encode("utf-8") != g:
            return ("native:" + nm.split("(")[0], f"{nm} on {s!r} (pad {pad!r}) gives {g!r}, by characters it is {w.encode('utf-8')!r}")
    if tail != ints:
        return ("native:byte_at-or-find", f"byte_at at -1, 0, len-1, len and find of 4 needles on {s!r} give {tail}, expected {ints}")
    return None


def body_oracle(cs, ds, p, v):
    """for-each bodies with continue / break / nesting / a closure / an early return / locals and calls: what each loop
    must compute when the iteration yields the string's characters, whatever the body does (no model)."""
    if v[0] in (-9, -8):
        return ("body-run-failed:%d:%d" % (v[0], v[1]), f"program failed / output unparsable: {v[:2]}")
    u = lambda l: "".join(map(chr, l)).encode("utf-8")
    w = lambda c: len(chr(c).encode("utf-8"))
    n = len(cs)
    pre = []
    for c in cs:
        if c == p:
            break
        pre.append(c)
    narrow = [a for a in cs if w(a) <= 2]
    want = [("continue-by-byte-length: items", n), ("continue-by-byte-length: wide", sum(1 for c in cs if w(c) > 1)),
            ("continue-by-parity: items", n), ("continue-by-parity: kept", u(cs[0::2])),
            ("continue-on-equal: items", n), ("continue-on-equal: others", sum(1 for c in cs if c != p)),
            ("break-on-equal: items before", len(pre)), ("break-on-equal: prefix", u(pre)),
            ("nested continue: inner pairs", sum(sum(1 for b in ds if b != a) for a in narrow)), ("nested continue: outer completed", len(narrow)),
            ("closure capturing the item: concatenation", u(cs)),
            ("early return: position of the character", cs.index(p) if p in cs else -1), ("early return: absent character", cs.index(0) if 0 in cs else -1),
            ("locals and calls: sum", sum(3 * w(c) for c in cs)), ("locals and calls: byte sum", len(u(cs)))]
    pos = 0
    try:
        for name, exp in want:
            if isinstance(exp, bytes):
                got, pos = parse_framed(v, pos)
            else:
                got = v[pos]; pos += 1
            if got != exp:
                return ("loop-body:" + name.split(":")[0].replace(" ", "-"), f"{name} = {got!r}, by the string's {n} characters it is {exp!r}")
        if pos != len(v):
            raise ValueError("trailing data")
    except (ValueError, IndexError) as e:
        return ("body-obs-unparsable", f"observation vector malformed: {e}")
    return None


def first_oracle(cs, v):
    """Functions whose loop body ends in `return`: the first item (or the code after the loop when there is none)."""
    if v[0] in (-9, -8):
        return ("first-run-failed:%d:%d" % (v[0], v[1]), f"program failed / output unparsable: {v[:2]}")
    none = b"<none>"
    first = chr(cs[0]).encode("utf-8") if cs else none
    try:
        pos, got = 0, []
        for _ in range(3):
            it, pos = parse_framed(v, pos)
            got.append(it)
        ints = v[pos:]
    except (ValueError, IndexError) as e:
        return ("first-obs-unparsable", f"observation vector malformed: {e}")
    if got[0] != first:
        return ("loop-return:first-item", f"`for c in u {{ return c }} return \"<none>\"` gives {got[0]!r}, the first item is {first!r}")
    if got[1] != first:
        return ("loop-return:first-index", f"`for jx in 0..u.char_len() {{ return u[jx] }} return \"<none>\"` gives {got[1]!r}, expected {first!r}")
    if got[2] != none:
        return ("loop-return:empty-string", f"the code after a for-each over the EMPTY string did not run: got {got[2]!r}")
    want = [1 if not cs else 0, 1, len(cs), 0]
    if ints != want:
        return ("loop-return:after-loop", f"yields_nothing(s), yields_nothing(\"\"), count(s), count(\"\") = {ints}, expected {want}")
    return None


def recycle_oracle(cs, v):
    """Three observation rounds of the same string, other one-character strings of the same UTF-8 length produced and
    collected in between: every round must show the string's own characters (the property itself, no model)."""
    if v[0] in (-9, -8):
        return ("recycle-run-failed:%d:%d" % (v[0], v[1]), f"program failed / output unparsable: {v[:2]}")
    want = [chr(c).encode("utf-8") for c in cs]
    pos = 0
    try:
        for rd in range(3):
            clen = v[pos]; pos += 1
            got = []
            for _ in range(2):
                k = v[pos]; pos += 1
                part = []
                for _ in range(k):
                    it, pos = parse_framed(v, pos)
                    part.append(it)
                got.append(part)
            if clen != len(cs):
                return ("recycled:char_len", f"round {rd + 1}: char_len()={clen} for {len(cs)} characters")
            if got[0] != want:
                return ("recycled:items", f"round {rd + 1}: the for-each yields {b''.join(got[0]).decode('utf-8', 'replace')!r}, not the string's characters")
            if got[1] != want:
                return ("recycled:index", f"round {rd + 1}: s[0..] gives {b''.join(got[1]).decode('utf-8', 'replace')!r}, not the string's characters")
        if pos != len(v):
            raise ValueError("trailing data")
    except (ValueError, IndexError) as e:
        return ("recycle-obs-unparsable", f"observation vector malformed: {e}")
    return None


def std_oracle(kind, q, v):
    """Python's own UTF-8 codec as an independent reference for the Rust std primitives."""
    if kind == "enc":
        c = int(q.split()[1])
        b = chr(c).encode("utf-8", "surrogatepass")
        if v[0] != len(b) or v[1] != len(b) or bytes(v[2:2 + len(b)]) != b or v[2 + len(b)] != c:
            return f"encode_utf8/len_utf8/chars().next() of U+{c:04X} gives {v}"
    elif kind == "str":
        b = bytes(scalars_of(q))
        t = b.decode("utf-8")
        want = [len(b), len(t)] + [ord(x) for x in t] + [ord(x) for x in t] + [-1, -1]
        if v != want:
            return f"len/count/chars/nth of {b!r} gives {v}"
    return None


def classes(cs):
    out = set()
    for c in cs:
        out.add(1 if c < 0x80 else 2 if c < 0x800 else 3 if c < 0x10000 else 4)
    return out


def run_corpus(ctx, hx):
    cdir = os.path.join(vlib.VERIF, "corpus", "C20")
    n = 0
    for fn in sorted(os.listdir(cdir)) if os.path.isdir(cdir) else []:
        if not fn.endswith(".aelys"):
            continue
        rc, out = vlib.sh([hx, "--corpus", os.path.join(cdir, fn)], timeout=300)
        if rc != 0:
            ctx.violation("c20:corpus:harness-crash:" + fn, "hx_utf8 crashed on a corpus file", {"file": fn, "tail": out[-1500:]})
            continue
        for line in out.split("\n"):
            p = line.split("\t")
            if len(p) != 6 or p[0] != "K":
                continue
            n += 1
            name, opt, cls, output, ops = p[1], p[2], p[3], p[4], p[5]
            sfl = ops.split(",")[0]
            rep = {"file": "corpus/C20/" + fn, "program": name, "opt": opt, "class": cls, "output": output,
                   "opcodes(StringForLoop,VecForLoop,StringLoadChar,VecLoadP,VecLoadIFB)": ops}
            if cls != "ok":
                ctx.violation(f"c20:corpus:{name}:{cls}", f"corpus program {name} at -O{opt}: {cls}", rep)
                continue
            m = re.search(r"char_len=(\d+) items=(\d+)", output)
            if m and m.group(1) != m.group(2):
                ctx.violation(f"c20:corpus:{name}:items={m.group(2)}",
                              f"corpus program {name} at -O{opt}: char_len()={m.group(1)} but the for-each yields {m.group(2)} items "
                              f"(loop opcode selected: {'VecForLoop' if sfl == '0' else 'StringForLoop'})", rep)
    return n


def replay(ctx, hx_run):
    r = json.load(open(ctx.replay_file))["replay"]
    src = r.get("program")
    if not src and r.get("file"):
        src = open(os.path.join(vlib.VERIF, r["file"])).read()
    if not src:
        ctx.log("replay file has no program text; broken:", r.get("broken"))
        return
    tmp = os.path.join(vlib.CACHE, f"c20_replay_{os.getpid()}.aelys")
    open(tmp, "w").write(src)
    rc, out = vlib.sh([hx_run, "--file", tmp, "--opts", str(r.get("opt", "0,1,2,3")).replace("O", "")], timeout=120)
    os.remove(tmp)
    ctx.log("replay output (index, opt, gc, class, output, value, detail):\n" + out)


def run(ctx):
    ctx.level = "proof"
    ctx.cov["trusted_base"] = TRUSTED
    ctx.assumptions = ["the model of the three string paths is the code: checked by the contract tie on every run",
                       "strings are valid UTF-8 (the VM's own invariant)"]
    proved = ctx.prove("C20", extracted=["Utf8Select"])
    if ctx.tier == "thorough" and proved:
        ctx.coqchk("C20")
    ok, out = vlib.coq_make(["Base/CaseCheck.vo", "Model/Utf8Obs.vo"])
    if not ok:
        ctx.broken.append("coq: model files for the C20 tie do not build")
        ctx.log(out[-2000:])
        return
    quick = ctx.tier == "quick"
    profiles = ["dev"] if quick else ["dev", "release"]
    n_strings, forms, n_std = (70, 3, 1500) if quick else (1200, 5, 40000)
    total, distinct = 0, set()
    dist = {"width_classes": {1: 0, 2: 0, 3: 0, 4: 0}, "forms": {}, "index_forms": {}, "scope": {}, "string_chars": {},
            "strings_mixing_widths": 0, "foreach_opcode": {"StringForLoop": 0, "VecForLoop": 0}, "std_cases": 0, "program_runs": 0}
    for prof in profiles:
        okb, paths, log = vlib.harness_build(["hx_utf8", "hx_run"], profile=prof)
        if not okb:
            ctx.broken.append("harness build failed (hx_utf8, %s)" % prof)
            ctx.log(log[-3000:])
            return
        hx = paths["hx_utf8"]
        if ctx.replay_file:
            replay(ctx, paths["hx_run"])
            return
        ncorp = run_corpus(ctx, hx)          # minimised failing inputs first
        rc, out = vlib.sh([hx, "--seed", str(ctx.seed), "--strings", str(n_strings), "--forms", str(forms),
                           "--std", str(n_std), "--recycle", "60" if quick else "600", "--recycle-opts", "0,2" if quick else "0,1,2,3"], timeout=2400)
        if rc != 0:
            ctx.violation("c20:harness-crash", "hx_utf8 crashed (panic outside run_program?)",
                          {"profile": prof, "output_tail": out[-2000:]})
            return
        cases, meta, srcs, nat_srcs, rec_srcs, first_srcs, body_srcs = [], [], {}, {}, {}, {}, {}
        for line in out.split("\n"):
            p = line.split("\t")
            if p[0] == "G":
                srcs[p[1]] = (p[2], p[3])
            elif p[0] == "H":
                nat_srcs[p[1]] = p[3]
            elif p[0] == "I":
                rec_srcs[p[1]] = p[3]
            elif p[0] == "L":
                body_srcs[p[1]] = p[3]
            elif p[0] == "J":
                first_srcs[p[1]] = p[3]
            elif p[0] in ("S", "P", "N", "R", "F", "B") and len(p) == 4:
                cases.append((coq_query(p[2]), zlist(p[3].split())))
                meta.append((p[0], p[1], p[2], [int(x) for x in p[3].split()]))
        total += len(cases) + ncorp
        # ---- direct oracle on the implementation's own outputs
        nd = 0
        for tag, m, q, v in meta:
            if tag == "S":
                dist["std_cases"] += 1
                distinct.add(q)
                d = std_oracle(m, q, v)
                if d:
                    nd += 1
                    ctx.violation("c20:std:" + m, d, {"query": q, "observed": v, "profile": prof})
                continue
            if tag == "B":
                parts = q[q.index("[") + 1:].rstrip("]").split("] [")
                f = lambda t: [int(x) for x in t.split(";")] if t.strip() else []
                cs, ds, pv = f(parts[0]), f(parts[1]), f(parts[2])
                cid, form, scope, opt = m.split(":")
                dist["loop_body_shape_runs"] = dist.get("loop_body_shape_runs", 0) + 1
                distinct.add(("body", tuple(cs), tuple(ds), tuple(pv), form, scope, opt))
                d = body_oracle(cs, ds, pv[0], v)
                if d:
                    nd += 1
                    if nd <= 5:
                        ctx.violation(f"c20:{d[0]}:{form}", f"{d[1]} (string {''.join(map(chr, cs))!r}, {form}, {scope}, -{opt})",
                                      {"scalars": cs, "inner": ds, "pivot": pv, "form": form, "opt": opt, "observed": v[:80],
                                       "program": vlib_unesc(body_srcs.get(cid, "")), "profile": prof})
                continue
            if tag == "F":
                cs = scalars_of(q)
                cid, form, typed, emp, opt = m.split(":")
                dist["loop_body_ends_in_return_runs"] = dist.get("loop_body_ends_in_return_runs", 0) + 1
                distinct.add(("first", tuple(cs), form, typed, emp, opt))
                d = first_oracle(cs, v)
                if d:
                    nd += 1
                    if nd <= 5:
                        ctx.violation(f"c20:{d[0]}:{opt}", f"{d[1]} (string {''.join(map(chr, cs))!r}, {form}, {typed}, {emp}, -{opt})",
                                      {"scalars": cs, "form": form, "opt": opt, "observed": v[:60], "program": vlib_unesc(first_srcs.get(cid, "")), "profile": prof})
                continue
            if tag == "R":
                cs = scalars_of(q)
                cid, aname, form, opt, gc = m.split(":")
                dist.setdefault("recycle_runs (alphabet / gc schedule)", {})
                key = aname + " " + gc
                dist["recycle_runs (alphabet / gc schedule)"][key] = dist["recycle_runs (alphabet / gc schedule)"].get(key, 0) + 1
                distinct.add(("rec", tuple(cs), form, opt, gc))
                d = recycle_oracle(cs, v)
                if d:
                    nd += 1
                    if nd <= 5:
                        ctx.violation(f"c20:{d[0]}:{gc}", f"{d[1]} (string {''.join(map(chr, cs))!r}, {form}, -{opt}, GC schedule {gc}: mode.k, 2 = collect at every safepoint, 3 = every k-th)",
                                      {"scalars": cs, "form": form, "opt": opt, "gc": gc, "observed": v[:120],
                                       "program": vlib_unesc(rec_srcs.get(cid, "")), "profile": prof})
                continue
            if tag == "N":
                cs, ps = two_lists(q)
                cid, form, scope, style, opt = m.split(":")
                dist["native_program_runs"] = dist.get("native_program_runs", 0) + 1
                dist.setdefault("native_call_style", {})
                dist["native_call_style"][style] = dist["native_call_style"].get(style, 0) + 1
                dist.setdefault("pad_strings", {})
                dist["pad_strings"][str(ps)] = dist["pad_strings"].get(str(ps), 0) + 1
                if cs:
                    distinct.add(("nat", tuple(cs), tuple(ps), form, scope, style, opt))
                d = nat_oracle(cs, ps, v)
                if d:
                    nd += 1
                    if nd <= 5:
                        ctx.violation(f"c20:{d[0]}:{form}", f"{d[1]} ({form}, {scope}, {style}, -{opt})",
                                      {"scalars": cs, "pad": ps, "form": form, "opt": opt, "observed": v[:200],
                                       "program": vlib_unesc(nat_srcs.get(cid, "")), "profile": prof})
                continue
            cs = scalars_of(q)
            cid, form, idxf, scope, opt, ops = m.split(":")
            dyn = ops != "?" and ops.split(",")[0] == "0"
            dist["foreach_opcode"]["VecForLoop" if dyn else "StringForLoop"] += 1
            dist["program_runs"] += 4
            if opt == "O0":
                dist["forms"][form] = dist["forms"].get(form, 0) + 1
                dist["index_forms"][idxf] = dist["index_forms"].get(idxf, 0) + 1
                dist["scope"][scope] = dist["scope"].get(scope, 0) + 1
                b = "0" if not cs else "1" if len(cs) == 1 else "2-4" if len(cs) <= 4 else "5-12" if len(cs) <= 12 else "13-40" if len(cs) <= 40 else ">40"
                dist["string_chars"][b] = dist["string_chars"].get(b, 0) + 1
                for c in cs:
                    dist["width_classes"][1 if c < 0x80 else 2 if c < 0x800 else 3 if c < 0x10000 else 4] += 1
                if len(classes(cs)) > 1:
                    dist["strings_mixing_widths"] += 1
            if any(c >= 0x80 or c < 0x20 or c in (0x22, 0x5C, 0x7B, 0x7D) for c in cs):
                distinct.add((tuple(cs), form, idxf, scope, opt))
            d = prog_oracle(cs, v)
            if d:
                nd += 1
                # KF-C20-1 (VecForLoop on a string yielded nothing) is repaired: no known class is left,
                # the selected loop opcode is reported only to say where to look
                if nd <= 5:
                    ctx.violation(f"c20:{d[0]}:{form}:{'VecForLoop' if dyn else 'StringForLoop'}", f"{d[1]} (string {cs}, built as {form}, indices {idxf}, {scope}, -{opt})",
                                  {"scalars": cs, "form": form, "index_form": idxf, "scope": scope, "opt": opt,
                                   "observed": v, "program": vlib_unesc(srcs.get(cid, ("", ""))[1]), "profile": prof})
        ctx.cov["direct_oracle_failures"] = ctx.cov.get("direct_oracle_failures", 0) + nd
        # ---- model vs implementation
        fails, err = vlib.coq_eval_cases("c20", IMPORTS, "uobs", "zlist_eqb", cases, shard=300)
        if err:
            ctx.broken.append("correspondence C20: model evaluation failed")
            ctx.log(err[-3000:])
        if fails:
            ctx.broken.append(f"correspondence C20 ({prof}): model and implementation differ on {len(fails)} cases")
            bad = fails[:6]
            mo, _ = vlib.coq_eval_terms("c20", IMPORTS, [f"uobs ({cases[i][0]})" for i in bad])
            ctx.cov["disagreements"] = [{"case": meta[i][1], "query": meta[i][2][:400], "implementation": str(meta[i][3])[:600],
                                         "model": (m or "")[:600]} for i, m in zip(bad, mo)]
            for i in bad[:3]:
                tag, m, q, v = meta[i]
                if tag == "B":
                    cid = m.split(":")[0]
                    ctx.violation("c20:model-mismatch:loop-body:" + m.split(":")[1], f"for-each bodies with continue / break / nesting differ from the model's prediction ({m})",
                                  {"case": m, "query": q[:300], "observed": v[:80], "program": vlib_unesc(body_srcs.get(cid, "")), "profile": prof})
                if tag == "F":
                    cid = m.split(":")[0]
                    ctx.violation("c20:model-mismatch:loop-return:" + m.split(":")[-1], f"functions whose loop body ends in `return` differ from the model's prediction ({m})",
                                  {"case": m, "query": q[:300], "observed": v[:60], "program": vlib_unesc(first_srcs.get(cid, "")), "profile": prof})
                if tag == "R":
                    cid = m.split(":")[0]
                    ctx.violation("c20:model-mismatch:recycle:" + m.split(":")[-1],
                                  f"the three paths under a GC schedule differ from the model's prediction ({m})",
                                  {"case": m, "query": q[:300], "observed": v[:120], "program": vlib_unesc(rec_srcs.get(cid, "")), "profile": prof})
                if tag == "N":
                    cid = m.split(":")[0]
                    ctx.violation("c20:model-mismatch:natives:" + m.split(":")[1],
                                  f"output of the natives program differs from the model's prediction ({m})",
                                  {"case": m, "query": q[:400], "observed": v[:200], "opt": m.split(":")[-1],
                                   "program": vlib_unesc(nat_srcs.get(cid, "")), "profile": prof})
                if tag == "P":
                    cid = m.split(":")[0]
                    ctx.violation("c20:model-mismatch:" + m.split(":")[1],
                                  f"program output differs from the model's prediction ({m})",
                                  {"case": m, "scalars": scalars_of(q), "observed": v, "opt": m.split(":")[4],
                                   "program": vlib_unesc(srcs.get(cid, ("", ""))[1]), "profile": prof})
        ns = [(m, q, v) for tag, m, q, v in meta if tag == "N"]
        if ns:
            ctx.add_samples([{"case": ns[len(ns) // 2][0], "query": ns[len(ns) // 2][1][:200], "observed": " ".join(map(str, ns[len(ns) // 2][2]))[:300]}])
        ps = [(m, q, v) for tag, m, q, v in meta if tag == "P"]
        ctx.add_samples([{"case": m, "query": q[:300], "observed": " ".join(map(str, v))[:300]}
                         for m, q, v in (ps[len(ps) // 3: len(ps) // 3 + 2] + ps[-9:-8])])
        if srcs:
            k = sorted(srcs, key=int)[len(srcs) // 2]
            ctx.add_samples([{"program_of_case": k, "form": srcs[k][0], "source": vlib_unesc(srcs[k][1])[:1200]}])
    ctx.cov["evaluations"] = total
    ctx.cov["distinct_nontrivial"] = len(distinct)
    ctx.cov["input_distribution"] = dist
    ctx.cov["exhaustive_sub_sweep"] = "encode/len_utf8/decode checksum over all 1,112,064 scalar values (68 QSum cases of 0x4000 code points)"
    ctx.cov["rule"] = ("strings = fixed set (empty, 22 single boundary scalars, 64 ordered pairs of width-class boundaries "
                       "U+007F/80/7FF/800/FFFF/10000/10FFFF/NUL, combining-mark, ZWJ-family and flag sequences, NULs, brace/quote/backslash "
                       "mix, 70- and 300-character strings) + seeded random strings of 0..40 scalars mixing the four widths, controls, "
                       "combining marks and ZWJ; each built in 2-5 of 10 ways (literal with raw/escaped specials, folded and unfolded "
                       "concatenation, interpolation, chr() loop, function return, passed to an untyped/typed parameter, .concat), "
                       "observed at global or function scope with literal / while / range indices, at -O0..-O3; "
                       "a case = one (string, form, level): main program + three out-of-range programs; "
                       "distinct_nontrivial = distinct std queries + distinct (string, form, index form, scope, level) whose string has a "
                       "non-ASCII, control or escape-needing character")


def vlib_unesc(s):
    out, i = [], 0
    while i < len(s):
        c = s[i]
        if c != "\\" or i + 1 >= len(s):
            out.append(c)
            i += 1
            continue
        n = s[i + 1]
        if n == "x" and i + 3 < len(s):
            out.append(chr(int(s[i + 2:i + 4], 16)))
            i += 4
            continue
        out.append({"n": "\n", "t": "\t", "r": "\r", "\\": "\\"}.get(n, "\\" + n))
        i += 2
    return "".join(out)
