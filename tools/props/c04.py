"""C04 -- bytecode that passes verification executes without memory errors.
Proof over the verifier model + raw-access footprint (Props/C04.v), contract tie on the verifier
(accept/reject), footprint tie + direct bounds oracle on executions under the site hook (hx_verifier)."""
import json, os, re, tempfile
import vlib

TRUSTED = [
    "Coq 8.16.1 kernel + vm_compute (table sweeps, refutation witnesses); no axioms",
    "tools/extractors/c04.py transcribes: OpCode discriminants + from_u8 bound (opcode.rs); per-opcode verifier checks, skip set, "
    "nesting limit (verifier/**, shape-checked incl. checks.rs comparisons); guards/offsets of the raw sites and which call paths "
    "refresh constants_len (dispatch/run.rs, ops/*.inc)",
    "Model/Verifier.v, Model/Footprint.v are hand models; tied on every run by hx_verifier (verifier verdict equality; logged raw accesses "
    "of executed instructions = predicted prefix + allowed set)",
    "hook H5 (runtime/src/verif_sites.rs + cfg-guarded calls in run.rs/ops/*.inc) reports each raw access with the true buffer length "
    "resolved through the heap; it is trusted to sit exactly at the raw sites (extractor counts the raw sites: 4 constants, 5 upvalues, "
    "3 register macros, 1 get_unchecked)",
    "not modelled: value semantics, GC, natives, lifetime of cached code pointers (C03/C05), UB other than out-of-bounds indices "
    "(provenance, aliasing of the patched buffer) -- the property's 'never invokes undefined behaviour' is covered only for index bounds "
    "and the from_u8 transmute",
]
IMPORTS = ("From Aelys Require Import Extracted.OpcodeNumbering Extracted.VerifierTable Extracted.DispatchSites "
           "Model.Verifier Model.Footprint.\nLocal Open Scope N_scope.")
SITE = {1: "fetch", 2: "cache-word", 3: "patch-write", 4: "patch-read", 5: "const", 6: "upval", 7: "reg-read", 8: "reg-write",
        9: "call-site-cache", 10: "stale-regs-ptr"}
U64MAX = (1 << 64) - 1


def spec_to_coq(toks, pos=0):
    """F nregs arity U<n> .. C<n> .. W<n> .. N<n> ..  ->  (Coq term, next position)"""
    assert toks[pos] == "F", toks[pos:pos + 5]
    nregs = int(toks[pos + 1])
    pos += 3
    nu = int(toks[pos][1:])
    pos += 1 + nu
    nc = int(toks[pos][1:])
    pos += 1
    cs = []
    for _ in range(nc):
        t = toks[pos]
        pos += 1
        cs.append(f"CNested {int(t[1:])}" if t[0] == "n" else ("CPtr true" if t == "s" else ("CPtr false" if t == "x" else "COther")))
    nw = int(toks[pos][1:])
    pos += 1
    ws = [str(int(t, 16)) for t in toks[pos:pos + nw]]
    pos += nw
    nn = int(toks[pos][1:])
    pos += 1
    nested = []
    for _ in range(nn):
        t, pos = spec_to_coq(toks, pos)
        nested.append(t)
    return (f"(Func {nregs} [{'; '.join(cs)}] {nu} [{'; '.join(ws)}] [{'; '.join(nested)}])", pos)


def spec_size(toks):
    return sum(1 for t in toks if t == "F"), sum(int(t[1:]) for t in toks if re.fullmatch(r"W[0-9]+", t))


HOP, HSITE = {}, {}


def parse_output(out):
    V, X, S, O, E = [], {}, [], [], []
    for line in out.splitlines():
        p = line.split("\t")
        if p[0] in ("HOP", "HSITE") and len(p) == 2:
            tgt = HOP if p[0] == "HOP" else HSITE
            for kv in p[1].split():
                k, n = kv.split(":")
                tgt[int(k)] = tgt.get(int(k), 0) + int(n)
            continue
        if p[0] == "V" and len(p) == 5:
            V.append(dict(case=p[1], tag=p[2], spec=p[3], verdict=p[4]))
        elif p[0] == "X" and len(p) in (7, 9, 10):
            X[p[1]] = dict(cls=p[2], n=int(p[3]), offgrid=int(p[4]), stale=int(p[5]), unresolved=int(p[6]),
                           badframe=int(p[7]) if len(p) >= 9 else 0, badup=int(p[8]) if len(p) >= 9 else 0,
                           badlocals=int(p[9]) if len(p) >= 10 else 0)
        elif p[0] == "S" and len(p) >= 6:
            snap = [int(x) for x in p[5].split()]
            acc = [tuple(int(y) for y in a.split(":")) for a in (p[6].split() if len(p) > 6 else [])]
            S.append(dict(case=p[1], k=int(p[2]), last=p[3] == "1", ongrid=p[4] == "1", snap=snap, acc=acc))
        elif p[0] == "O" and len(p) == 11:
            O.append(dict(case=p[1], k=int(p[2]), site=int(p[3]), idx=int(p[4]), len=int(p[5]), tainted=p[6] == "1",
                          op=int(p[7]), clen=int(p[8]), ctrue=int(p[9]), ongrid=p[10] == "1"))
        elif p[0] == "E":
            E.append(line)
    return V, X, S, O, E


def s_query(s):
    ip, bl, word, base, clen, ctrue, uplen, regslen, cachelen = s["snap"]
    nconsts = clen if ctrue == U64MAX else ctrue
    st = (f"{{| s_ip := {ip}; s_bclen := {bl}; s_base := {base}; s_regslen := {regslen}; s_clen := {clen}; "
          f"s_nconsts := {nconsts}; s_uplen := {uplen}; s_cachelen := {cachelen} |}}")
    acc = "; ".join(f"({a}, {b}, {c})" for a, b, c in s["acc"])
    return f"({st}, {word}, [{acc}], {'true' if s['last'] else 'false'})"


def classify_oob(o):
    """Since the repairs of KF-C04-1/2 no out-of-bounds access is attributed to a known root cause."""
    site = SITE.get(o["site"], "site%d" % o["site"])
    where = "off-grid" if o["tainted"] else ("stale-constants-len" if o["ctrue"] != U64MAX and o["clen"] > o["ctrue"] else "on-grid")
    return f"oob:{site}:{where}"


def asan_leg(ctx, gap_lo, gap_hi):
    """Thorough tier: the same generator under AddressSanitizer with the site hooks switched off, so that every raw access
    is really performed and an out-of-bounds / use-after-free access is seen by an oracle independent of the hooks."""
    tc = "nightly-2026-08-21"
    rc, out = vlib.sh(f"rustc +{tc} --version")
    if rc != 0:
        ctx.cov["asan"] = "skipped: nightly toolchain not available"
        return
    d = vlib.harness_dir()
    target = os.path.join(vlib.CACHE, "target", vlib.repo_tag() + "-asan")
    env = {"CARGO_NET_OFFLINE": "true", "CARGO_TARGET_DIR": target,
           "RUSTFLAGS": f"-Zsanitizer=address --cfg {vlib.GUARD} -Awarnings"}
    with vlib.Lock("cargo-" + vlib.repo_tag() + "-asan"):
        rc, out = vlib.sh(["cargo", f"+{tc}", "build", "--offline", "-q", "--target", "x86_64-unknown-linux-gnu", "--bin", "hx_verifier"],
                          cwd=d, env=env, timeout=2400)
    if rc != 0:
        ctx.cov["asan"] = "skipped: ASan build failed: " + out[-300:]
        return
    exe = os.path.join(target, "x86_64-unknown-linux-gnu", "debug", "hx_verifier")
    total = 0
    for seed in (ctx.seed, ctx.seed + 1):
        cmd = [exe, "--seed", str(seed), "--cases", "6000", "--histories", "300", "--sweep-all", "--no-sites",
               "--gap-lo", str(gap_lo), "--gap-hi", str(gap_hi)]
        rc, out = vlib.sh(cmd, timeout=1500, env={"ASAN_OPTIONS": "detect_leaks=0:abort_on_error=0"})
        v = [l for l in out.splitlines() if l.startswith("V\t")]
        total += len(v)
        if rc != 0 or "AddressSanitizer" in out:
            m = re.search(r"ERROR: AddressSanitizer: ([a-z-]+)", out)
            last = v[-1].split("\t") if v else []
            ctx.violation("asan:" + (m.group(1) if m else f"exit-{rc}"),
                          "AddressSanitizer stopped the harness while it verified or executed a function (site hooks off)",
                          {"seed": seed, "tag": last[2] if len(last) > 2 else None, "spec": last[3] if len(last) > 3 else None,
                           "report": out[out.find("ERROR: AddressSanitizer"):][:1500] if m else out[-800:]})
    ctx.cov["asan"] = f"{total} functions verified/executed under AddressSanitizer with the site hooks off (toolchain {tc}): no report"


def miri_leg(ctx, gap_lo, gap_hi):
    """Thorough tier: the corpus source programs and function specs under Miri with the site hooks off (aliasing / provenance /
    uninitialised reads / out-of-bounds: the part of `never invokes undefined behaviour` no model here covers)."""
    tc = "nightly"
    rc, out = vlib.sh(f"cargo +{tc} miri --version")
    if rc != 0:
        ctx.cov["miri"] = "skipped: no toolchain with the miri component"
        return
    d = vlib.harness_dir()
    target = os.path.join(vlib.CACHE, "target", vlib.repo_tag() + "-miri")
    env = {"CARGO_NET_OFFLINE": "true", "CARGO_TARGET_DIR": target, "MIRIFLAGS": "-Zmiri-disable-isolation",
           "RUSTFLAGS": f"--cfg {vlib.GUARD} -Awarnings"}
    cdir = os.path.join(vlib.VERIF, "corpus", "C04")
    jobs = [("--src", os.path.join(cdir, f)) for f in sorted(os.listdir(cdir)) if f.endswith(".aelys")]
    jobs += [("--corpus", os.path.join(cdir, f)) for f in sorted(os.listdir(cdir)) if f.endswith(".txt") and "from_u8" not in f]
    ran = 0
    with vlib.Lock("cargo-" + vlib.repo_tag() + "-miri"):
        for mode, path in jobs:
            cmd = ["cargo", f"+{tc}", "miri", "run", "--offline", "-q", "--bin", "hx_verifier", "--", mode, path, "--no-sites",
                   "--gap-lo", str(gap_lo), "--gap-hi", str(gap_hi)]
            rc, out = vlib.sh(cmd, cwd=d, env=env, timeout=1500)
            if "Undefined Behavior" in out:
                m = re.search(r"error: Undefined Behavior: ([^\n]*)", out)
                w = re.search(r"--> ([^\n]*)", out)
                ctx.violation("miri:" + re.sub(r"[^a-z]+", "-", (m.group(1) if m else "ub").lower())[:60],
                              f"Miri reports undefined behaviour while executing {os.path.basename(path)}: {m.group(1) if m else ''} at {w.group(1) if w else '?'}",
                              {"input": os.path.relpath(path, vlib.VERIF), "cmd": " ".join(cmd[1:]), "report": out[out.find("error: Undefined"):][:1200]})
            elif rc != 0 and "error" in out and not re.search(r"^X\t", out, flags=re.M):
                ctx.cov["miri"] = "skipped: Miri build/run failed: " + out[-300:]
                return
            else:
                ran += len(re.findall(r"^X\t", out, flags=re.M))
    ctx.cov["miri"] = f"{ran} executions of {len(jobs)} corpus inputs under Miri (Stacked Borrows, site hooks off): no undefined behaviour"


def run(ctx):
    ctx.level = "proof"
    ctx.cov["trusted_base"] = TRUSTED
    ctx.assumptions = [
        "Model/Verifier.v = runtime/src/vm/verifier: checked by verdict equality on every generated function",
        "Model/Footprint.v = raw accesses of run_fast: checked on the logged accesses of executed instructions",
        "closures carry exactly as many upvalues as their function has descriptors (runs: s_uplen <= f_nup)",
    ]
    proved = ctx.prove("C04", extracted=["OpcodeNumbering", "VerifierTable", "DispatchSites"])
    if ctx.tier == "thorough" and proved:
        ctx.coqchk("C04")
    ctx.cov["refuted_lemmas"] = []
    ctx.cov["history"] = ("before the fix commits for KF-C04-1/2/3 the full statement was refuted (jump into a cache word, stale constants_len, "
                          "from_u8 gap); it is now the theorem C04_verified_exec_in_bounds; the former witnesses run first as regression cases")
    # ---- facts the harness and the hook rely on, taken from the translator (not hard-coded)
    import extract
    extract.load_plugins()
    from extractors import c04 as x
    model_ok = True                  # ties need the model files; the direct oracle (search for a failing input) never does
    gap_lo, gap_hi = 1, 0
    try:
        ops, _ranges, _ = x.parse_opcodes()
        names = dict(ops)
        disc = {v for _, v in ops}
        # bytes below the largest discriminant that are not opcodes: functions carrying one on the grid are verified in a
        # child process, whatever from_u8 currently does with them
        undecl = [b for b in range(max(disc) + 1) if b not in disc]
        gap_lo, gap_hi = (min(undecl), max(undecl)) if undecl else (1, 0)
        if undecl and undecl != list(range(gap_lo, gap_hi + 1)):
            ctx.broken.append("harness assumption: the undeclared opcode bytes are no longer one contiguous range")
            gap_lo, gap_hi = 1, 0
        table, _order, skip, _mx, _jg = x.parse_verifier()
        if sorted(names[n] for n in skip) != [77, 78, 104]:
            ctx.broken.append("hook assumption: the verifier's skip set is no longer {77, 78, 104} (verif_sites::on_grid hard-codes it)")
    except extract.ExtractError as e:
        model_ok = False
        if not any(str(e) in b for b in ctx.broken):
            ctx.broken.append(f"translator: {e}")
    if model_ok:
        ok, out = vlib.coq_make(["Base/CaseCheck.vo", "Model/Footprint.vo"])
        if not ok:
            ctx.broken.append("coq: model files for the C04 tie do not build")
            ctx.log(out[-2000:])
            model_ok = False
    if getattr(x, "WARNINGS", None):
        ctx.notes.extend(x.WARNINGS)
    if not model_ok:
        ctx.log("model unavailable: running the direct oracle only (search for a failing input)")
    profiles = ["dev"] if ctx.tier == "quick" else ["dev", "release"]
    ncases = 700 if ctx.tier == "quick" else 12000
    tot_eval, distinct = 0, set()
    dist, sources, sizes = {}, {}, {}
    HOP.clear()
    HSITE.clear()
    stats = dict(functions=0, accepted=0, rejected=0, gap=0, executed=0, instructions=0, offgrid_runs=0, stale_len_instrs=0,
                 oob_events=0, ends={})
    for prof in profiles:
        ok, paths, log = vlib.harness_build(["hx_verifier"], profile=prof)
        if not ok:
            ctx.broken.append(f"harness build failed (hx_verifier, {prof})")
            ctx.log(log[-3000:])
            return
        exe = paths["hx_verifier"]
        common = ["--gap-lo", str(gap_lo), "--gap-hi", str(gap_hi)]
        runs = []
        if getattr(ctx, "replay_file", None):
            rp = json.load(open(ctx.replay_file))
            sp = rp.get("replay", {}).get("spec")
            if sp:
                tf = tempfile.NamedTemporaryFile("w", suffix=".txt", delete=False)
                tf.write(sp + "\n")
                tf.close()
                runs.append(("replay", [exe, "--corpus", tf.name] + common))
        cdir = os.path.join(vlib.VERIF, "corpus", "C04")
        for fn in sorted(os.listdir(cdir)) if os.path.isdir(cdir) else []:
            if fn.endswith(".txt"):
                runs.append(("corpus/" + fn, [exe, "--corpus", os.path.join(cdir, fn)] + common))
            elif fn.endswith(".aasm"):
                runs.append(("corpus/" + fn, [exe, "--aasm", os.path.join(cdir, fn)] + common))
        if not getattr(ctx, "replay_file", None):
            runs.append(("random", [exe, "--seed", str(ctx.seed), "--cases", str(ncases)] + common + (["--sweep-all", "--histories", "400"] if ctx.tier == "thorough" else [])))
        V, X, S, O = [], {}, [], []
        for name, cmd in runs:
            rc, out = vlib.sh(cmd, timeout=1500)
            v, xs, s, o, e = parse_output(out)
            if rc != 0:
                last = v[-1] if v else {}
                ctx.violation("crash:harness:" + name.split("/")[0],
                              f"hx_verifier died (rc={rc}) in {name}: the process crashed while verifying or executing a function",
                              {"profile": prof, "run": name, "last_case": last, "output_tail": out[-1500:]})
                continue
            for d in v:
                d["case"] = name + ":" + d["case"]
            for k in list(xs):
                X[name + ":" + k] = xs[k]
            for d in s + o:
                d["case"] = name + ":" + d["case"]
            V += v
            S += s
            O += o
            ec = [x for x in e if "compile-failed" in x]
            if ec:
                ctx.broken.append(f"{name}: {len(ec)} generator programs no longer compile: {ec[:2]}")
            er = [x for x in e if "reload-failed" in x]
            if er:
                ctx.cov.setdefault("reload_rejected_by_loader", 0)
                ctx.cov["reload_rejected_by_loader"] += len(er)
        specs = {d["case"]: d for d in V}
        # ---- contract tie on the verifier
        vcases, vmeta = [], []
        for d in V:
            toks = d["spec"].split()
            term, _ = spec_to_coq(toks)
            verdict = d["verdict"]
            fam = d["tag"].split(":")[1] if ":" in d["tag"] else d["tag"]
            dist[fam] = dist.get(fam, 0) + 1
            src = "avbc" if "avbc" in d["tag"] else ("aasm" if "aasm" in d["tag"] else ("corpus" if d["tag"] == "corpus" else "compiler+mutation"))
            sources[src] = sources.get(src, 0) + 1
            if d["tag"].endswith(":gc") or "baseline-gc" in d["tag"]:
                sources["gc-at-every-safepoint"] = sources.get("gc-at-every-safepoint", 0) + 1
            nf, nw = spec_size(toks)
            sizes["functions<=1" if nf <= 1 else ("functions<=3" if nf <= 3 else "functions>3")] = sizes.get("functions<=1" if nf <= 1 else ("functions<=3" if nf <= 3 else "functions>3"), 0) + 1
            sizes["words<=8" if nw <= 8 else ("words<=32" if nw <= 32 else "words>32")] = sizes.get("words<=8" if nw <= 8 else ("words<=32" if nw <= 32 else "words>32"), 0) + 1
            stats["functions"] += 1
            if verdict == "accept":
                obs = "1"
                stats["accepted"] += 1
            elif verdict == "reject":
                obs = "0"
                stats["rejected"] += 1
            elif verdict.startswith("gap:"):
                stats["gap"] += 1
                child = verdict[4:]
                obs = {"reject": "0", "accept": "1"}.get(child, "10")
                if child not in ("reject", "accept"):
                    ctx.violation("crash:verifier:from_u8-gap-byte",
                                  f"verify_function kills the process ({child}) on an opcode byte in {gap_lo}..{gap_hi} that is not a "
                                  "declared opcode (OpCode::from_u8 must return None for it)",
                                  {"profile": prof, "spec": d["spec"], "tag": d["tag"]})
            else:
                ctx.violation("verifier:unexpected-outcome:" + verdict, f"verifier call ended with {verdict}",
                              {"profile": prof, "spec": d["spec"], "tag": d["tag"]})
                continue
            vcases.append((f"verdict {term}", obs))
            vmeta.append(d)
            distinct.add("V" + d["spec"])
        eq = ("Definition veq (m o : N) : bool := if o <? 2 then m =? o else m =? 2.")
        fails, err = vlib.coq_eval_cases("c04v", IMPORTS, "fun x => x", "veq", vcases, shard=120, extra_defs=eq) if model_ok else ([], None)
        tot_eval += len(vcases)
        if err:
            ctx.broken.append("correspondence C04 (verifier): model evaluation failed")
            ctx.log(err[-3000:])
        for i in fails[:3]:
            d = vmeta[i]
            mo, _ = vlib.coq_eval_terms("c04v", IMPORTS, [vcases[i][0]])
            ctx.violation("tie:verifier-verdict", f"real verifier says {d['verdict']}, Coq Verifier model says {mo[0]}",
                          {"profile": prof, "spec": d["spec"], "tag": d["tag"], "model": mo[0]})
        if fails:
            ctx.broken.append(f"correspondence C04 ({prof}): verifier model and verify_function differ on {len(fails)} of {len(vcases)} functions")
        # ---- executions: direct oracle (no model involved)
        for case, xr in X.items():
            stats["executed"] += 1
            stats["instructions"] += xr["n"]
            stats["offgrid_runs"] += 1 if xr["offgrid"] else 0
            stats["stale_len_instrs"] += xr["stale"]
            stats["ends"][xr["cls"]] = stats["ends"].get(xr["cls"], 0) + 1
            d = specs.get(case, {})
            if xr["cls"].startswith("panic:"):
                sig = xr["cls"] if xr["cls"].startswith("panic:type-confusion") else "panic:" + re.sub(r"[^a-z]+", "-", xr["cls"][6:].lower())[:40]
                ctx.violation(sig, f"executing a verifier-accepted function panicked: {xr['cls']}",
                              {"profile": prof, "spec": d.get("spec"), "tag": d.get("tag")})
            if xr["offgrid"]:
                ctx.violation("exec:off-grid-instruction",
                              "an accepted function executed a word that is not an instruction start of the verifier's linear layout",
                              {"profile": prof, "spec": d.get("spec"), "tag": d.get("tag")})
            if xr["stale"]:
                ctx.violation("frame:stale-constants-len",
                              f"{xr['stale']} instructions ran with a loop-local constants_len different from the length of the constant "
                              "table behind constants_ptr (a frame switch did not refresh it)",
                              {"profile": prof, "spec": d.get("spec"), "tag": d.get("tag")})
            if xr.get("badframe"):
                ctx.violation("frame:code-pointers-do-not-belong-to-callee",
                              f"{xr['badframe']} instructions ran while the record of the running frame (what a return reloads: bytecode_ptr/len, "
                              "constants_ptr/len) did not describe the buffers of the frame's own function object",
                              {"profile": prof, "spec": d.get("spec"), "tag": d.get("tag"), "kind": "frame-record"})
            if xr.get("badlocals"):
                ctx.violation("frame:loop-locals-are-not-the-running-frame",
                              f"{xr['badlocals']} instructions ran while the dispatch loop's cached base / code / constant / upvalue pointers and lengths "
                              "were not those of the record of the running frame (a frame switch forgot to reload some of them)",
                              {"profile": prof, "spec": d.get("spec"), "tag": d.get("tag")})
            if xr.get("badup"):
                ctx.violation("frame:upvalue-vector-without-live-owner",
                              f"{xr['badup']} instructions ran in a frame whose upvalues_ptr is not the upvalue vector of any closure in the heap "
                              "(the running closure was collected)",
                              {"profile": prof, "spec": d.get("spec"), "tag": d.get("tag")})
            if xr["unresolved"]:
                ctx.violation("frame:code-pointers-do-not-belong-to-callee",
                              f"{xr['unresolved']} instructions ran in a frame whose cached bytecode/constants pointers are not the "
                              "buffers of the function object the frame denotes (e.g. a call-site cache entry filled with the wrong table)",
                              {"profile": prof, "spec": d.get("spec"), "tag": d.get("tag")})
        for o in O:
            stats["oob_events"] += 1
            sig = classify_oob(o)
            d = specs.get(o["case"], {})
            ctx.violation(sig, f"raw access outside its buffer: site {SITE.get(o['site'])} index {o['idx']} length {o['len']} "
                               f"(opcode {o['op']}, instruction #{o['k']}, on-grid={o['ongrid']}, constants_len local/true={o['clen']}/{o['ctrue']})",
                          {"profile": prof, "spec": d.get("spec"), "tag": d.get("tag"), "access": o})
        # ---- footprint tie
        seen, fcases, fmeta = set(), [], []
        for s in S:
            q = s_query(s)
            if q in seen:
                continue
            seen.add(q)
            fcases.append((q, "true"))
            fmeta.append(s)
            distinct.add("S" + q)
        fails, err = vlib.coq_eval_cases("c04f", IMPORTS, "foot_ok", "Bool.eqb", fcases, shard=500) if model_ok else ([], None)
        tot_eval += len(fcases)
        if err:
            ctx.broken.append("correspondence C04 (footprint): model evaluation failed")
            ctx.log(err[-3000:])
        for i in fails[:3]:
            s = fmeta[i]
            d = specs.get(s["case"], {})
            mo, _ = vlib.coq_eval_terms("c04f", IMPORTS, [f"let '(s, w, _, _) := {fcases[i][0]} in (must s w, regset s w)"])
            ctx.violation("tie:footprint", f"logged raw accesses of opcode {(s['snap'][2] >> 24) & 255} are not the model's footprint",
                          {"profile": prof, "spec": d.get("spec"), "tag": d.get("tag"), "instruction": s, "model_must_and_regset": mo[0]})
        if fails:
            ctx.broken.append(f"correspondence C04 ({prof}): footprint model and logged accesses differ on {len(fails)} of {len(fcases)} instructions")
        ctx.add_samples([{"function": d["spec"][:300], "tag": d["tag"], "verifier": d["verdict"]} for d in V[:2] + V[len(V) // 2:len(V) // 2 + 1]]
                        + [{"instruction_state": s["snap"], "logged": s["acc"][:8]} for s in S[:2]])
    if ctx.tier == "thorough":
        asan_leg(ctx, gap_lo, gap_hi)
        miri_leg(ctx, gap_lo, gap_hi)
    ctx.cov["evaluations"] = tot_eval
    ctx.cov["distinct_nontrivial"] = len(distinct)
    declared = sorted({v for _, v in ops}) if model_ok else []
    handled = sorted(names[n] for n in table) if model_ok else []
    never = [b for b in handled if HOP.get(b, 0) == 0]
    ctx.cov["input_distribution"] = {"mutation_family_counts": dist, "function_source": sources, "sizes": sizes,
                                     **{k: v for k, v in stats.items()},
                                     "executed_opcode_histogram": {str(k): v for k, v in sorted(HOP.items())},
                                     "logged_site_histogram": {SITE.get(k, "snapshot:%d" % k): v for k, v in sorted(HSITE.items()) if k < 100},
                                     "verifier_handled_opcodes": len(handled), "opcodes_executed_at_least_once": len([b for b in declared if HOP.get(b, 0)]),
                                     "handled_opcodes_never_executed": never}
    ctx.cov["rule"] = ("one instruction of every opcode byte 0..181 on int / class-matching (float, array, vec, string) registers with two operand triples (all five register contents in the thorough tier); 16 small programs (4 of them call-site-cache histories: global closure with a longer constant table than its caller, slow path / global store / miss / hit) compiled at -O0..-O3 by the real pipeline, all run unmutated first, then each mutated by one of: as-is, nested functions with upvalue descriptors at 0/k-1/k/k+1/255 from plain and closure frames, jump retargeted to any word "
                       "index (incl. len, len+1, -1), opcode byte of a cache word rewritten + jump into it, num_registers changed, stream "
                       "truncated / extended, operand or opcode byte rewritten, constants/upvalue descriptors changed, wrapped in 1-3 or "
                       "62-67 closure-calling wrappers (Call / CallCached), GetGlobal/SetGlobal with a small imm16 inside a wrapper, "
                       "pure random words, undeclared opcode byte 122..129 on the grid (verified in a child process); verdict equality with the Coq verifier on every function; every "
                       "accepted one executed under a 1500-instruction budget with the site log: all logged accesses checked against "
                       "their true buffer length, first 24 + last 2 instructions compared with the Coq footprint. "
                       "distinct = distinct function specs + distinct (state, word, log) triples")
