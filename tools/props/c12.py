"""C12 -- NaN-box: partition, round trips, equality.  Proof + contract tie (hx_value)."""
import vlib

TRUSTED = [
    "Coq 8.16.1 kernel + vm_compute (finite sweep over the 2^16 high-bit patterns; no native_compute)",
    "tools/extract.py transcribes QNAN/TAG_*/PAYLOAD_MASK/CANONICAL_NAN/INT_MIN/INT_MAX from bytecode/src/value/mod.rs",
    "Model/Value.v is a hand model of constructors.rs/checks.rs/accessors.rs/fmt.rs(PartialEq)/util.rs; tied by hx_value on every run",
    "host IEEE-754: f64::is_nan = exponent all ones and mantissa non-zero; i64->f64 exact below 2^53; == on f64",
]


def run(ctx):
    ctx.level = "proof"
    ctx.cov["trusted_base"] = TRUSTED
    ctx.assumptions = ["the model of Value is the code: checked by the contract tie below on structured + random words"]
    proved = ctx.prove("C12", extracted=["ValueConsts"])
    if ctx.tier == "thorough" and proved:
        ctx.coqchk("C12")
    # ---- correspondence
    ok, out = vlib.coq_make(["Base/CaseCheck.vo", "Model/ValueObs.vo"])
    if not ok:
        ctx.broken.append("coq: model files for the C12 tie do not build")
        ctx.log(out[-2000:])
        return
    n_random = 3000 if ctx.tier == "quick" else 60000
    profiles = ["dev"] if ctx.tier == "quick" else ["dev", "release"]
    total, distinct = 0, set()
    for prof in profiles:
        ok, paths, log = vlib.harness_build(["hx_value"], profile=prof)
        if not ok:
            ctx.broken.append("harness build failed (hx_value, %s)" % prof)
            ctx.log(log[-3000:])
            return
        rc, out = vlib.sh([paths["hx_value"], "--seed", str(ctx.seed), "--random", str(n_random)], timeout=600)
        if rc != 0:
            ctx.violation("hx_value-crash", "Value harness crashed (panic inside a Value method?)",
                          {"profile": prof, "output_tail": out[-2000:]})
            return
        cases = []
        for line in out.splitlines():
            if "\t" not in line:
                continue
            q, o = line.split("\t")
            q = " ".join(("(%s)" % t if t.startswith("-") else t) for t in q.split())
            obs = "[" + "; ".join(("(%s)" % t if t.startswith("-") else t) for t in o.split()) + "]%Z"
            qn = q.split()
            if qn[0] in ("QRaw", "QFloat", "QPtr", "QNested", "QNat", "QNatFloat"):
                q = f"{qn[0]} {qn[1]}%N"
            elif qn[0] == "QPool":
                q = "QPool [" + "; ".join(w + "%N" for w in qn[1].split(",")) + "]"
            elif qn[0] == "QEq":
                q = f"QEq {qn[1]}%N {qn[2]}%N"
            elif qn[0] in ("QInt", "QIntChecked", "QNatInt", "QMkInt"):
                q = f"{qn[0]} {qn[1]}%Z"
            cases.append((q, obs))
        total += len(cases)
        for q, _ in cases:
            if not q.startswith(("QNull", "QBool")):
                distinct.add(q)
        # direct property oracle on the implementation's own answers (also the search phase
        # when a proof obligation breaks)
        nd = 0
        for q, o in cases:
            d = eq_oracle(q, o) if q.startswith("QEq") else pool_oracle(q, o) if q.startswith("QPool") else oracle(q, o)
            if d:
                nd += 1
                if nd <= 3:
                    ctx.violation("value-oracle:" + q.split()[0], d,
                                  {"query": q, "implementation": o, "profile": prof, "oracle": d})
        ctx.cov["direct_oracle_failures"] = ctx.cov.get("direct_oracle_failures", 0) + nd
        fails, err = vlib.coq_eval_cases("c12", "From Aelys Require Import Model.Value Model.ValueObs.",
                                         "vobs", "zlist_eqb", cases)
        if err:
            ctx.broken.append("correspondence C12: model evaluation failed")
            ctx.log(err[-3000:])
        if fails:
            ctx.broken.append(f"correspondence C12 ({prof}): model and implementation differ on {len(fails)} cases")
            bad = [cases[i] for i in fails[:8]]
            mo, _ = vlib.coq_eval_terms("c12", "From Aelys Require Import Model.Value Model.ValueObs.",
                                        [f"vobs ({q})" for q, _ in bad])
            # direct oracle on the implementation's own observations: partition / round trip
            ctx.cov["disagreements"] = [{"query": q, "implementation": o, "model": m} for (q, o), m in zip(bad, mo)]
        ctx.add_samples([{"query": q, "observed": o} for q, o in cases[:2] + cases[len(cases) // 2: len(cases) // 2 + 2]])
    ctx.cov["evaluations"] = total
    ctx.cov["distinct_nontrivial"] = len(distinct)
    ctx.cov["rule"] = ("structured product sign x exponent class x quiet bit x 8 tags x 8 payload classes through from_raw, "
                       "i64 boundary neighbourhoods through int/int_checked, f64 specials and random bit patterns through float, "
                       "ptr/nested markers, == over a cross product of ints/floats/specials, plus seeded random words; "
                       "distinct = distinct query terms other than the constant bool/null queries")


KIND = ["float", "int", "bool", "null", "pointer", "nested-marker"]
M48 = (1 << 48) - 1


def is_nan_bits(w):
    return (w >> 52) & 0x7FF == 0x7FF and (w & ((1 << 52) - 1)) != 0


def raw_ok(v, want_kind, what):
    """v = raw observation vector of a constructed word; exactly one kind, the wanted one."""
    ks = [KIND[i] for i in range(6) if v[i]]
    if ks != [want_kind]:
        return f"{what} is recognised as {ks or 'no kind'} instead of exactly [{want_kind}]"
    return None


def oracle(q, o):
    """The property's own oracle applied to the implementation's answer (no model involved):
    exactly one kind per word, constructors produce their kind and read back what was stored."""
    v = [int(x.strip("() ")) for x in o[: -2].strip("[]").split(";")]
    t = q.replace("%N", "").replace("%Z", "").replace("(", "").replace(")", "").split()
    if t[0] == "QRaw":
        if sum(v[0:6]) != 1:
            return f"word {int(t[1]):#x} is recognised as {[KIND[i] for i in range(6) if v[i]] or 'no kind'}"
        return None
    if t[0] == "QEq":
        return None
    if t[0].startswith("QNat"):
        return native_oracle(t, v)
    if t[0] == "QMkInt":
        t = ["QIntChecked"] + t[1:]
    if t[0] == "QIntChecked":
        n = int(t[1])
        inr = -(1 << 47) <= n < (1 << 47)
        if bool(v[0]) != inr:
            return f"int_checked({n}) accepted={bool(v[0])} but 48-bit-range={inr}"
        if not inr:
            return None
        v = v[1:]
    w, r = v[0], v[1:]
    if t[0] in ("QInt", "QIntChecked"):
        n = int(t[1])
        e = raw_ok(r, "int", f"int({n})")
        if e:
            return e
        exp = ((n + (1 << 47)) % (1 << 48)) - (1 << 47)
        if not (r[6] == 1 and r[7] == exp):
            return f"int({n}) reads back as {r[7] if r[6] else None}, expected {exp}"
    elif t[0] == "QFloat":
        b = int(t[1])
        e = raw_ok(r, "float", f"float(bits {b:#x})")
        if e:
            return e
        if is_nan_bits(b):
            if not is_nan_bits(r[9]):
                return f"float(NaN {b:#x}) reads back as non-NaN {r[9]:#x}"
        elif not (r[8] == 1 and r[9] == b):
            return f"float(bits {b:#x}) reads back as {r[9]:#x}"
    elif t[0] == "QBool":
        b = 1 if t[1] == "true" else 0
        e = raw_ok(r, "bool", f"bool({t[1]})")
        if e:
            return e
        if not (r[10] == 1 and r[11] == b):
            return f"bool({t[1]}) reads back wrong"
    elif t[0] == "QNull":
        return raw_ok(r, "null", "null()")
    elif t[0] == "QPtr":
        e = raw_ok(r, "pointer", f"ptr({t[1]})")
        if e:
            return e
        if not (r[12] == 1 and r[13] == int(t[1])):
            return f"ptr({t[1]}) reads back as {r[13]}"
    elif t[0] == "QNested":
        e = raw_ok(r, "nested-marker", f"nested_fn_marker({t[1]})")
        if e:
            return e
        if not (r[14] == 1 and r[15] == int(t[1])):
            return f"nested_fn_marker({t[1]}) reads back as {r[15]}"
    return None


NKIND = ["null", "int", "float", "bool", "pointer"]


def native_oracle(t, v):
    """host-side copy of the scheme (native/src/value.rs): exactly one kind, constructors produce their
    kind and read back what was stored"""
    if t[0] == "QNat":
        ks = [NKIND[i] for i in range(5) if v[i]]
        return None if len(ks) == 1 else f"native: word {int(t[1]):#x} is recognised as {ks or 'no kind'}"
    w, r = v[0], v[1:]
    ks = [NKIND[i] for i in range(5) if r[i]]
    want = {"QNatInt": "int", "QNatFloat": "float", "QNatBool": "bool", "QNatNull": "null"}[t[0]]
    if ks != [want]:
        return f"native: {t[0][4:].lower()}({' '.join(t[1:])}) = {w:#x} is recognised as {ks or 'no kind'} instead of exactly [{want}]"
    if t[0] == "QNatInt":
        n = int(t[1])
        exp = ((n + (1 << 47)) % (1 << 48)) - (1 << 47)
        if r[5] != exp:
            return f"native: value_int({n}) reads back as {r[5]}, expected {exp}"
    if t[0] == "QNatFloat":
        b = int(t[1])
        if is_nan_bits(b):
            if r[6] != -1:
                return f"native: value_float(NaN {b:#x}) reads back as non-NaN {r[6]:#x}"
        elif r[6] != b:
            return f"native: value_float(bits {b:#x}) reads back as {r[6]:#x}"
    if t[0] == "QNatBool" and r[7] != (1 if t[1] == "true" else 0):
        return "native: value_bool reads back wrong"
    return None


def pool_oracle(q, o):
    """what add_constant hands back must read back bit for bit: constants[index_k] == word_k"""
    ws = [int(x.replace("%N", "")) for x in q[len("QPool ["):-1].split(";")]
    v = [int(x.strip("() ")) for x in o[:-2].strip("[]").split(";")]
    idx, n, pool = v[:len(ws)], v[len(ws)], v[len(ws) + 1:]
    for w, i in zip(ws, idx):
        if i >= n or pool[i] != w:
            return f"constant {w:#x} was stored in the pool but index {i} reads back {pool[i] if i < n else None:#x}"
    return None


def eq_oracle(q, o):
    """== between non-NaN numbers must be numeric equality (exact, via Fractions)."""
    from fractions import Fraction
    import struct
    t = q.replace("%N", "").split()
    a, b = int(t[1]), int(t[2])
    got = o.strip("[]%Z ") == "1"

    def num(w):
        hi = (w >> 48) & 0x7FFF
        if hi == 0x7FF9:
            p = w & M48
            return Fraction(p - (1 << 48) if p >= (1 << 47) else p)
        if (w >> 51) & 0xFFF == 0xFFF:     # boxed non-float
            return None
        if is_nan_bits(w) or (w >> 52) & 0x7FF == 0x7FF:
            return "inf" + str(w >> 63) if not is_nan_bits(w) else None
        return Fraction(struct.unpack("<d", struct.pack("<Q", w))[0])
    x, y = num(a), num(b)
    if x is None or y is None:
        return None
    if got != (x == y):
        return f"{a:#x} == {b:#x} gives {got} but the numbers are {x} and {y}"
    return None
